#!/bin/bash
# tools/run_all.sh [quick|thorough] : every check in turn, one summary line each
cd "$(dirname "$0")/.."
tier=${1:-quick}
for i in $(seq -w 1 20); do
  s=$(date +%s)
  out=$(./check C$i --tier $tier 2>&1); rc=$?
  echo "C$i rc=$rc $(( $(date +%s) - s ))s | $(echo "$out" | grep -c '^KNOWN') known | $(echo "$out" | grep -c '^VIOLATION') violations | $(echo "$out" | tail -1)"
  echo "$out" | grep '^VIOLATION\|^#' | head -6
done
