#!/usr/bin/env python3
"""py2coq_queue.py — thirteenth translation target of tools/py2coq.py: the work queue of classifier/morph_factory.py
(MorphFactory._get_anti_commutates, _get_max_connected, _append_to_queue, _get_queue): the order in which the members of one connected component
are handed to the canonical-graph pipeline.

Contracts (trusted): a PauliString is its letters (pstr); `a != b` / `a in L` compare letters (pstr_eqb / Model/Collection.memS); `p | g` is commutes_with
(Model/Pauli.commutes_code: ValueError on unequal lengths — tied to the source by Refine/PSRefine.v); `L.copy()` is L (lists are values); `L.sort()` is the
stable insertion sort by PauliString.__lt__ (Model/Collection.sort_strs); `L.remove(x)` removes the first member equal to x (ValueError if there is none);
`L.index(x)` is the position of the first member equal to x (ValueError if none); `L.insert(i, x)`, `L.append(x)`, `L[0]` (IndexError when empty), `len`.
A method that returns None and changes its list arguments in place (`_append_to_queue`) returns the final values of its list parameters, which the
caller rebinds.  `for p in L:` whose body removes from L, continues or returns is an index loop over the live list (CPython's list iterator: position
i, stop when i >= len(L)) on fuel; `while c:` is a loop on fuel; a `for` over a list that the body leaves alone is a fold.  `return None, None` is FNone;
unpacking it and then calling `<list>.remove(<first name>)` raises ValueError (None is no member).
Second group (the dependency test of append_to_center): is_empty_legs, get_vertices, _gen_one_legs, get_one_vertices, check_dependency_one_leg.  `self.legs` (a list of
lists of strings) is a parameter of every function that reads it or calls one that does; `a @ b` is PauliString.multiply without the phase (Model/Pauli.multiply_code:
ValueError on unequal lengths); `set(self.get_vertices())` is the list of the vertices — the set is only searched (`in`) and iterated by a loop that either raises
DependentException or goes on, so neither the order nor repeated members matter; `x.copy()` of a string is x; a generator returns the list of what it yields;
`for i in range(a, b)` with `break` is structural recursion over the indices a..b-1 (b read once); `raise X(...)` is FRaised (EUser "X"); a method whose body is one
`return <condition>` is a bool function.
Third group (the primitive edits): _find_in_leg, find, is_included, append, remove, replace.  A method that changes `self.legs` (insert / append / del / item store)
returns the new legs; `self.is_check` is a bool parameter; `try: k = L.index(x) except ValueError: k = c` is the position or c; `for i, x in enumerate(L)` (L not
changed in the body) and `for i in range(a, b, -1)` are structural recursion over the items computed at loop entry, `return` inside them leaves the function;
`del L[i]`, `L.insert(i, x)` with Python's index normalisation (norm_idx / Model/Collection.norm_insert); `L[i][j] = x` stores into the inner list;
`[L[i] for i in range(0, j)]` is the first j members.
Fourth group (look-ups of the steps): get_lits, lit, get_pq.  A trailing parameter `x: list[PauliString] = None` is an option; `if x is None: x = self.f()` makes it a
list from there on; a local that is assigned None and strings is an option, `x is (not) None` tests it, using it as a string when it is None is TypeError;
`if self.is_included(v):` binds the callee's answer first; `for v in L` with `return` (L not changed) is structural recursion over L."""
import ast, os
from py2coq import Unsupported, bad

PROP = "| FNone => FNone | FRaised e_ => FRaised e_ | FNonInt => FNonInt | FOutOfFuel => FOutOfFuel end"
VE = 'FRaised (EUser "ValueError"%string)'
CT = {"ps": "pstr", "list": "(list pstr)", "int": "Z", "legs": "(list (list pstr))", "bool": "bool", "unit": "unit", "ops": "(option pstr)", "olist": "(option (list pstr))"}
ELT = {"list": "ps", "legs": "list"}


def pat(names):
    names = list(names)
    return names[0] if len(names) == 1 else "(" + ", ".join(names) + ")"


class QFn:
    def __init__(self, tr, node):
        self.tr, self.node, self.name = tr, node, node.name
        self.coq = "py_Q_" + node.name
        args = node.args.args
        if not args or args[0].arg != "self" or node.args.kwonlyargs or node.args.vararg or node.args.kwarg: bad(node, "signature")
        if [ast.unparse(d) for d in node.args.defaults] not in ([], ["None"]): bad(node, "default values")
        self.optional = args[-1].arg if node.args.defaults else None
        self.params = []
        for a in args[1:]:
            t = ast.unparse(a.annotation) if a.annotation is not None else None
            if a.arg == self.optional:
                if t != "list[PauliString]": bad(a, "optional parameter type %s" % t)
                self.params.append((a.arg, "olist"))
            elif t in ("list[PauliString]", None) and a.arg != "pauli_string": self.params.append((a.arg, "list"))
            elif t == "PauliString": self.params.append((a.arg, "ps"))
            else: bad(a, "parameter type %s" % t)
        r = ast.unparse(node.returns)
        self.mutator = r == "None"
        self.generator = any(isinstance(n, (ast.Yield, ast.YieldFrom)) for n in ast.walk(node))
        src = ast.unparse(node)
        self.needs_legs = "self.legs" in src or any(f.needs_legs and ("self.%s(" % f.name) in src for f in tr.fns.values())
        if self.needs_legs: self.params.insert(0, ("self_legs", "legs"))
        self.purebool = False
        self.mut_legs = any(k in src for k in ("self.legs.insert(", "self.legs.append(", "del self.legs[")) or any(
            isinstance(n_, ast.Assign) and isinstance(n_.targets[0], ast.Subscript) and ast.unparse(n_.targets[0]).startswith("self.legs[") for n_ in ast.walk(node))
        self.needs_check = "self.is_check" in src or any(f.needs_check and ("self.%s(" % f.name) in src for f in tr.fns.values())
        self.mut_legs = self.mut_legs or any(f.mut_legs and ("self.%s(" % f.name) in src for f in tr.fns.values())
        if self.needs_check: self.params.insert(1 if self.needs_legs else 0, ("self_is_check", "bool"))
        self.needs_delayed = "self.delayed_vertices" in src
        if self.needs_delayed: self.params.insert(0, ("self_delayed", "list"))
        if self.needs_delayed and self.mutator:
            self.retnames = ["self_delayed"]; self.ret = ["list"]
        elif self.needs_delayed and r == "list[PauliString]":
            self.ret = ["list", "list"]          # (the result, self.delayed_vertices afterwards)
        elif self.mutator and self.mut_legs:
            self.retnames = ["self_legs"]; self.ret = ["legs"]
        elif r == "PauliString | None": self.ret = ["ps"]
        elif r == "PauliString": self.ret = ["ps"]
        elif r == "tuple[PauliString | None, PauliString | None]": self.ret = ["ps", "ps"]
        elif r == "int": self.ret = ["int"]
        elif r == "tuple[int, int]": self.ret = ["int", "int"]
        elif self.mutator:
            self.retnames = [n for n, t in self.params if t == "list"]
            self.ret = ["list"] * len(self.retnames) if self.retnames else ["unit"]
        elif self.generator and r == "Generator[list[list[PauliString]], None, None]": self.ret = ["legs"]
        elif r == "list[PauliString]": self.ret = ["list"]
        elif r == "bool":
            self.ret = ["bool"]
            self.purebool = len([x for x in node.body if not (isinstance(x, ast.Expr) and isinstance(x.value, ast.Constant))]) == 1
        elif r == "tuple[PauliString | None, list[PauliString] | None]": self.ret = ["ps", "list"]
        else: bad(node, "return type %s" % r)
        self.brk = None
        self.fuel = False
        self.fuelname = "fuel"
        self.aux = []        # loop Fixpoints emitted before the function
        self.nloop = 0

    def rett(self):
        return " * ".join(CT[t] for t in self.ret)

    # ---------- expressions (pure) ----------
    def expr(self, e, env):
        """-> (coq, type, guards)   guards: [(bool coq, failure outcome)]"""
        if isinstance(e, ast.Name) and e.id in env: return "v_" + e.id, env[e.id], []
        if isinstance(e, ast.Constant) and type(e.value) is int: return "%d" % e.value if e.value >= 0 else "(%d)" % e.value, "int", []
        if isinstance(e, ast.List) and not e.elts: return "(@nil pstr)", "list", []
        if ast.unparse(e) == "self.legs" and "self_legs" in env: return "v_self_legs", "legs", []
        if ast.unparse(e) == "self.delayed_vertices" and "self_delayed" in env: return "v_self_delayed", "list", []
        if isinstance(e, ast.UnaryOp) and isinstance(e.op, ast.USub) and isinstance(e.operand, ast.Constant) and type(e.operand.value) is int: return "(-%d)" % e.operand.value, "int", []
        if isinstance(e, ast.List) and len(e.elts) == 1:
            c, t, g = self.expr(e.elts[0], env)
            if t != "ps": bad(e, "list literal of %s" % t)
            return "[%s]" % c, "list", g
        if isinstance(e, ast.Call) and isinstance(e.func, ast.Name) and e.func.id == "len" and len(e.args) == 1 and not e.keywords:
            c, t, g = self.expr(e.args[0], env)
            if t not in ("list", "legs"): bad(e, "len of %s" % t)
            return "(Z.of_nat (length %s))" % c, "int", g
        if isinstance(e, ast.ListComp) and len(e.generators) == 2 and not e.generators[0].ifs and not e.generators[1].ifs and isinstance(e.elt, ast.Name) \
           and isinstance(e.generators[1].target, ast.Name) and e.elt.id == e.generators[1].target.id and isinstance(e.generators[0].target, ast.Name) \
           and isinstance(e.generators[1].iter, ast.Name) and e.generators[1].iter.id == e.generators[0].target.id:
            c, t, g = self.expr(e.generators[0].iter, env)      # [v for leg in L for v in leg]
            if t != "legs": bad(e, "flattening %s" % t)
            return "(concat %s)" % c, "list", g
        if isinstance(e, ast.Subscript) and not isinstance(e.slice, ast.Slice) and not (isinstance(e.slice, ast.Constant) and e.slice.value == 0):
            c, t, g = self.expr(e.value, env); i, ti, gi_ = self.expr(e.slice, env)
            if t == "list" and ti == "int": return "(list_get (@nil pl) %s %s)" % (c, i), "ps", g + gi_ + [("(idx_ok %s %s)" % (c, i), "FRaised EIndex")]
            if t != "legs" or ti != "int": bad(e, "subscript of %s by %s" % (t, ti))
            return "(list_get (@nil pstr) %s %s)" % (c, i), "list", g + gi_ + [("(idx_ok %s %s)" % (c, i), "FRaised EIndex")]
        if isinstance(e, ast.Call) and isinstance(e.func, ast.Attribute) and not e.keywords:
            c, t, g = self.expr(e.func.value, env)
            if e.func.attr == "copy" and t in ("list", "ps") and not e.args: return c, t, g
            if e.func.attr == "index" and t == "list" and len(e.args) == 1:
                x, tx, gx = self.expr(e.args[0], env)
                if tx != "ps": bad(e, "index of %s" % tx)
                return "(Z.of_nat (match find %s %s with Some k_ => k_ | None => O end))" % (x, c), "int", g + gx + [("(memS %s %s)" % (x, c), VE)]
        if isinstance(e, ast.Subscript) and isinstance(e.slice, ast.Constant) and e.slice.value == 0:
            c, t, g = self.expr(e.value, env)
            if t == "legs": return "(@hd (list pstr) (@nil pstr) %s)" % c, "list", g + [("(negb (Nat.eqb (length %s) 0))" % c, "FRaised EIndex")]
            if t != "list": bad(e, "subscript of %s" % t)
            return "(@hd pstr (@nil pl) %s)" % c, "ps", g + [("(negb (Nat.eqb (length %s) 0))" % c, "FRaised EIndex")]
        if isinstance(e, ast.BinOp) and isinstance(e.op, (ast.Add, ast.Sub)):
            x, tx, gx = self.expr(e.left, env); y, ty, gy = self.expr(e.right, env)
            if (tx, ty) != ("int", "int"): bad(e, "arithmetic on %s, %s" % (tx, ty))
            return "(%s %s %s)" % (x, "+" if isinstance(e.op, ast.Add) else "-", y), "int", gx + gy
        bad(e, "expression %s" % ast.unparse(e))

    def cond(self, t, env):
        """-> list of (coq bool, guards) to be tested in order (short-circuit `and`)"""
        if isinstance(t, ast.BoolOp) and isinstance(t.op, ast.And):
            return [c for v in t.values for c in self.cond(v, env)]
        if ast.unparse(t) == "self.is_check" and "self_is_check" in env: return [("v_self_is_check", [], None)]
        if isinstance(t, ast.Compare) and len(t.ops) == 1 and isinstance(t.ops[0], ast.Is) and isinstance(t.comparators[0], ast.Constant) and t.comparators[0].value is False \
           and isinstance(t.left, ast.Call) and self.callee(t.left) is not None and self.callee(t.left).purebool:
            cs = self.cond(t.left, env)
            return [("(negb %s)" % cs[0][0], cs[0][1], None)]
        if isinstance(t, ast.Compare) and len(t.ops) == 1 and isinstance(t.ops[0], (ast.Is, ast.IsNot)) and isinstance(t.left, ast.Name) and env.get(t.left.id) in ("ops", "olist") \
           and isinstance(t.comparators[0], ast.Constant) and t.comparators[0].value is None:
            c = "(match v_%s with Some _ => false | None => true end)" % t.left.id
            return [(c if isinstance(t.ops[0], ast.Is) else "(negb %s)" % c, [], None)]
        if isinstance(t, ast.BoolOp) and isinstance(t.op, ast.Or):
            parts = [self.cond(v, env) for v in t.values]
            if any(len(p_) != 1 or p_[0][1] or p_[0][2] is not None for p_ in parts): bad(t, "or of conditions that can raise")
            return [("(" + " || ".join(p_[0][0] for p_ in parts) + ")", [], None)]
        if isinstance(t, ast.Call) and self.callee(t) is not None and self.callee(t).purebool:
            fn = self.callee(t)
            args, g = self.call_args(fn, t, env)
            return [("(%s %s)" % (fn.coq, " ".join(args)), g, None)]
        if isinstance(t, ast.UnaryOp) and isinstance(t.op, ast.Not):
            cs = self.cond(t.operand, env)
            if len(cs) != 1: bad(t, "not of a conjunction")
            return [("(negb %s)" % cs[0][0], cs[0][1], cs[0][2])]
        if isinstance(t, ast.BinOp) and isinstance(t.op, ast.BitOr):
            x, tx, gx = self.expr(t.left, env); y, ty, gy = self.expr(t.right, env)
            if (tx, ty) != ("ps", "ps"): bad(t, "| on %s, %s" % (tx, ty))
            return [("c_", gx + gy, "commutes_code %s %s" % (x, y))]
        if isinstance(t, ast.Compare) and len(t.ops) == 1:
            x, tx, gx = self.expr(t.left, env); y, ty, gy = self.expr(t.comparators[0], env)
            op = t.ops[0]
            if isinstance(op, (ast.In, ast.NotIn)) and (tx, ty) == ("ps", "list"):
                c = "(memS %s %s)" % (x, y)
                return [(c if isinstance(op, ast.In) else "(negb %s)" % c, gx + gy, None)]
            if isinstance(op, (ast.Eq, ast.NotEq)) and (tx, ty) == ("ps", "ps"):
                c = "(pstr_eqb %s %s)" % (x, y)
                return [(c if isinstance(op, ast.Eq) else "(negb %s)" % c, gx + gy, None)]
            if (tx, ty) == ("int", "int") and type(op) in (ast.Eq, ast.NotEq, ast.Lt, ast.LtE, ast.Gt, ast.GtE):
                c = {ast.Eq: "(%s =? %s)", ast.NotEq: "(negb (%s =? %s))", ast.Lt: "(%s <? %s)", ast.LtE: "(%s <=? %s)", ast.Gt: "(%s >? %s)", ast.GtE: "(%s >=? %s)"}[type(op)] % (x, y)
                return [(c, gx + gy, None)]
        bad(t, "condition %s" % ast.unparse(t))

    def branch(self, t, env, yes, no):
        """if t then yes else no, with short-circuit evaluation; `no` is repeated"""
        txt = yes
        for c, g, call in reversed(self.cond(t, env)):
            if call is not None:
                txt = "(match %s with Ok c_ => if %s then %s else %s | ValueError => %s end)" % (call, c, txt, no, VE)
            else:
                txt = "(if %s then %s else %s)" % (c, txt, no)
            txt = self.guard(g, txt)
        return txt

    @staticmethod
    def guard(gs, txt):
        for g, o in reversed(gs):
            txt = "(if %s then %s else %s)" % (g, txt, o)
        return txt

    # ---------- statements ----------
    @staticmethod
    def assigned(stmts):
        out = []
        def add(nm):
            if nm not in out: out.append(nm)
        for n in ast.walk(ast.Module(body=stmts, type_ignores=[])):
            if isinstance(n, ast.Assign):
                for t in n.targets:
                    for t2 in (t.elts if isinstance(t, ast.Tuple) else [t]):
                        if isinstance(t2, ast.Name): add(t2.id)
                        else: bad(n, "assignment target")
            if isinstance(n, ast.For) and isinstance(n.target, ast.Name): add(n.target.id)
            if isinstance(n, ast.Expr) and isinstance(n.value, ast.Call) and isinstance(n.value.func, ast.Attribute) and isinstance(n.value.func.value, ast.Name):
                if n.value.func.attr in ("remove", "append", "insert", "sort"): add(n.value.func.value.id)
                if n.value.func.value.id == "self":
                    for a in n.value.args:
                        if isinstance(a, ast.Name): add(a.id)
        return out

    def ret_default(self, env):
        if self.generator: return "(FRet v_out_)"
        if self.mutator: return "(FRet %s)" % (pat("v_" + n for n in self.retnames) if self.retnames else "tt")
        return "FNone"

    def block(self, stmts, env, ft, cont=None):
        """ft: text at the end of the block (may mention the current variables); cont: text of `continue`"""
        if not stmts: return ft(env)
        s, rest = stmts[0], stmts[1:]
        R = lambda env2: self.block(rest, env2, ft, cont)
        if isinstance(s, ast.Expr) and isinstance(s.value, ast.Constant): return R(env)
        if isinstance(s, ast.Continue):
            if cont is None: bad(s, "continue outside a loop")
            return cont(env)
        if isinstance(s, ast.Break):
            if self.brk is None: bad(s, "break outside a range loop")
            return self.brk(env)
        if isinstance(s, ast.Raise) and isinstance(s.exc, ast.Call) and isinstance(s.exc.func, ast.Name) and s.cause is None:
            return 'FRaised (EUser "%s"%%string)' % s.exc.func.id
        if isinstance(s, ast.Expr) and isinstance(s.value, ast.Yield) and self.generator:
            c, t, g = self.expr(s.value.value, env)
            if [ {"list": "legs"}.get(t) ] != self.ret: bad(s, "yielded type %s" % t)
            return self.guard(g, "(let v_out_ := v_out_ ++ [%s] in %s)" % (c, R(env)))
        if isinstance(s, ast.Return):
            if s.value is None: return self.ret_default(env)
            if isinstance(s.value, ast.Constant) and s.value.value is None and self.ret == ["ps"]: return "FNone"
            if self.purebool:
                cs = self.cond(s.value, env)
                if len(cs) != 1 or cs[0][1] or cs[0][2] is not None: bad(s, "a bool function that can raise")
                return cs[0][0]
            if self.ret == ["bool"]:
                cs = self.cond(s.value, env)
                if len(cs) != 1 or cs[0][2] is not None: bad(s, "returned condition")
                return self.guard(cs[0][1], "(FRet %s)" % cs[0][0])
            if isinstance(s.value, ast.Tuple):
                if all(isinstance(x, ast.Constant) and x.value is None for x in s.value.elts): return "FNone"
                onames = sorted({n_.id for x in s.value.elts for n_ in ast.walk(x) if isinstance(n_, ast.Name) and env.get(n_.id) == "ops"})
                if onames:
                    # the option variables are used as strings: None @ x is a TypeError
                    env2 = dict(env)
                    for nm in onames: env2[nm] = "ps"
                    vals = []
                    for x in s.value.elts:
                        if isinstance(x, ast.BinOp) and isinstance(x.op, ast.MatMult):
                            a_, ta, ga = self.expr(x.left, env2); b_, tb, gb = self.expr(x.right, env2)
                            if (ta, tb) != ("ps", "ps") or ga or gb: bad(s, "@ in a returned tuple")
                            vals.append(("m_", "multiply_code %s %s" % (a_, b_)))
                        else:
                            c_, t_, g_ = self.expr(x, env2)
                            if t_ != "ps" or g_: bad(s, "returned tuple element")
                            vals.append((c_, None))
                    if sum(1 for _, m in vals if m) > 1: bad(s, "two products in a returned tuple")
                    inner = "(FRet %s)" % pat(c_ for c_, _ in vals)
                    for c_, m in vals:
                        if m: inner = "(match %s with Ok m_ => %s | ValueError => %s end)" % (m, inner, VE)
                    return "(match %s with %s => %s | %s => FRaised EType end)" % (", ".join("v_" + nm for nm in onames), ", ".join("Some v_" + nm for nm in onames), inner, ", ".join("_" for _ in onames))
                vals = [self.expr(x, env) for x in s.value.elts]
                if [t for _, t, _ in vals] != self.ret: bad(s, "returned types")
                return self.guard([g for _, _, gg in vals for g in gg], "(FRet %s)" % pat(c for c, _, _ in vals))
            if isinstance(s.value, ast.ListComp) and len(s.value.generators) == 1 and len(s.value.generators[0].ifs) == 1 and isinstance(s.value.generators[0].target, ast.Name) \
               and isinstance(s.value.elt, ast.Name) and s.value.elt.id == s.value.generators[0].target.id and self.ret == ["list"]:
                lc = s.value
                it, ti, gi_ = self.expr(lc.generators[0].iter, env)
                if ti != "list" or gi_: bad(lc, "comprehension over %s" % ti)
                x = lc.generators[0].target.id
                benv = dict(env); benv[x] = "ps"
                return "(fold_left (fun (o_ : fres (list pstr)) (v_%s : pstr) => match o_ with FRet acc_ => %s %s) %s (FRet (@nil pstr)))" % (
                    x, self.branch(lc.generators[0].ifs[0], benv, "(FRet (acc_ ++ [v_%s]))" % x, "(FRet acc_)"), PROP, it)
            c, t, g = self.expr(s.value, env)
            if self.needs_delayed and self.ret == ["list", "list"] and t == "list": return self.guard(g, "(FRet (%s, v_self_delayed))" % c)
            if [t] != self.ret: bad(s, "returned type %s" % t)
            return self.guard(g, "(FRet %s)" % c)
        if isinstance(s, ast.If) and not s.orelse and len(s.body) == 1 and isinstance(s.test, ast.Compare) and isinstance(s.test.ops[0], ast.Is) and isinstance(s.test.left, ast.Name) \
           and env.get(s.test.left.id) == "olist" and isinstance(s.body[0], ast.Assign) and isinstance(s.body[0].targets[0], ast.Name) and s.body[0].targets[0].id == s.test.left.id \
           and self.callee(s.body[0].value) is not None and self.callee(s.body[0].value).ret == ["list"]:
            # if X is None: X = self.f(...)   -- from here on X is a list
            X = s.test.left.id
            fn = self.callee(s.body[0].value)
            args, g = self.call_args(fn, s.body[0].value, env)
            env2 = dict(env); env2[X] = "list"
            body = self.block(rest, env2, ft, cont)
            return "(match v_%s with Some l_ => (let v_%s := l_ in %s) | None => %s end)" % (X, X, body, self.guard(g, "(match %s %s with FRet r_ => let v_%s := r_ in %s %s)" % (fn.coq, " ".join(args), X, body, PROP)))
        if isinstance(s, ast.If) and isinstance(s.test, ast.Call) and self.callee(s.test) is not None and self.callee(s.test).ret == ["bool"] and not self.callee(s.test).purebool:
            fn = self.callee(s.test)
            args, g = self.call_args(fn, s.test, env)
            ends = lambda b: isinstance(b[-1], (ast.Return, ast.Continue, ast.Raise)) if b else False
            yes = self.block(s.body, env, (lambda e2: self.block(rest, e2, ft, cont)), cont) if not ends(s.body) else self.block(s.body, env, ft, cont)
            no = self.block(s.orelse, env, (lambda e2: self.block(rest, e2, ft, cont)), cont) if s.orelse else R(env)
            return self.guard(g, "(match %s %s with FRet b_ => if b_ then %s else %s %s)" % (fn.coq, " ".join(args), yes, no, PROP))
        if isinstance(s, ast.If):
            ends = lambda b: isinstance(b[-1], (ast.Return, ast.Continue)) if b else False
            yes = self.block(s.body, env, (lambda e2: self.block(rest, e2, ft, cont)), cont) if not ends(s.body) else self.block(s.body, env, ft, cont)
            no = self.block(s.orelse, env, (lambda e2: self.block(rest, e2, ft, cont)), cont) if s.orelse else R(env)
            return self.branch(s.test, env, yes, no)
        if isinstance(s, ast.Try) and not s.orelse and not s.finalbody and len(s.handlers) == 1 and ast.unparse(s.handlers[0].type) == "ValueError" and s.handlers[0].name is None \
           and len(s.body) == 1 and len(s.handlers[0].body) == 1 and isinstance(s.body[0], ast.Assign) and isinstance(s.handlers[0].body[0], ast.Assign) \
           and ast.unparse(s.body[0].targets[0]) == ast.unparse(s.handlers[0].body[0].targets[0]) and isinstance(s.body[0].targets[0], ast.Name) \
           and isinstance(s.body[0].value, ast.Call) and isinstance(s.body[0].value.func, ast.Attribute) and s.body[0].value.func.attr == "index" and len(s.body[0].value.args) == 1:
            # try: k = L.index(x)  except ValueError: k = <int>
            nm = s.body[0].targets[0].id
            L, tL, gL = self.expr(s.body[0].value.func.value, env); x, tx, gx = self.expr(s.body[0].value.args[0], env); d, td, gd = self.expr(s.handlers[0].body[0].value, env)
            if (tL, tx, td) != ("list", "ps", "int") or gL or gx or gd or env.get(nm, "int") != "int": bad(s, "try around index")
            env2 = dict(env); env2[nm] = "int"
            return "(let v_%s := (match Collection.find %s %s with Some k_ => Z.of_nat k_ | None => %s end) in %s)" % (nm, x, L, d, R(env2))
        if isinstance(s, ast.Expr) and isinstance(s.value, ast.Call) and isinstance(s.value.func, ast.Attribute) and ast.unparse(s.value.func.value) == "self.delayed_vertices" \
           and s.value.func.attr == "append" and len(s.value.args) == 1 and "self_delayed" in env:
            x, tx, gx = self.expr(s.value.args[0], env)
            if tx != "ps": bad(s, "append of %s" % tx)
            return self.guard(gx, "(let v_self_delayed := v_self_delayed ++ [%s] in %s)" % (x, R(env)))
        if isinstance(s, ast.Assign) and len(s.targets) == 1 and ast.unparse(s.targets[0]) == "self.delayed_vertices" and "self_delayed" in env:
            c, t, g = self.expr(s.value, env)
            if t != "list": bad(s, "self.delayed_vertices = %s" % t)
            return self.guard(g, "(let v_self_delayed := %s in %s)" % (c, R(env)))
        if isinstance(s, ast.Delete) and len(s.targets) == 1 and isinstance(s.targets[0], ast.Subscript) and ast.unparse(s.targets[0].value) == "self.legs" and "self_legs" in env:
            i, ti, gi_ = self.expr(s.targets[0].slice, env)
            if ti != "int": bad(s, "del by %s" % ti)
            return self.guard(gi_ + [("(idx_ok v_self_legs %s)" % i, "FRaised EIndex")], "(let v_self_legs := delete_atL (Z.to_nat (norm_idx (length v_self_legs) %s)) v_self_legs in %s)" % (i, R(env)))
        if isinstance(s, ast.Expr) and isinstance(s.value, ast.Call) and isinstance(s.value.func, ast.Attribute) and ast.unparse(s.value.func.value) == "self.legs" and "self_legs" in env and not s.value.keywords:
            if s.value.func.attr == "append" and len(s.value.args) == 1:
                x, tx, gx = self.expr(s.value.args[0], env)
                if tx != "list": bad(s, "legs.append of %s" % tx)
                return self.guard(gx, "(let v_self_legs := v_self_legs ++ [%s] in %s)" % (x, R(env)))
            if s.value.func.attr == "insert" and len(s.value.args) == 2:
                i, ti, gi_ = self.expr(s.value.args[0], env); x, tx, gx = self.expr(s.value.args[1], env)
                if (ti, tx) != ("int", "list"): bad(s, "legs.insert of %s, %s" % (ti, tx))
                return self.guard(gi_ + gx, "(let v_self_legs := insert_atL (norm_insert (length v_self_legs) %s) %s v_self_legs in %s)" % (i, x, R(env)))
        if isinstance(s, ast.Assign) and len(s.targets) == 1 and isinstance(s.targets[0], ast.Subscript) and isinstance(s.targets[0].value, ast.Subscript) \
           and ast.unparse(s.targets[0].value.value) == "self.legs" and "self_legs" in env:
            i, ti, gi_ = self.expr(s.targets[0].value.slice, env); j, tj, gj = self.expr(s.targets[0].slice, env); x, tx, gx = self.expr(s.value, env)
            if (ti, tj, tx) != ("int", "int", "ps"): bad(s, "store into self.legs[%s][%s]" % (ti, tj))
            return self.guard(gx + gi_ + gj + [("(idx_ok v_self_legs %s)" % i, "FRaised EIndex"), ("(idx_ok (list_get (@nil pstr) v_self_legs %s) %s)" % (i, j), "FRaised EIndex")],
                              "(let v_self_legs := list_set v_self_legs %s (list_set (list_get (@nil pstr) v_self_legs %s) %s %s) in %s)" % (i, i, j, x, R(env)))
        if isinstance(s, ast.For) and not s.orelse and isinstance(s.iter, ast.Call) and ast.unparse(s.iter.func) == "enumerate" and len(s.iter.args) == 1 \
           and isinstance(s.target, ast.Tuple) and len(s.target.elts) == 2 and all(isinstance(x_, ast.Name) for x_ in s.target.elts):
            return self.range_loop(s, rest, env, ft, cont, enum=True)
        if isinstance(s, ast.For) and not s.orelse and isinstance(s.target, ast.Name) and isinstance(s.iter, ast.Call) and ast.unparse(s.iter.func) == "range" and len(s.iter.args) == 3 \
           and ast.unparse(s.iter.args[2]) == "-1":
            return self.range_loop(s, rest, env, ft, cont, down=True)
        if isinstance(s, ast.Assign) and len(s.targets) == 1:
            tg, v = s.targets[0], s.value
            if isinstance(v, ast.Call) and isinstance(v.func, ast.Name) and v.func.id == "set" and len(v.args) == 1 and self.callee(v.args[0]) is not None:
                v = v.args[0]       # a set of strings, only iterated and searched: the list of its members (see the contracts)
            if isinstance(v, ast.ListComp) and isinstance(tg, ast.Name) and len(v.generators) == 1 and not v.generators[0].ifs and isinstance(v.generators[0].target, ast.Name) \
               and isinstance(v.generators[0].iter, ast.Call) and ast.unparse(v.generators[0].iter.func) == "range" and len(v.generators[0].iter.args) == 2 and ast.unparse(v.generators[0].iter.args[0]) == "0" \
               and isinstance(v.elt, ast.Subscript) and isinstance(v.elt.slice, ast.Name) and v.elt.slice.id == v.generators[0].target.id:
                # [L[i] for i in range(0, j)]: the first j members (IndexError if j exceeds the length)
                L, tL, gL = self.expr(v.elt.value, env); j, tj, gj = self.expr(v.generators[0].iter.args[1], env)
                if (tL, tj) != ("list", "int") or env.get(tg.id, "list") != "list": bad(s, "prefix comprehension")
                env2 = dict(env); env2[tg.id] = "list"
                return self.guard(gL + gj + [("(%s <=? Z.of_nat (length %s))" % (j, L), "FRaised EIndex")], "(let v_%s := firstn (Z.to_nat %s) %s in %s)" % (tg.id, j, L, R(env2)))
            if isinstance(v, ast.BinOp) and isinstance(v.op, ast.MatMult) and isinstance(tg, ast.Name):
                x, tx, gx = self.expr(v.left, env); y, ty, gy = self.expr(v.right, env)
                if (tx, ty) != ("ps", "ps") or env.get(tg.id, "ps") != "ps": bad(s, "@ on %s, %s" % (tx, ty))
                env2 = dict(env); env2[tg.id] = "ps"
                return self.guard(gx + gy, "(match multiply_code %s %s with Ok m_ => let v_%s := m_ in %s | ValueError => %s end)" % (x, y, tg.id, R(env2), VE))
            if isinstance(v, ast.Subscript) and isinstance(v.slice, ast.Constant) and v.slice.value == 0 and self.callee(v.value) is not None and len(self.callee(v.value).ret) == 2 and isinstance(tg, ast.Name):
                tmp = "snd%d_" % s.lineno
                s2 = ast.copy_location(ast.Assign(targets=[ast.Tuple(elts=[ast.Name(id=tg.id, ctx=ast.Store()), ast.Name(id=tmp, ctx=ast.Store())], ctx=ast.Store())], value=v.value), s)
                return self.block([s2] + rest, env, ft, cont)
            fn = self.callee(v)
            if fn is not None:
                args, g = self.call_args(fn, v, env)
                names = [t.id for t in tg.elts] if isinstance(tg, ast.Tuple) else [tg.id]
                if len(names) != len(fn.ret) or fn.mutator: bad(s, "unpacking the result of %s" % fn.name)
                env2 = dict(env)
                for nm, t in zip(names, fn.ret):
                    if env.get(nm, t) != t: bad(s, "%s changes type" % nm)
                    env2[nm] = t
                none = "FNone"
                if fn.ret == ["ps"]:
                    nx = rest[0] if rest else None
                    if not (isinstance(nx, ast.Expr) and isinstance(nx.value, ast.Call) and ast.unparse(nx.value.func) == "self.append" and len(nx.value.args) == 2
                            and isinstance(nx.value.args[1], ast.Name) and nx.value.args[1].id == names[0] and len(rest) == 1): bad(s, "use of a possibly-None result")
                    none = 'FRaised (EUser "MorphFactoryException"%string)'      # append(v, None): find(None) is (-1, -1): "No vertex"
                if fn.ret == ["ps", "list"]:
                    # a pair of Nones: the next statement must be <list>.remove(<first name>), which raises ValueError
                    nx = rest[0] if rest else None
                    if not (isinstance(nx, ast.Expr) and isinstance(nx.value, ast.Call) and isinstance(nx.value.func, ast.Attribute) and nx.value.func.attr == "remove"
                            and len(nx.value.args) == 1 and isinstance(nx.value.args[0], ast.Name) and nx.value.args[0].id == names[0]): bad(s, "use of a possibly-None result")
                    none = VE
                return self.guard(g, "(match %s %s with FRet r_ => let %s := r_ in %s | FNone => %s | FRaised e_ => FRaised e_ | FNonInt => FNonInt | FOutOfFuel => FOutOfFuel end)" % (
                    fn.coq, " ".join(args), ("'" if len(names) > 1 else "") + pat("v_" + n for n in names), R(env2), none))
            if not isinstance(tg, ast.Name): bad(s, "assignment target")
            if isinstance(v, ast.Constant) and v.value is None and env.get(tg.id, "ops") == "ops":
                env2 = dict(env); env2[tg.id] = "ops"
                return "(let v_%s := (@None pstr) in %s)" % (tg.id, R(env2))
            if env.get(tg.id) == "ops":
                c, t, g = self.expr(v, env)
                if t != "ps": bad(s, "assignment of %s to an optional string" % t)
                return self.guard(g, "(let v_%s := (Some %s) in %s)" % (tg.id, c, R(env)))
            c, t, g = self.expr(v, env)
            if env.get(tg.id, t) != t: bad(s, "%s changes type" % tg.id)
            env2 = dict(env); env2[tg.id] = t
            return self.guard(g, "(let v_%s := %s in %s)" % (tg.id, c, R(env2)))
        if isinstance(s, ast.Expr) and isinstance(s.value, ast.Call) and isinstance(s.value.func, ast.Attribute) and not s.value.keywords:
            f = s.value.func
            fn = self.callee(s.value)
            if fn is not None:
                if not fn.mutator: bad(s, "result of %s dropped" % fn.name)
                args, g = self.call_args(fn, s.value, env)
                if fn.mut_legs:
                    return self.guard(g, "(match %s %s with FRet r_ => let v_self_legs := r_ in %s %s)" % (fn.coq, " ".join(args), R(env), PROP))
                if fn.ret == ["unit"]:
                    return self.guard(g, "(match %s %s with FRet _ => %s %s)" % (fn.coq, " ".join(args), R(env), PROP))
                lists = [a.id for a, (_, t) in zip(s.value.args, [p_ for p_ in fn.params if p_[0] not in ("self_legs", "self_is_check")]) if t == "list"]
                if len(set(lists)) != len(lists): bad(s, "one list passed twice")
                return self.guard(g, "(match %s %s with FRet r_ => let %s := r_ in %s %s)" % (fn.coq, " ".join(args), ("'" if len(lists) > 1 else "") + pat("v_" + n for n in lists), R(env), PROP))
            if isinstance(f.value, ast.Name) and env.get(f.value.id) == "list":
                L = f.value.id
                if f.attr == "sort" and not s.value.args: return "(let v_%s := sort_strs v_%s in %s)" % (L, L, R(env))
                if f.attr in ("remove", "append") and len(s.value.args) == 1:
                    x, tx, gx = self.expr(s.value.args[0], env)
                    if tx != "ps": bad(s, "%s of %s" % (f.attr, tx))
                    if f.attr == "append": return self.guard(gx, "(let v_%s := v_%s ++ [%s] in %s)" % (L, L, x, R(env)))
                    return self.guard(gx + [("(memS %s v_%s)" % (x, L), VE)], "(let v_%s := remove1 %s v_%s in %s)" % (L, x, L, R(env)))
                if f.attr == "insert" and len(s.value.args) == 2:
                    i, ti, gi_ = self.expr(s.value.args[0], env); x, tx, gx = self.expr(s.value.args[1], env)
                    if (ti, tx) != ("int", "ps"): bad(s, "insert of %s, %s" % (ti, tx))
                    return self.guard(gi_ + gx, "(let v_%s := insert_at (norm_insert (length v_%s) %s) %s v_%s in %s)" % (L, L, i, x, L, R(env)))
        if isinstance(s, ast.For) and not s.orelse and isinstance(s.target, ast.Name) and self.callee(s.iter) is not None:
            fn = self.callee(s.iter)
            if fn.mutator or len(fn.ret) != 1 or fn.ret[0] not in ELT: bad(s, "iteration over the result of %s" % fn.name)
            args, g = self.call_args(fn, s.iter, env)
            tmp = "it%d_" % s.lineno
            env2 = dict(env); env2[tmp] = fn.ret[0]
            s2 = ast.copy_location(ast.For(target=s.target, iter=ast.Name(id=tmp, ctx=ast.Load()), body=s.body, orelse=[]), s)
            return self.guard(g, "(match %s %s with FRet r_ => let v_%s := r_ in %s %s)" % (fn.coq, " ".join(args), tmp, self.block([s2] + rest, env2, ft, cont), PROP))
        if isinstance(s, ast.For) and not s.orelse and isinstance(s.target, ast.Name) and isinstance(s.iter, ast.Call) and ast.unparse(s.iter.func) == "range" and len(s.iter.args) == 2:
            return self.range_loop(s, rest, env, ft, cont)
        if isinstance(s, ast.For) and not s.orelse and isinstance(s.target, ast.Name) and isinstance(s.iter, ast.Name) and env.get(s.iter.id) in ELT:
            L, x = s.iter.id, s.target.id
            if x in env: bad(s, "loop variable shadows a local")
            asg = self.assigned(s.body)
            own = []       # jumps that belong to this loop (not to a loop nested in it)
            def scan(stmts):
                for n in stmts:
                    if isinstance(n, (ast.Continue, ast.Return, ast.Break)): own.append(n)
                    elif isinstance(n, ast.If): scan(n.body); scan(n.orelse)
                    elif isinstance(n, (ast.For, ast.While)):
                        for m in ast.walk(n):
                            if isinstance(m, ast.Return): own.append(m)
            scan(s.body)
            jumps = any(not isinstance(n, ast.Continue) for n in own)
            if any(isinstance(n, ast.Break) for n in own): bad(s, "break")
            state = [n for n in asg if n in env]
            if L not in asg and not jumps:
                # a fold over the list (continue = end of this iteration)
                benv = dict(env); benv[x] = ELT[env[L]]
                stt = pat("v_" + n for n in state) if state else "tt"
                body = self.block(s.body, benv, lambda e2: "(FRet %s)" % stt, lambda e2: "(FRet %s)" % stt)
                for n in ast.walk(ast.Module(body=rest, type_ignores=[])):
                    if isinstance(n, ast.Name) and n.id not in env and n.id in asg: bad(s, "%s is assigned only inside the loop and read after it" % n.id)
                sp = (("'" if len(state) > 1 else "") + pat("v_" + n for n in state)) if state else "_"
                return "(match fold_left (fun (o_ : fres (%s)) (v_%s : %s) => match o_ with FRet st_ => let %s := st_ in %s %s) v_%s (FRet %s) with FRet st_ => let %s := st_ in %s %s)" % (
                    " * ".join(CT[env[n]] for n in state) if state else "unit", x, CT[ELT[env[L]]], sp, body, PROP, L, stt, sp, R(env), PROP)
            if L not in asg:
                return self.range_loop(s, rest, env, ft, cont, plain=True)
            return self.loop(s, rest, env, ft, cont, index=(L, x))
        if isinstance(s, ast.While) and not s.orelse:
            return self.loop(s, rest, env, ft, cont, index=None)
        bad(s, "statement %s" % ast.unparse(s).split("\n")[0])

    def loop(self, s, rest, env, ft, cont, index):
        """an index loop over a live list / a while loop: a Fixpoint on fuel over all current variables; what follows the loop is inside it"""
        if cont is not None: bad(s, "a nested loop of this kind")
        self.fuel = True
        self.nloop += 1
        name = "%s_loop%d" % (self.coq, self.nloop)
        vs = list(env)
        call = lambda e2, extra="": "(%s fuel_ %s%s)" % (name, extra, " ".join("v_" + n for n in vs))
        self.fuelname = "fuel_"
        after = self.block(rest, env, ft, None)
        if index is not None:
            L, x = index
            benv = dict(env); benv[x] = "ps"
            body = self.block(s.body, benv, lambda e2: call(e2, "i_ "), lambda e2: call(e2, "i_ "))
            inner = "(if i_ <? Z.of_nat (length v_%s) then (let v_%s := @nth pstr (Z.to_nat i_) v_%s (@nil pl) in let i_ := i_ + 1 in %s) else %s)" % (L, x, L, body, after)
            ps = "(i_ : Z) "
            start = "0 "
        else:
            body = self.block(s.body, env, lambda e2: call(e2), lambda e2: call(e2))
            inner = self.branch(s.test, env, body, after)
            ps, start = "", ""
        self.fuelname = "fuel"
        self.aux.append("Fixpoint %s (fuel_ : nat) %s%s {struct fuel_} : fres (%s) :=\n  match fuel_ with O => FOutOfFuel | S fuel_ =>\n  %s\n  end." % (
            name, ps, " ".join("(v_%s : %s)" % (n, CT[env[n]]) for n in vs), self.rett(), inner))
        return "(%s fuel %s%s)" % (name, start, " ".join("v_" + n for n in vs))

    def range_loop(self, s, rest, env, ft, cont, enum=False, down=False, plain=False):
        """for i in range(a, b) / range(a, b, -1) / for i, x in enumerate(L): ... (with break / continue / return): a Fixpoint by structural recursion over the
        items (computed once at loop entry, as Python's range and — for a list the body does not change — enumerate do); what follows the loop is inside it"""
        if cont is not None or self.brk is not None: bad(s, "a nested loop of this kind")
        benv = dict(env)
        if plain:
            L = s.iter.id
            benv[s.target.id] = ELT[env[L]]
            items, ity, ipat, g0, fresh = "v_" + L, CT[ELT[env[L]]], "v_" + s.target.id, [], [s.target.id]
        elif enum:
            L, tL, gL = self.expr(s.iter.args[0], env)
            if tL not in ELT or gL: bad(s, "enumerate of %s" % tL)
            if any(isinstance(n_, (ast.Delete,)) or (isinstance(n_, ast.Attribute) and n_.attr in ("insert", "append", "remove")) for b_ in s.body for n_ in ast.walk(b_)): bad(s, "the enumerated list is changed in the loop")
            xi, xv = s.target.elts[0].id, s.target.elts[1].id
            benv[xi] = "int"; benv[xv] = ELT[tL]
            items, ity, ipat, g0 = "(combine (map Z.of_nat (seq 0 (length %s))) %s)" % (L, L), "(Z * %s)" % CT[ELT[tL]], "(v_%s, v_%s)" % (xi, xv), []
            fresh = [xi, xv]
        else:
            a, ta, ga = self.expr(s.iter.args[0], env); b, tb, gb = self.expr(s.iter.args[1], env)
            if (ta, tb) != ("int", "int"): bad(s, "range of %s, %s" % (ta, tb))
            benv[s.target.id] = "int"
            items = ("(map (fun k_ => %s - Z.of_nat k_) (seq 0 (Z.to_nat (%s - %s))))" % (a, a, b)) if down else ("(map (fun k_ => %s + Z.of_nat k_) (seq 0 (Z.to_nat (%s - %s))))" % (a, b, a))
            ity, ipat, g0 = "Z", "v_" + s.target.id, ga + gb
            fresh = [s.target.id]
        if any(x in env for x in fresh): bad(s, "loop variable shadows a local")
        self.nloop += 1
        name = "%s_loop%d" % (self.coq, self.nloop)
        vs = list(env)
        after = self.block(rest, env, ft, None)
        again = lambda e2: "(%s rest_ %s)" % (name, " ".join("v_" + n for n in vs))
        self.brk = lambda e2: after
        body = self.block(s.body, benv, again, again)
        self.brk = None
        self.aux.append("Fixpoint %s (idx_ : list %s) %s {struct idx_} : fres (%s) :=\n  match idx_ with [] => %s | %s :: rest_ =>\n  %s\n  end." % (
            name, ity, " ".join("(v_%s : %s)" % (n, CT[env[n]]) for n in vs), self.rett(), after, ipat, body))
        return self.guard(g0, "(%s %s %s)" % (name, items, " ".join("v_" + n for n in vs)))

    def callee(self, v):
        if isinstance(v, ast.Call) and isinstance(v.func, ast.Attribute) and isinstance(v.func.value, ast.Name) and v.func.value.id == "self" and not v.keywords:
            fn = self.tr.fns.get(v.func.attr)
            if fn is None: bad(v, "call of self.%s" % v.func.attr)
            return fn
        return None

    def call_args(self, fn, v, env):
        fparams = [p_ for p_ in fn.params if p_[0] not in ("self_legs", "self_is_check", "self_delayed")]
        if fn.needs_delayed: bad(v, "call of a method that uses self.delayed_vertices")
        missing = fn.optional is not None and len(v.args) == len(fparams) - 1
        if len(v.args) != len(fparams) and not missing: bad(v, "arity of %s" % fn.name)
        cs, gs = ([self.fuelname] if fn.fuel else []), []
        if fn.fuel: self.fuel = True
        if fn.needs_legs:
            if "self_legs" not in env: bad(v, "self.legs needed by %s" % fn.name)
            cs.append("v_self_legs")
        if fn.needs_check:
            if "self_is_check" not in env: bad(v, "self.is_check needed by %s" % fn.name)
            cs.append("v_self_is_check")
        for a, (_, pt) in zip(v.args, fparams):
            if fn.mutator and pt == "list" and not isinstance(a, ast.Name): bad(v, "a list argument that is changed in place must be a name")
            c, t, g = self.expr(a, env)
            if pt == "olist" and t == "list": c, t = "(Some %s)" % c, "olist"
            if t != pt: bad(v, "argument type %s for %s" % (t, pt))
            cs.append(c); gs += g
        if missing: cs.append("(@None (list pstr))")
        return cs, gs

    def emit(self):
        env = {n: t for n, t in self.params}
        n = self.node
        body = n.body
        # a function that is one list comprehension with a filter
        stm = [x for x in body if not (isinstance(x, ast.Expr) and isinstance(x.value, ast.Constant))]
        if len(stm) == 1 and isinstance(stm[0], ast.Return) and isinstance(stm[0].value, ast.ListComp) and len(stm[0].value.generators) == 1:
            lc = stm[0].value
            if len(lc.generators) != 1 or len(lc.generators[0].ifs) != 1 or not isinstance(lc.generators[0].target, ast.Name) or not isinstance(lc.elt, ast.Name) or lc.elt.id != lc.generators[0].target.id: bad(lc, "comprehension")
            it, ti, gi_ = self.expr(lc.generators[0].iter, env)
            if ti != "list" or gi_ or self.ret != ["list"]: bad(lc, "comprehension over %s" % ti)
            x = lc.generators[0].target.id
            benv = dict(env); benv[x] = "ps"
            txt = "(fold_left (fun (o_ : fres (list pstr)) (v_%s : pstr) => match o_ with FRet acc_ => %s %s) %s (FRet (@nil pstr)))" % (
                x, self.branch(lc.generators[0].ifs[0], benv, "(FRet (acc_ ++ [v_%s]))" % x, "(FRet acc_)"), PROP, it)
        elif self.purebool:
            if len(stm) != 1 or not isinstance(stm[0], ast.Return): bad(n, "a bool function that is not one return")
            txt = self.block(stm, env, lambda e2: bad(n, "fall-through"))
            ps = " ".join("(v_%s : %s)" % (nm, CT[t]) for nm, t in self.params)
            return "(* MorphFactory.%s, lines %d-%d *)\nDefinition %s %s : bool :=\n  %s." % (self.name, n.lineno, n.end_lineno, self.coq, ps, txt)
        else:
            if self.generator:
                env["out_"] = self.ret[0]
                txt = "(let v_out_ := (@nil (list pstr)) in %s)" % self.block(body, env, lambda e2: self.ret_default(e2))
            else:
                txt = self.block(body, env, lambda e2: self.ret_default(e2))
        ps = ("(fuel : nat) " if self.fuel else "") + " ".join("(v_%s : %s)" % (nm, CT[t]) for nm, t in self.params)
        head = "(* MorphFactory.%s, lines %d-%d *)\n" % (self.name, n.lineno, n.end_lineno)
        return head + "".join(a + "\n" for a in self.aux) + "Definition %s %s : fres (%s) :=\n  %s." % (self.coq, ps, self.rett(), txt)


class QueueTranslator:
    WANT = ["_get_anti_commutates", "_get_max_connected", "_append_to_queue", "_get_queue",
            "is_empty_legs", "get_vertices", "_gen_one_legs", "get_one_vertices", "check_dependency_one_leg",
            "_find_in_leg", "find", "is_included", "append", "remove", "replace", "is_empty", "get_center", "append_to_center", "get_lits", "lit", "get_pq", "append_delayed", "restore_delayed", "get_long_leg", "get_one_vertex", "set_center"]
    HEADER = """(* GENERATED by tools/py2coq.py (py2coq_queue.py) from src/paulie/classifier/morph_factory.py — do not edit *)
From PauLieRefine Require Import PySem.
From PauLie Require Import Pauli Collection.
Open Scope Z_scope.
Fixpoint insert_atL {A} (i : nat) (x : A) (l : list A) : list A := match i, l with O, _ => x :: l | S i', a :: t => a :: insert_atL i' x t | S _, [] => [x] end.
Fixpoint delete_atL {A} (i : nat) (l : list A) : list A := match l, i with [], _ => [] | _ :: t, O => t | a :: t, S i' => a :: delete_atL i' t end.
Definition norm_idx (len : nat) (i : Z) : Z := if i <? 0 then i + Z.of_nat len else i.
"""
    def __init__(self, repo):
        path = os.path.join(repo, "src", "paulie", "classifier", "morph_factory.py")
        tree = ast.parse(open(path, newline=None, encoding="utf-8-sig").read())
        cls = [n for n in tree.body if isinstance(n, ast.ClassDef) and n.name == "MorphFactory"]
        if len(cls) != 1: raise Unsupported("class MorphFactory not found")
        self.defs = {n.name: n for n in cls[0].body if isinstance(n, ast.FunctionDef)}
        self.fns = {}

    def run(self):
        out = [self.HEADER]
        for name in self.WANT:
            node = self.defs.get(name)
            if node is None: raise Unsupported("MorphFactory.%s not found" % name)
            f = QFn(self, node)
            out.append(f.emit()); out.append("")
            self.fns[name] = f
        return "\n".join(out)
