#!/usr/bin/env python3
"""Regenerates MANIFEST.json from the table below (kept in one place so the file is always valid)."""
import json, os
VERIF = os.path.dirname(os.path.dirname(os.path.abspath(__file__)))
ALL = ["C%02d" % i for i in range(1, 21)]
CLAIMED = {
 "C01": dict(
   text="Partial proof + exploration. Proved in Coq for every n: the judge (executable commutator closure) is sound, complete and total w.r.t. the inductive closure Cl (closure_strs_spec/total, via the orbit lemma); the classifier's census/name arithmetic (Model/Star.v) with the snapshot's census refuted and the repaired one proved for stars of single legs; closures of paths and of stars of single legs for every size; the algebra is the direct sum over the connected components of the anticommutation graph (C02_components_closure); the closure is the set of selection products and which selections occur depends only on the anticommutation pattern of the generators, so independent lists with the same pattern generate algebras of the same dimension on any numbers of qubits (C01_closure_by_selections, C01_graph_determines_size). Per run: every leg-length vector up to a bound through Morph/Classification vs the model, and the implementation's name vs the invariants (centre, per component |C|, |Z_C|, degree) of the verified closure on exhaustive small, structured and uniform collections, n<=6 quick / n<=8 thorough. The arithmetic core of classification.py (Morph.counts, get_properties, get_algebra_properties, Classification.get_dla_dim, get_algebra) is ALSO regenerated as Gallina from /repo's working tree on every run by the fail-closed translator tools/py2coq.py, and coq/Refine/ClassRefine.v re-proves that every generated function equals the hand model (gen_counts, gen_get_properties, gen_algprops, gen_dla_dim, gen_get_algebra, gen_dim_of_name).",
   note="Not proved: canonical types B1/B2/B3 generate sp/so/su of the stated size and equal invariants imply isomorphism (classification theorem arXiv:2408.00081). MorphFactory is validated, not modelled. No axioms.",
   technique="Coq-verified closure oracle as judge + code-shaped census model; differential exploration of the classifier + source-to-Gallina translation of the census/name/dimension arithmetic with refinement proofs",
   design="6 C01"),
 "C09": dict(
   text="Proof (name arithmetic) + exploration. Proved for every list of canonical graphs: the repaired get_dla_dim equals the dimension of the reported name (C09_name); the snapshot's formula is refuted on its model; the census dimension equals the number of strings of the commutator closure for each of the 56 canonical stars with a single leg and at most 10 vertices and EVERY independent generator list with that anticommutation graph, on any number of qubits (C09_census_is_closure_size: closure of the standard realisation enumerated in the kernel, carried to every realisation by the graph-determines-closure theorem). Per run: get_dla_dim vs |closure| from the verified oracle and vs the parsed name on the C01 input streams; synthetic Classification objects vs Model/Star.v. The arithmetic core of classification.py (Morph.counts, get_properties, get_algebra_properties, Classification.get_dla_dim, get_algebra) is ALSO regenerated as Gallina from /repo's working tree on every run by the fail-closed translator tools/py2coq.py, and coq/Refine/ClassRefine.v re-proves that every generated function equals the hand model (gen_counts, gen_get_properties, gen_algprops, gen_dla_dim, gen_get_algebra, gen_dim_of_name).",
   note="Beyond 10 canonical vertices, and for the link closure(canonical vertices) = closure(input) (C02), equality with |closure| is validated per input (n<=7 quick, <=8 thorough; in-place histories included). The census theorem is a bounded kernel computation (vm_compute, 12 s) lifted to all realisations by a proof. No axioms.",
   technique="Coq proof of dimension arithmetic + census = closure size for all canonical stars up to 10 vertices (kernel computation lifted by the graph-determines-closure theorem) + verified closure oracle as judge + source-to-Gallina translation of the census/name/dimension arithmetic with refinement proofs",
   design="6 C09"),
 "C02": dict(
   text="Translation-validation style: the reduction pipeline is not ported; its observable output (legs and dependents per canonical graph) is checked on every run by the Coq function reduction_ok, proved sound for every n (C02_validator_sound: true implies closure equality w.r.t. the inductive Cl, dependents in the closure, accounting, one graph per component, exact star shape). Closure laws justifying the pipeline's moves (contraction, added product, transport) proved for all n. Inputs: exhaustive small, structured, uniform collections n<=8 with closure; 9..16 qubits with shape/accounting and the F2-span necessary condition.",
   note="gen_components is proved to be the partition into connected components of the anticommutation graph, and the generated algebra to be the union of the algebras of the components (C02_components_spec, C02_components_closure). In-place histories (classify, edit, classify) are validated stage by stage. MorphFactory itself is validated per input, not verified. No axioms.",
   technique="Coq-verified validator of the reduction's output (soundness theorem) + closure-law theorems; per-input validation",
   category="proof",
   design="6 C02"),
 "C03": dict(
   text="Proof at the specification level + metamorphic exploration. Proved for every n: each listed re-presentation (reorder/duplicate, qubit permutation, per-site X/Y/Z relabelling, appended identities, contraction, added product) maps the commutator closure bijectively onto the closure of the transformed generators preserving product and symplectic form, so the true algebra is invariant; a differing answer of the classifier on (G, tau G) is therefore a violation with a concrete replay at any size. Per run: 7 transformations on collections n=2..16, 3 repeated calls, re-runs under PYTHONHASHSEED in {0,1,2,random} in fresh processes. The arithmetic core of classification.py (Morph.counts, get_properties, get_algebra_properties, Classification.get_dla_dim, get_algebra) is ALSO regenerated as Gallina from /repo's working tree on every run by the fail-closed translator tools/py2coq.py, and coq/Refine/ClassRefine.v re-proves that every generated function equals the hand model (gen_counts, gen_get_properties, gen_algprops, gen_dla_dim, gen_get_algebra, gen_dim_of_name).",
   note="The implementation's answers are compared with each other (normalised summand multisets); agreement with the truth is C01. For n<=6 the oracle confirms that the harness's transformations preserve the invariants. No axioms.",
   technique="Coq proofs of closure transport (homomorphism lemmas) + metamorphic differential runs + source-to-Gallina translation of the census/name/dimension arithmetic with refinement proofs",
   design="6 C03"),
 "C08": dict(
   text="Proof of the specification + exploration. Model/Member.v computes select_dependents / is_in / is_eq / get_space from the verified closure; C08_* theorems say these decide membership in the inductive closure Cl for every n. Per run the implementation's four queries on generated (G, X) (members, one-letter near misses, commuting strings, identity, duplicates, permuted generator lists) are compared with the model, n<=5 quick / n<=7 thorough.",
   note="The implementation's check-mode pipeline is not modelled. get_space is compared with closure minus identity. No axioms.",
   technique="Coq-verified membership specification over the closure oracle; differential exploration",
   design="6 C08"),
 "C10": dict(
   text="Proof over all histories + differential exploration. Model/Collection.v is the editing state machine (strings + cache) with Python's index, padding and duplicate semantics. Proved for every finite history of the repaired code: every answered query is answered from a permutation of the strings currently held (C10_fresh), queries are read-only and repeatable, all strings keep one common length (C10_uniform_length), append keeps every string; the snapshot's machine is refuted on three witnesses. Per run: random histories over all public edits and queries; after every step the implementation's strings = the model's (the tie and the 'no edit loses strings' clause) and at every query live answer = fresh collection's answer (the property itself); copies probed for independence; cached vertices compared before/after queries.",
   note="The classification function is abstract in the model (a query returns the list it answers from). Order-independence of the answers is C03. In-place mutation of a contained PauliString through its own API is outside the listed collection edits. No axioms.",
   technique="Coq invariant proof by induction over operation sequences + model-vs-implementation history replay",
   design="6 C10"),
 "C18": dict(
   text="Proof over all edit histories + differential exploration. Proved: after any sequence of set_substring/__setitem__/inc edits (incl. partially executed ones ending in IndexError) the three bit views are consistent (C18_views), hence the object equals the object freshly built from its text and every observation agrees (C18_observations); exact effect of a letter assignment; index(inc)=index+1; gen_all yields indices 0..4^n-1 in order for every n. Per run: edit histories with ~30 observations live vs fresh PauliString(str(P)) and text/even/odd/index vs the model; aliasing probes for tensor/expand/copy/substring; gen_all exact for n<=4 (6 thorough).",
   note="Aliasing (shared bitarrays) is covered by probes only; bitarray slicing is modelled by evens/odds. No axioms.",
   technique="Coq invariant over edit sequences (fold_left) + model-vs-implementation replay",
   design="6 C18"),
 "C17": dict(
   text="Proof + exhaustive/differential exploration. Model/Parser.v is the parser step for step over ASCII characters. Proved for all inputs: print/parse round trip; every sparse specification (dense letters, letters at any non-empty digit string position, optional size) parses to exactly its expansion or is rejected when a position does not increase / the size is too small; accepted texts use only the notation's alphabet (refuted for the snapshot's int()-based digits, proved for the repaired code); missing-number rejection; answer independent of fuel (termination); k-local expansion = distinct translates of the padded generators, NoDup, all of length n, in first-occurrence order. Per run: all texts of length <=4 over an 8-symbol alphabet, generated specs, inserted out-of-alphabet characters, random ASCII, non-ASCII digits; k-local lists; implementation vs model and vs the property's clauses.",
   note="Non-ASCII text is outside the model (only required to be rejected). Python int() on digit strings is modelled as decimal evaluation; CPython's digit-count limit is not modelled. No axioms.",
   technique="Coq proofs about a step-for-step parser model + exhaustive small-alphabet correspondence",
   design="6 C17"),
 "C05": dict(
   text="Proof of the validator's meaning + exhaustive exploration. The compiler's search is not modelled; every returned sequence is validated by compile_ok. Proved for every N: the string-level nested-commutator evaluation (documented orientation) decides the matrix-level nested commutator — a non-zero multiple of M(result) or the zero matrix (C05_nested_eval_matrix), hence compile_ok = true implies non-empty, over the universal set, non-zero and proportional to the target (C05_validator_sound). Per run: compile_target on all 4^N-1 targets and every k for N<=4 (N<=5 thorough), sampled up to N=7 (8).",
   note="Universal set membership uses Model/Compiler.v's universal (tied to construct_universal_set in C07). No axioms.",
   technique="Coq-verified validator (string-level evaluation = matrix-level commutator) over exhaustive target enumeration",
   design="6 C05"),
 "C06": dict(
   text="Proof (existence / impossibility) + exhaustive exploration. Proved for every n: each member of the commutator closure is the nested commutator of a non-empty sequence of generators (C06_nested_exists, from the orbit lemma), so a correct compiler can be total exactly on the closure; for every even k and every N every non-identity target has a sequence accepted by the validator (C06_compilable_even_k, from C07_even_k); for every odd k (3<=k<N) and EVERY N the target X_0X_1 admits no valid sequence (C06_refuted_odd_k, quadratic-form obstruction). Per run: outcome of compile_target for all targets N<=4 (<=5 thorough) and samples above, failing targets matched against the committed exact target sets per (N,k,raise site).",
   note="Termination is observed by a per-target watchdog, not proved (runtime behaviour the model cannot exhibit): partial. Known findings: 17 (N,k,site) entries with exact target sets + 4 site-level entries for N>=6. No axioms.",
   technique="Coq existence/impossibility theorems + exhaustive outcome enumeration against a recorded known-finding table",
   design="6 C06"),
 "C07": dict(
   text="Proof (all N, all k) + exploration. For all N,k: the model of construct_universal_set has 2N+1 strings of length N (C07_size), pairwise distinct for every N and k>=2 (C07_distinct); does NOT generate su(2^N) for any odd k and any N (C07_refuted_odd_k); for every even k>=2 and every N its commutator closure is exactly the 4^N-1 non-identity strings (C07_even_k: the left set on an even number of qubits generates everything, then one right qubit at a time, C07_one_more_qubit). Per run: construct_universal_set vs model for all k, N<=16 incl. the ValueError guard; closure size N<=6 (8 thorough); the classifier's name N<=10 (14).",
   note="The clause about the library's own classifier (reports su(2^N)) is compared per run (N<=10/14), not proved. Known finding: odd k. No axioms.",
   technique="Coq proofs (size, quadratic-form refutation) + kernel computation over the verified closure + exact set comparison",
   design="6 C07"),
 "C11": dict(
   text="Mostly differential exploration judged by a proved validator; said plainly: the proof technique contributes the judge, not the comparison. Proved: two reductions of one input that both pass reduction_ok generate the same closure (C11_two_valid_reductions_same_closure); RecordGraph.get_graph returns the closest earlier graph frame (C11_get_graph). Per run: classification without and with a recorder in one worker — summand multisets, dependents as sets, both reductions validated (closure part n<=6/7), last graph frame of each builder vs that component's vertices, last frame overall vs all canonical vertices.",
   note="Four known findings (drifted recording twin: attaches a dependent vertex; drops an independent generator; frames are per component; step IV does not terminate on a recorded witness). Inputs include two-local chains up to n=7 and a dense stream (long work queues). The recording builder is not modelled. No axioms.",
   technique="differential run of the two builders, judged by the Coq-verified reduction validator",
   category="proof",
   design="6 C11"),
 "C19": dict(
   text="Partial proof + exhaustive exploration of the stated range. Proved: the three table entries wrong at n=3 (C19_refuted_n3, kernel computation with the verified closure); for EVERY n the families over {I,X} (a0, b0, b1) generate exactly their own translates (C19_IX_families); for every n>=4 (a12, a17) resp. n>=3 (a18, a19, a21, a22) the families the table lists as su(2^n) generate exactly the 4^n-1 non-identity strings (C19_su_families: computed base case + one more qubit at a time, C19_full_from); their generator lists are compared with G_LIE on every run and from the bound on the theorem judges table and classifier at every n reached. Per run: all 28 families x n=3..6 (8 thorough): table entry and classifier answer vs invariants of the verified closure; n up to 12 (16): classifier vs table, all residues of n mod 8 and mod 6.",
   note="'For every n>=3' for the remaining 19 families is the two-local classification (Wiersema et al.), not proved. Known findings (a11,3), (a12,3), (a17,3). No axioms.",
   technique="Coq induction over the chain length for the su(2^n) families + Coq-verified closure oracle as judge over the enumerated range + kernel computation for the refutation",
   design="6 C19"),
 "C20": dict(
   text="Proof of closure/count preservation + exploration. Proved for every n: any sequence of the optimiser's moves (replace x by x.y for an anticommuting pair of current generators, i.e. an entry of list_connections) preserves the commutator closure and the number of generators, whatever the greedy/random choices (C20_contractions_preserve), and keeps an F2-independent list independent (C20_contractions_keep_independence; of limited use here: a list generating su(2^n) is never F2-independent). The lower bound is proved: no list of fewer than 2n+1 strings generates all non-identity strings for n>=2 (C20_at_least_2n_plus_1: an F2-independent list never generates its whole span). Termination of the retry loop and distinctness of the output are explored: su(2^n) inputs (two-local families, even-k universal sets) at n=3..5 (6) under several random seeds with a watchdog, output judged by the verified closure.",
   note="Termination and distinctness are observed, not proved (partial). The sequence of contractions chosen by the implementation is not extracted; only its result is judged. No axioms.",
   technique="Coq invariance proof over arbitrary contraction sequences + seeded exploration judged by the closure oracle",
   design="6 C20"),
 "C14": dict(
   text="Proof + exhaustive/differential exploration. Proved for every n: the commutant is exactly the length-n strings commuting with every member, each once; graph edges are exactly the anticommuting pairs (i<j) labelled by their product, with the optional product-in-filter condition; the commutator-graph filter is the property's 'some member g anticommutes with P and P.g = Q'; connected components (generic algorithm, any adjacency) form a partition into internally connected classes with no edge from an earlier to a later class; pair counts. Per run: every multiset of <=2 generators at n<=2, structured/uniform n<=4 (5), mixed lengths: vertex lists, ordered edges, labels, partitions, counts, fraction, commutator graph and its components, non-commuting charges vs the model.",
   note="networkx components are replaced by a verified components function and compared as partitions; all_strs is the index-ordered enumeration (equal to C18's gen_all for n<=5 by computation). No axioms.",
   technique="Coq specification proofs (filters, pairs, generic connected components) + exact comparison of graphs",
   design="6 C14"),
 "C15": dict(
   text="Proof + differential exploration. Model/Orbit.v's bfs is the deque/visited loop of average_otoc. Proved for every n: the visited set is exactly the orbit, each element once (C15_bfs_is_orbit); OTOC symmetric in V,W by double counting (C15_symmetric); a<=s so OTOC in [-1,1]; V fixed by G gives orbit {V}; orbits depend only on the generated algebra (orbit lemma); the level-by-level BFS of graph complexity labels every vertex of the orbit with its shortest-path distance from V, each vertex once, so the returned (sum,size) are the sum of distances and the orbit size (C15_complexity). Per run: (G,V,W) n<=4 (6): floats vs exact rationals 1-2a/s, swapped arguments, re-presented generating sets, graph complexity vs level-BFS mean distance, fourpoint vs its definition.",
   note="Fuel exhaustion (None) is excluded by the statements and never observed. The model's level BFS (proved) is compared with the implementation's networkx-based value per run. No axioms.",
   technique="Coq BFS invariant proof + double-counting theorem; exact rational comparison with the implementation",
   design="6 C15"),
 "C12": dict(
   text="Proof + differential exploration. Model/Linear.v is PauliStringLinear over Gaussian-integer coefficients (dictionary sums in insertion order, zero terms dropped). Proved for every n and all term lists: the matrix of a@b is the matrix product, of a+b the sum, of c*a the scaled matrix, of a.h the conjugate transpose; simplify keeps the matrix; trace = matrix trace; is_zero exactly when the matrix vanishes and matrices equal exactly when collected coefficients agree, and the model of __eq__ (simplify both, look every term up in the other side) decides exactly that (C12_eq_iff) (linear independence of Pauli matrices over Z[i], proved from trace orthogonality). The snapshot is refuted on three witnesses. Per run: random term lists (repeats, zeros, cancellations, empty, aliased operands) n<=4: results as term multisets vs the model, numpy matrices for n<=3, str() parsed back.",
   note="Float rounding, the 1e-12/isclose tolerances and :.8g formatting are not modelled (partial w.r.t. floats). No axioms.",
   technique="Coq proofs of matrix semantics incl. linear independence + exact term-level correspondence",
   design="6 C12"),
 "C13": dict(
   text="Proof + exact differential exploration. Model/Decomp.v: Pauli-order vectorisation, the butterfly (the source's strided in-place loops and the block recursions, proved equal for every n: C13_iterative, C13_iterative_diag), diagonal variant, index conventions, weight table, shape validation; integer numerators (2^n x the source's vector). Proved for every n and every matrix over Z[i]: the entry a string looks up is tr(M(P)A) (C13_coeff); the weights reconstruct the matrix (C13_reconstruct); diagonal variant = general one on diagonal matrices, X/Y strings weigh 0; weight table = number of non-identity letters at the string's index; accepted shapes. Per run: matrices with Gaussian-integer entries (dense, sparse, Hermitian, Pauli, diagonal) n<=4 (6): 2^n*w exactly vs the model; for n<=3 every string as key: reconstruction and trace formula on the implementation's own matrices; weight tables; entropy vs defining sum; rejection table.",
   note="log2 and float rounding in entropy/influence not modelled (partial w.r.t. floats). No axioms.",
   technique="Coq induction over the first qubit (block recursion) + exact dyadic comparison with the implementation",
   design="6 C13"),
 "C16": dict(
   text="Proof (every clause, exact arithmetic) + dense exploration. Model/Quadratic.v: Q_{C,L} over components of the commutator graph and commutants, the twirl with exact rational coefficients. Proved for every n: symmetries from different components or different linear symmetries have disjoint Pauli supports and are trace-orthogonal (C16_orthogonal_partial, from trace orthogonality of Pauli matrices); every member of the model's full basis commutes with g(x)1+1(x)g for every member g (C16_invariant: pairing S<->g.S inside a commutator-graph component, letterwise phase identities, linear independence of Pauli matrices). any two members of the basis are trace-orthogonal, each has squared norm |Q|4^n (C16_pairwise_orthogonal, C16_norm); the twirl fixes every symmetry exactly, <Q,twirl m>=<Q,m> for every symmetry (hence idempotent with orthogonal residual), its output commutes with every g(x)1+1(x)g (C16_twirl_fixes/_projects/_idempotent/_invariant). Completeness is proved too (C16_complete: every combination commuting with every g(x)1+1(x)g is fixed by the twirl, coefficient by coefficient, hence a combination of the symmetries; C16_invariant_orthogonal_zero), so the symmetries are a basis of the commutant and their number is its dimension. Per run, on collections of <=2 generators at n<=2 (n=3 thorough): basis as term dictionaries vs the model; invariance under g(x)1+1(x)g, orthogonality and non-vanishing exactly on dense matrices; count vs commutant dimension by a rank computation; twirl coefficients vs exact rationals; linearity, idempotence, fixing the basis, invariant output, orthogonal residual (dense, 1e-9).",
   note="Every clause of the property is proved over exact arithmetic; the source normalises with a float square root (not modelled; compared per run with tolerance 1e-9). No axioms.",
   technique="Coq proofs (invariance, orthogonality, norms, projector laws, completeness) + exact term-level and dense per-input correspondence",
   design="6 C16"),
 "C04": dict(
   text="Proof: Coq theorems C04_product/commute/adjoint/conj/reject hold for every n and every pair of strings, about a bit-level model of PauliString.sign/commutes_with/multiply/adjoint_map/complex_conj and the Kronecker-product matrices over Z[i]. The model is tied to /repo on every run by a correspondence run: all 16^n pairs n<=3 (n<=4 thorough) plus random pairs up to n=64 and all length mismatches, implementation vs extracted model, and numpy matrices multiplied out for n<=3.",
   note="Trusted: Coq kernel, extraction (ExtrOcamlBasic), OCaml driver, Python harness; numpy kron/@ taken as the matrices. No axioms (Print Assumptions: closed).",
   technique="Coq proof by induction on n (tensor factorisation) + exhaustive/random correspondence against extracted model",
   design="6 C04"),
}
NOT_YET = "check not built yet (work in progress in this development; see DESIGN.md section 6 for the plan)"

def main():
    checks = []
    for pid in ALL:
        if pid in CLAIMED:
            c = CLAIMED[pid]
            checks.append({
                "property_id": pid,
                "quick_cmd": "./check %s --tier quick" % pid,
                "thorough_cmd": "./check %s --tier thorough" % pid,
                "evidence_file": "evidence/%s.json" % pid,
                "replay_cmd_template": "./check %s --replay {path}" % pid,
                "engine": "coq-oracle-harness",
                "level_claimed": {"category": c.get("category", "proof"), "text": c["text"], "design_ref": "DESIGN.md section " + c["design"]},
                "level_note": c["note"],
                "technique": c["technique"],
            })
    man = {
        "version": 1,
        "setup_cmd": "cd coq && coq_makefile -f _CoqProject -o Makefile && make -j16 && cd ../oracle && make",
        "hooks": {"guard": "PAULIE_VERIF", "enable": "no source hooks: checks import /repo/src directly; attribution uses run-time wrapping only",
                  "baseline_off_cmd": "cd /repo && /venv/bin/python -m pytest -ra -q -p no:cacheprovider --timeout=900 --continue-on-collection-errors",
                  "source_commits": [], "add_only": True},
        "engines": [{"name": "coq-oracle-harness", "path": "coq/ oracle/ harness/", "serves_properties": sorted(CLAIMED),
                     "kind_free_text": "Coq 8.16 development (model + theorems), extracted OCaml oracle, Python correspondence harness"}],
        "checks": checks,
        "not_applicable": [{"property_id": p, "reason": NOT_YET} for p in ALL if p not in CLAIMED],
        "notes": "See DESIGN.md. known_findings.txt lists recorded defects; seeded/ holds the seeded breaking changes used to test the checks.",
    }
    with open(os.path.join(VERIF, "MANIFEST.json"), "w") as f:
        json.dump(man, f, indent=1)
    print("MANIFEST.json: %d checks" % len(checks))

if __name__ == "__main__":
    main()
