#!/bin/bash
# tools/try_tie.sh <kind> <GenName> <seed_dir>... : does the translation tie alone notice a stored seeded change?
# (scratch worktree, removed afterwards; prints one line per seed: translator-stops | refinement-breaks | unnoticed)
kind=$1; gen=$2; shift 2
for sd in "$@"; do
  sd=$(readlink -f $sd)
  wt=/tmp/tie_wt_$$; g=/tmp/tie_gen_$$
  git -C /repo worktree remove --force $wt >/dev/null 2>&1; rm -rf $g; mkdir -p $g
  git -C /repo worktree add -q --detach $wt HEAD || exit 2
  ( cd $wt && git apply $sd/patch.diff ) || { echo "$(basename $sd): patch does not apply"; git -C /repo worktree remove --force $wt; continue; }
  if ! /venv/bin/python /verif/tools/py2coq.py $wt $g/${gen}Gen.v $kind > $g/tr.log 2>&1; then
    echo "$(basename $sd): translator-stops ($(tail -1 $g/tr.log | cut -c1-160))"
  else
    q="-Q Model PauLie -Q Theory PauLie -Q Refine PauLieRefine -Q $g PauLieGen -w -notation-overridden,-deprecated"
    if ( cd /verif/coq && timeout 300 coqc $q $g/${gen}Gen.v > $g/c.log 2>&1 && timeout 600 coqc $q -o $g/${gen}Refine.vo Refine/${gen}Refine.v >> $g/c.log 2>&1 ); then
      echo "$(basename $sd): unnoticed by the tie"
    else
      echo "$(basename $sd): refinement-breaks ($(grep -m1 -A2 Error $g/c.log | tr '\n' ' ' | cut -c1-160))"
    fi
  fi
  git -C /repo worktree remove --force $wt; rm -rf $g
done
