#!/usr/bin/env python3
"""binary-safe exact replacement: bedit.py FILE OLD NEW  (OLD/NEW use \\n for the file's own line ending)"""
import sys
f, old, new = sys.argv[1:4]
b = open(f, "rb").read()
eol = b"\r\n" if b"\r\n" in b else b"\n"
o = old.encode().replace(b"\n", eol); n = new.encode().replace(b"\n", eol)
assert b.count(o) == 1, "pattern occurs %d times" % b.count(o)
open(f, "wb").write(b.replace(o, n))
