#!/bin/bash
# tools/coqchk.sh : re-check every compiled property file, the refinement files against a freshly generated translation of
# /repo's source, and everything they depend on, with Coq's independent checker; list the axioms the whole development relies on;
# writes coqchk_report.txt
cd "$(dirname "$0")/../coq"
gen=$(mktemp -d /tmp/coqchk_gen.XXXX)
q="-Q Model PauLie -Q Theory PauLie -Q Props PauLie -Q Refine PauLieRefine -Q $gen PauLieGen"
for k in classification:Class compiler:Comp pstring:PS collection:Coll parser:Parser table:Table apps:App linear:Lin optimiser:Opt search:Search factory:Factory numpy:Numpy queue:Queue; do
  /venv/bin/python ../tools/py2coq.py /repo $gen/${k#*:}Gen.v ${k%%:*} > /dev/null 2>&1 || echo "translator failed for $k"
  coqc $q -w -notation-overridden,-deprecated $gen/${k#*:}Gen.v > /dev/null 2>&1
  coqc $q -w -notation-overridden,-deprecated -o $gen/${k#*:}Refine.vo Refine/${k#*:}Refine.v > /dev/null 2>&1 || echo "refinement ${k#*:}Refine.v failed"
done
mods=$(for i in $(seq -w 1 20); do echo PauLie.C$i; done)
refs="PauLieGen.ClassRefine PauLieGen.CompRefine PauLieGen.PSRefine PauLieGen.CollRefine PauLieGen.ParserRefine PauLieGen.TableRefine PauLieGen.AppRefine PauLieGen.LinRefine PauLieGen.OptRefine PauLieGen.SearchRefine PauLieGen.FactoryRefine PauLieGen.NumpyRefine PauLieGen.QueueRefine"
( time timeout 3600 coqchk -silent -o $q $mods $refs ) > ../coqchk_report.txt 2>&1
echo "exit $?" >> ../coqchk_report.txt
rm -rf $gen
tail -25 ../coqchk_report.txt
