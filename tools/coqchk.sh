#!/bin/bash
# tools/coqchk.sh : re-check every compiled property file (and everything it depends on) with Coq's independent
# checker and list the axioms the whole development relies on; writes coqchk_report.txt
cd "$(dirname "$0")/../coq"
mods=$(for i in $(seq -w 1 20); do echo PauLie.C$i; done)
( time timeout 3600 coqchk -silent -o -Q Model PauLie -Q Theory PauLie -Q Props PauLie $mods ) > ../coqchk_report.txt 2>&1
echo "exit $?" >> ../coqchk_report.txt
tail -25 ../coqchk_report.txt
