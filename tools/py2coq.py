#!/usr/bin/env python3
"""py2coq.py <repo> <out.v> — fail-closed translator of the arithmetic core of src/paulie/classifier/classification.py
(Morph.is_empty, is_empty_legs, counts, get_properties, get_algebra_properties; Classification.get_dla_dim, get_algebra)
from the Python AST into Gallina.  The generated file is re-created from /repo's working tree on every run and
coq/Refine/ClassRefine.v proves that every generated function equals the hand-written model (Model/Star.v), so the
theorems about the model are re-checked against what the source says now.

Semantics of the generated code (coq/Refine/PySem.v):
  * Python ints are Z; `len(x)` is Z.of_nat (length x); `//` is Z.div (floor, as in Python), guarded against a zero divisor;
    `a ** b` is Z.pow guarded by 0 <= b (a negative exponent leaves the integers: outcome NonInt, nothing further is claimed).
  * a function body is a state transformer over the tuple of its local variables, result type `outcome`:
    Next s (fell through) | Cont s (continue) | Ret r | RetNone | Raised e | NonInt.
  * `for x in <list>` is fold_left in list order; `enumerate` pairs every element with its index.
  * `self.morphs` is a set in the source: its iteration order is unspecified; it is modelled as a list (the translated
    functions are sums / per-key accumulations, see ClassRefine.v for the order-independence statement).
  * str values are token lists (literal pieces and integers of f-strings): "" is []; two f-strings are equal iff their
    token lists are; a dict is an association list in insertion order.
Anything outside this fragment makes the translator stop with an error naming the node and the line; nothing is skipped."""
import ast, sys, os

class Unsupported(Exception):
    pass

def bad(node, why):
    raise Unsupported("line %s: %s (%s)" % (getattr(node, "lineno", "?"), why, type(node).__name__))

Z, B, STR = "Z", "bool", "pystr"
def T_enum(n): return ("enum", n)
def T_list(t): return ("list", t)
def T_tuple(ts): return ("tuple", tuple(ts))
def T_dict(k, v): return ("dict", k, v)
PS, PL = "PauliString", "label"
OBJ, BITS, GI = "obj", "bits", "gi"
COLL = "coll"
STRT = "pytext"
QT = "Q"                # exact rational (numerator, denominator): Python's true division of two ints (floats are not modelled)
CL = ("collection",)    # a PauliStringCollection read through its public protocol: the list of its strings
SETT = ("pset",)        # a set of PauliStrings: a duplicate-free list
def T_opt(t): return ("option", t)
MORPH = ("morph",)      # a Morph object = its legs : list (list V)

def coq_type(t):
    if t == Z: return "Z"
    if t == B: return "bool"
    if t == STR: return "pystr"
    if t == "V": return "V"
    if t == PS: return "pstr"
    if t == PL: return "pl"
    if t == OBJ: return "obj"
    if t == COLL: return "coll"
    if t == STRT: return "(list ascii)"
    if t == QT: return "(Z * Z)"
    if t in (CL, SETT): return "(list pstr)"
    if isinstance(t, tuple) and t[0] == "option": return "(option %s)" % coq_type(t[1])
    if t == BITS: return "(list bool)"
    if t == GI: return "gi"
    if t == MORPH: return "(list (list V))"
    if t[0] == "enum": return t[1]
    if t[0] == "list": return "(list %s)" % coq_type(t[1])
    if t[0] == "tuple": return "(" + " * ".join(coq_type(x) for x in t[1]) + ")"
    if t[0] == "dict": return "(list (%s * %s))" % (coq_type(t[1]), coq_type(t[2]))
    raise Unsupported("no Coq type for %r" % (t,))

def default(t, enums):
    if t == Z: return "0"
    if t == B: return "false"
    if t == STR: return "[]"
    if t == PS: return "[]"
    if t == BITS: return "[]"
    if t == OBJ: return "(fresh_bits [])"
    if t == COLL: return "{| gens := []; cache := None |}"
    if t == STRT: return "[]"
    if t == QT: return "(0, 1)"
    if t in (CL, SETT): return "[]"
    if isinstance(t, tuple) and t[0] == "option": return "None"
    if t == GI: return "(0, 0)"
    if t == MORPH: return "[]"
    if t[0] == "enum": return "%s_%s" % (t[1], enums[t[1]][0])
    if t[0] in ("list", "dict"): return "[]"
    if t[0] == "tuple": return "(" + ", ".join(default(x, enums) for x in t[1]) + ")"
    raise Unsupported("no default for %r" % (t,))

def tup(xs):
    xs = list(xs)
    if not xs: return "tt"
    if len(xs) == 1: return xs[0]
    return "(" + ", ".join(xs) + ")"

def pat(xs):
    xs = list(xs)
    if not xs: return "_"
    if len(xs) == 1: return xs[0]
    return "'(" + ", ".join(xs) + ")"


class Fn:
    """one translated function"""
    def __init__(self, tr, cls, node):
        self.tr, self.cls, self.node = tr, cls, node
        self.name = node.name
        self.coq = "py_%s_%s" % (cls, node.name)
        self.vars = {}          # local name -> type, in order of first assignment
        self.nested = {}        # nested pure functions: name -> (params, coq body, ret type)
        self.ret = None
        self.self_t = MORPH if cls == "Morph" else T_list(MORPH)

    # ---------- expressions: -> (coq, type, guards) ; guards = list of (coq bool that must hold, outcome otherwise) ----------
    def expr(self, e, env):
        if isinstance(e, ast.Constant):
            if isinstance(e.value, bool): return ("true" if e.value else "false"), B, []
            if isinstance(e.value, int): return ("(%d)" % e.value), Z, []
            if isinstance(e.value, str): return ("[]" if e.value == "" else "[TS \"%s\"%%string]" % self.lit(e, e.value)), STR, []
            bad(e, "constant %r" % (e.value,))
        if isinstance(e, ast.Name):
            if e.id in getattr(self, "params", {}) and (e.id not in env or e.id not in self.vars):
                return "v_" + e.id, self.params[e.id], []
            if e.id not in env: bad(e, "name %s is not definitely assigned here" % e.id)
            return "v_" + e.id, self.vars[e.id], []
        if isinstance(e, ast.Attribute):
            if isinstance(e.value, ast.Name) and e.value.id in self.tr.enums:
                if e.attr not in self.tr.enums[e.value.id]: bad(e, "unknown member %s.%s" % (e.value.id, e.attr))
                return "%s_%s" % (e.value.id, e.attr), T_enum(e.value.id), []
            if isinstance(e.value, ast.Name) and e.value.id == "self" and e.attr == "legs" and self.cls == "Morph":
                return "self", T_list(T_list("V")), []
            if isinstance(e.value, ast.Name) and e.value.id == "self" and e.attr == "morphs" and self.cls == "Classification":
                return "self", T_list(MORPH), []
            bad(e, "attribute")
        if isinstance(e, ast.Call):
            x = self.expr_extra(e, env)
            if x is not None:
                return x
            if isinstance(e.func, ast.Name) and e.func.id == "len" and len(e.args) == 1 and not e.keywords:
                c, t, g = self.expr(e.args[0], env)
                if t[0] != "list" and t != MORPH: bad(e, "len of a non-list")
                return "(Z.of_nat (length %s))" % c, Z, g
            if isinstance(e.func, ast.Name) and e.func.id in self.nested and not e.keywords:
                ps, _, rt = self.nested[e.func.id]
                if len(ps) != len(e.args): bad(e, "arity")
                cs, gs = [], []
                for a in e.args:
                    c, t, g = self.expr(a, env)
                    if t != Z: bad(a, "nested function argument must be int")
                    cs.append(c); gs += g
                return "(f_%s %s)" % (e.func.id, " ".join(cs)), rt, gs
            # d.get(k, default) on a dictionary
            if isinstance(e.func, ast.Attribute) and e.func.attr == "get" and isinstance(e.func.value, ast.Name) and e.func.value.id in env \
               and self.vars[e.func.value.id][0] == "dict" and len(e.args) == 2 and not e.keywords:
                d = e.func.value.id
                kc, kt, kg = self.expr(e.args[0], env)
                dc, dt, dg = self.expr(e.args[1], env)
                if (kt, dt) != self.vars[d][1:]: bad(e, "dict.get types")
                return "(match dict_get v_%s %s with Some got_ => got_ | None => %s end)" % (d, kc, dc), dt, kg + dg
            # call of a pure-expression method of the same object
            m = self.method_call(e)
            if m is not None:
                obj, fn = m
                if fn.pure:
                    return "(%s %s)" % (fn.coq, obj), fn.ret, []
                bad(e, "call of %s inside an expression" % fn.name)
            bad(e, "call")
        if isinstance(e, ast.BinOp):
            x = self.expr_extra(e, env)
            if x is not None:
                return x
            a, ta, ga = self.expr(e.left, env)
            b, tb, gb = self.expr(e.right, env)
            if ta == Z and tb == Z:
                if isinstance(e.op, ast.Add): return "(%s + %s)" % (a, b), Z, ga + gb
                if isinstance(e.op, ast.Sub): return "(%s - %s)" % (a, b), Z, ga + gb
                if isinstance(e.op, ast.Mult): return "(%s * %s)" % (a, b), Z, ga + gb
                if isinstance(e.op, ast.FloorDiv):
                    g = [] if (isinstance(e.right, ast.Constant) and e.right.value != 0) else [("(negb (%s =? 0))" % b, "Raised EZeroDivision")]
                    return "(%s / %s)" % (a, b), Z, ga + gb + g
                if isinstance(e.op, ast.Pow):
                    g = [] if (isinstance(e.right, ast.Constant) and e.right.value >= 0) else [("(0 <=? %s)" % b, "NonInt")]
                    return "(%s ^ %s)" % (a, b), Z, ga + gb + g
            bad(e, "binary operator on %r, %r" % (ta, tb))
        if isinstance(e, ast.Compare):
            if len(e.ops) == 2 and all(isinstance(o, (ast.Lt, ast.LtE)) for o in e.ops):
                parts = [self.expr(v, env) for v in [e.left] + e.comparators]
                if any(t != Z for _, t, _ in parts) or any(g for _, _, g in parts): bad(e, "chained comparison of non-int or guarded operands")
                sym = lambda o: "<?" if isinstance(o, ast.Lt) else "<=?"
                return "((%s %s %s) && (%s %s %s))" % (parts[0][0], sym(e.ops[0]), parts[1][0], parts[1][0], sym(e.ops[1]), parts[2][0]), B, []
            if len(e.ops) != 1: bad(e, "chained comparison")
            a, ta, ga = self.expr(e.left, env)
            b, tb, gb = self.expr(e.comparators[0], env)
            op = e.ops[0]
            if ta != tb: bad(e, "comparison of %r with %r" % (ta, tb))
            if ta == Z:
                tbl = {ast.Eq: "(%s =? %s)", ast.NotEq: "(negb (%s =? %s))", ast.Lt: "(%s <? %s)", ast.LtE: "(%s <=? %s)", ast.Gt: "(%s >? %s)", ast.GtE: "(%s >=? %s)"}
                if type(op) in tbl: return tbl[type(op)] % (a, b), B, ga + gb
            if ta[0] == "enum" and isinstance(op, (ast.Eq, ast.NotEq)):
                c = "(%s_eqb %s %s)" % (ta[1], a, b)
                return (c if isinstance(op, ast.Eq) else "(negb %s)" % c), B, ga + gb
            bad(e, "comparison")
        if isinstance(e, ast.BoolOp):
            parts = [self.expr(v, env) for v in e.values]
            if any(t != B for _, t, _ in parts): bad(e, "and/or of non-bool")
            op = " && " if isinstance(e.op, ast.And) else " || "
            # short circuit: the guards of a later operand matter only when the earlier operands let evaluation reach it
            gs = list(parts[0][2])
            for i_ in range(1, len(parts)):
                reach = "(" + op.join(c for c, _, _ in parts[:i_]) + ")"
                skip = ("(negb %s)" % reach) if isinstance(e.op, ast.And) else reach
                gs += [("(%s || %s)" % (skip, gb), o) for gb, o in parts[i_][2]]
            return "(" + op.join(c for c, _, _ in parts) + ")", B, gs
        if isinstance(e, ast.UnaryOp) and isinstance(e.op, ast.Not):
            c, t, g = self.expr(e.operand, env)
            if t != B: bad(e, "not of non-bool")
            return "(negb %s)" % c, B, g
        if isinstance(e, ast.IfExp):
            c, tc, gc = self.expr(e.test, env)
            a, ta, ga = self.expr(e.body, env)
            b, tb, gb = self.expr(e.orelse, env)
            if tc != B or ta != tb: bad(e, "conditional expression types")
            g = gc + [("(negb %s || %s)" % (c, x), o) for x, o in ga] + [("(%s || %s)" % (c, x), o) for x, o in gb]
            return "(if %s then %s else %s)" % (c, a, b), ta, g
        if isinstance(e, ast.Tuple):
            parts = [self.expr(v, env) for v in e.elts]
            return tup(c for c, _, _ in parts), T_tuple([t for _, t, _ in parts]), [g for _, _, gs in parts for g in gs]
        if isinstance(e, ast.JoinedStr):
            toks, gs = [], []
            for v in e.values:
                if isinstance(v, ast.Constant) and isinstance(v.value, str):
                    toks.append("TS \"%s\"%%string" % self.lit(v, v.value))
                elif isinstance(v, ast.FormattedValue) and v.conversion == -1 and v.format_spec is None:
                    c, t, g = self.expr(v.value, env)
                    if t != Z: bad(v, "formatted value must be int")
                    toks.append("TZ %s" % c); gs += g
                else:
                    bad(v, "f-string piece")
            return "[" + "; ".join(toks) + "]", STR, gs
        x = self.expr_extra(e, env)
        if x is not None:
            return x
        bad(e, "expression")

    def expr_extra(self, e, env):
        return None

    def iterable(self, it, env):
        if isinstance(it, ast.Call) and isinstance(it.func, ast.Name) and it.func.id == "reversed" and len(it.args) == 1 and not it.keywords:
            c, t, g = self.iterable(it.args[0], env)
            return "(rev %s)" % c, t, g
        if isinstance(it, ast.Call) and isinstance(it.func, ast.Name) and it.func.id == "range" and len(it.args) == 2 and not it.keywords \
           and isinstance(it.args[0], ast.Constant) and it.args[0].value == 0:
            it = ast.copy_location(ast.Call(func=it.func, args=[it.args[1]], keywords=[]), it)
        if isinstance(it, ast.Call) and isinstance(it.func, ast.Name) and it.func.id == "range" and len(it.args) == 1 and not it.keywords:
            c, t, g = self.expr(it.args[0], env)
            if t != Z: bad(it, "range of non-int")
            return "(pyrange %s)" % c, T_list(Z), g
        return self.expr(it, env)

    def lit(self, node, s):
        if any(ch in s for ch in '"\\\n') or not s.isascii(): bad(node, "string literal")
        return s

    def method_call(self, e):
        """self.m() / <morph var>.m() -> (coq object, Fn) or None"""
        if isinstance(e, ast.Call) and isinstance(e.func, ast.Attribute) and isinstance(e.func.value, ast.Name) and not e.args and not e.keywords:
            obj = e.func.value.id
            if obj == "self":
                fn = self.tr.fns.get((self.cls, e.func.attr))
                if fn is None: bad(e, "method %s.%s is not translated" % (self.cls, e.func.attr))
                return "self", fn
            if obj in self.vars and self.vars[obj] == MORPH:
                fn = self.tr.fns.get(("Morph", e.func.attr))
                if fn is None: bad(e, "method Morph.%s is not translated" % e.func.attr)
                return "v_" + obj, fn
        return None

    # ---------- variable collection (types by first assignment) ----------
    def declare(self, name, t, node):
        if name in self.vars:
            if self.vars[name] != t: bad(node, "variable %s changes type %r -> %r" % (name, self.vars[name], t))
        else:
            self.vars[name] = t

    def guard(self, gs, body):
        for g, o in reversed(gs):
            body = "(if %s then %s else %s)" % (g, body, self.raise_text(o))
        return body

    def raise_text(self, o):
        return o

    def state(self):
        return ["v_" + v for v in self.vars]
    def state_type(self):
        return "(" + " * ".join(coq_type(t) for t in self.vars.values()) + ")" if self.vars else "unit"

    # ---------- statements ----------
    def block(self, stmts, env, k):
        """coq term of type outcome for stmts followed by continuation text k (a function of the state, or None = Next)"""
        if not stmts:
            return "Next %s" % tup(self.state()) if k is None else k
        s, rest = stmts[0], stmts[1:]
        if isinstance(s, ast.Expr) and isinstance(s.value, ast.Constant) and isinstance(s.value.value, str):
            return self.block(rest, env, k)           # docstring
        if isinstance(s, ast.FunctionDef):
            return self.block(rest, env, k)           # nested pure function, handled in prepare()
        if isinstance(s, ast.AnnAssign) and isinstance(s.target, ast.Name) and s.value is not None:
            s = ast.copy_location(ast.Assign(targets=[s.target], value=s.value), s)
        if isinstance(s, ast.Assign):
            if len(s.targets) != 1: bad(s, "multiple targets")
            tg = s.targets[0]
            if isinstance(tg, ast.Name):
                if isinstance(s.value, ast.Dict) and not s.value.keys:
                    t = self.dict_type(tg.id, s)
                    self.declare(tg.id, t, s)
                    return "(let v_%s : %s := [] in %s)" % (tg.id, coq_type(t), self.block(rest, env | {tg.id}, k))
                m = self.method_call(s.value)
                if m is not None and not m[1].pure:
                    obj, fn = m
                    self.declare(tg.id, fn.ret, s)
                    return "(bindr (%s %s) (fun v_%s => %s))" % (fn.coq, obj, tg.id, self.block(rest, env | {tg.id}, k))
                c, t, g = self.expr(s.value, env)
                self.declare(tg.id, t, s)
                return self.guard(g, "(let v_%s := %s in %s)" % (tg.id, c, self.block(rest, env | {tg.id}, k)))
            if isinstance(tg, ast.Tuple) and all(isinstance(x, ast.Name) for x in tg.elts):
                names = [x.id for x in tg.elts]
                m = self.method_call(s.value)
                if m is not None and not m[1].pure:
                    obj, fn = m
                    if fn.ret[0] != "tuple" or len(fn.ret[1]) != len(names): bad(s, "unpacking arity")
                    for n_, t_ in zip(names, fn.ret[1]): self.declare(n_, t_, s)
                    return "(bindr (%s %s) (fun %s => %s))" % (fn.coq, obj, pat("v_" + n_ for n_ in names), self.block(rest, env | set(names), k))
                c, t, g = self.expr(s.value, env)
                if t[0] != "tuple" or len(t[1]) != len(names): bad(s, "unpacking arity")
                for n_, t_ in zip(names, t[1]): self.declare(n_, t_, s)
                return self.guard(g, "(let %s := %s in %s)" % (pat("v_" + n_ for n_ in names), c, self.block(rest, env | set(names), k)))
            if isinstance(tg, ast.Subscript) and isinstance(tg.value, ast.Name) and tg.value.id in env and self.vars[tg.value.id][0] == "dict":
                d = tg.value.id
                kc, kt, kg = self.expr(tg.slice, env)
                c, t, g = self.expr(s.value, env)
                if (kt, t) != self.vars[d][1:]: bad(s, "dict entry types")
                return self.guard(kg + g, "(let v_%s := dict_set v_%s %s %s in %s)" % (d, d, kc, c, self.block(rest, env, k)))
            bad(s, "assignment target")
        if isinstance(s, ast.AugAssign) and isinstance(s.op, ast.Add):
            if isinstance(s.target, ast.Name):
                x = s.target.id
                if x not in env or self.vars[x] != Z: bad(s, "+= on %s" % x)
                c, t, g = self.expr(s.value, env)
                if t != Z: bad(s, "+= of non-int")
                return self.guard(g, "(let v_%s := (v_%s + %s) in %s)" % (x, x, c, self.block(rest, env, k)))
            tg = s.target
            if isinstance(tg, ast.Subscript) and isinstance(tg.value, ast.Name) and tg.value.id in env and self.vars[tg.value.id][0] == "dict":
                d = tg.value.id
                kc, kt, kg = self.expr(tg.slice, env)
                c, t, g = self.expr(s.value, env)
                if (kt, t) != self.vars[d][1:] or t != Z: bad(s, "dict entry types")
                # d[k] += e : d[k] is read first (KeyError when absent), then e is evaluated, then the entry is stored
                return self.guard(kg, "(match dict_get v_%s %s with None => Raised EKey | Some cur_ => %s end)" % (
                    d, kc, self.guard(g, "(let v_%s := dict_set v_%s %s (cur_ + %s) in %s)" % (d, d, kc, c, self.block(rest, env, k)))))
            bad(s, "augmented assignment")
        if isinstance(s, ast.If) and self.method_call(s.test) is not None and not self.method_call(s.test)[1].pure:
            obj, fn = self.method_call(s.test)
            if fn.ret != B: bad(s, "if on a non-bool call")
            a = self.block(s.body, env, None)
            b = self.block(s.orelse, env, None)
            cont = self.block(rest, self.after_if(s, env), k)
            return "(bindr (%s %s) (fun c_ => seqo (if c_ then %s else %s) (fun %s => %s)))" % (fn.coq, obj, a, b, pat(self.state()), cont)
        if isinstance(s, ast.If):
            c, t, g = self.test(s.test, env)
            if t != B: bad(s, "if on non-bool")
            a = self.block(s.body, env, None)
            b = self.block(s.orelse, env, None)
            cont = self.block(rest, self.after_if(s, env), k)
            return self.guard(g, "(seqo (if %s then %s else %s) (fun %s => %s))" % (c, a, b, pat(self.state()), cont))
        if isinstance(s, ast.For):
            if s.orelse: bad(s, "for-else")
            it = s.iter
            if isinstance(it, ast.Call) and isinstance(it.func, ast.Name) and it.func.id == "enumerate" and len(it.args) == 1 and not it.keywords:
                c, t, g = self.expr(it.args[0], env)
                if t[0] != "list" or not (isinstance(s.target, ast.Tuple) and len(s.target.elts) == 2 and all(isinstance(x, ast.Name) for x in s.target.elts)):
                    bad(s, "enumerate loop shape")
                i, x = s.target.elts[0].id, s.target.elts[1].id
                self.declare(i, Z, s); self.declare(x, t[1], s)
                names, iter_c = [i, x], "(enumerate %s)" % c
            elif isinstance(s.target, ast.Name):
                c, t, g = self.iterable(it, env)
                if t[0] != "list": bad(s, "loop over a non-list")
                self.declare(s.target.id, t[1], s)
                names, iter_c = [s.target.id], c
            else:
                bad(s, "loop shape")
            if g: bad(s, "guarded iterable")
            benv = env | set(names)
            body = self.block(s.body, benv, None)
            cont = self.block(rest, env, k)
            binds = ("let %s := it_ in " % pat("it_" + n_ for n_ in names)) + "".join("let v_%s := it_%s in " % (n_, n_) for n_ in names)
            return "(seqo (unloop (fold_left (fun o_ it_ => seqo o_ (fun %s => %suncont %s)) %s (Next %s))) (fun %s => %s))" % (
                pat(self.state()), binds, body, iter_c, tup(self.state()), pat(self.state()), cont)
        if isinstance(s, ast.Continue):
            return "Cont %s" % tup(self.state())
        if isinstance(s, ast.Break):
            return "Brk %s" % tup(self.state())
        if isinstance(s, ast.Raise):
            if isinstance(s.exc, ast.Call) and isinstance(s.exc.func, ast.Name) and s.exc.func.id in list(self.tr.exns) + ["ValueError"]:
                return "Raised (EUser \"%s\"%%string)" % s.exc.func.id
            bad(s, "raise")
        if isinstance(s, ast.Return):
            if s.value is None or (isinstance(s.value, ast.Constant) and s.value.value is None):
                return "RetNone"
            if isinstance(s.value, ast.Tuple) and all(isinstance(x, ast.Constant) and x.value is None for x in s.value.elts):
                return "RetNone"      # a tuple of None: no integer result (type differs from the other returns)
            m = self.method_call(s.value)
            if m is not None and not m[1].pure:
                obj, fn = m
                self.set_ret(fn.ret, s)
                return "(retcall (%s %s))" % (fn.coq, obj)
            sp = self.special_return(s, env)
            if sp is not None:
                return sp
            c, t, g = self.expr(s.value, env)
            self.set_ret(t, s)
            return self.guard(g, "Ret %s" % c)
        x = self.stmt_extra(s, rest, env, k)
        if x is not None:
            return x
        bad(s, "statement")

    def stmt_extra(self, s, rest, env, k):
        return None

    def special_return(self, s, env):
        """the one string-building return of get_algebra: "+".join([key if v == 1 else str(v) + "*" + key for key, v in D.items()])
        is abstracted to the dictionary's item list (insertion order); the exact shape is required"""
        want = ("Call(func=Attribute(value=Constant(value='+'), attr='join', ctx=Load()), args=[ListComp(elt=IfExp(test=Compare(left=Name(id='v', ctx=Load()), "
                "ops=[Eq()], comparators=[Constant(value=1)]), body=Name(id='key', ctx=Load()), orelse=BinOp(left=BinOp(left=Call(func=Name(id='str', ctx=Load()), "
                "args=[Name(id='v', ctx=Load())], keywords=[]), op=Add(), right=Constant(value='*')), op=Add(), right=Name(id='key', ctx=Load()))), "
                "generators=[comprehension(target=Tuple(elts=[Name(id='key', ctx=Store()), Name(id='v', ctx=Store())], ctx=Store()), "
                "iter=Call(func=Attribute(value=Name(id='%s', ctx=Load()), attr='items', ctx=Load()), args=[], keywords=[]), ifs=[], is_async=0)])], keywords=[])")
        v = s.value
        try:
            d = v.args[0].generators[0].iter.func.value.id
        except Exception:
            return None
        if ast.dump(v) != want % d:
            return None
        if d not in env or self.vars[d][0] != "dict": bad(s, "items() of a non-dict")
        self.set_ret(self.vars[d], s)
        return "Ret v_%s" % d

    def dict_type(self, name, s):
        # algebras:dict[str, int] = {}  -- the annotation gives the entry types
        ann = getattr(self, "ann", {}).get(name)
        if ann == ("str", "int"): return T_dict(STR, Z)
        bad(s, "empty dict without a dict[str, int] annotation")

    def test(self, e, env):
        # `x in d` for a dict
        if isinstance(e, ast.Compare) and len(e.ops) == 1 and isinstance(e.ops[0], ast.In) and isinstance(e.comparators[0], ast.Name) \
           and e.comparators[0].id in env and self.vars[e.comparators[0].id][0] == "dict":
            c, t, g = self.expr(e.left, env)
            if t != self.vars[e.comparators[0].id][1]: bad(e, "key type")
            return "(dict_mem v_%s %s)" % (e.comparators[0].id, c), B, g
        return self.expr(e, env)

    def set_ret(self, t, node):
        if self.ret is None: self.ret = t
        elif self.ret != t: bad(node, "return type changes %r -> %r" % (self.ret, t))

    # definite assignment
    def assigned(self, stmts, env):
        """names definitely assigned after stmts (None = control never falls through)"""
        for s in stmts:
            if env is None: return None
            if isinstance(s, (ast.Assign, ast.AnnAssign)):
                tgs = s.targets if isinstance(s, ast.Assign) else [s.target]
                for tg in tgs:
                    for n in ast.walk(tg):
                        if isinstance(n, ast.Name) and isinstance(n.ctx, ast.Store): env = env | {n.id}
            elif isinstance(s, ast.If):
                env = self.after_if(s, env)
            elif isinstance(s, (ast.Return, ast.Raise, ast.Continue, ast.Break)):
                return None
        return env
    def after_if(self, s, env):
        a, b = self.assigned(s.body, env), self.assigned(s.orelse, env)
        if a is None: return b if b is not None else env   # both leave: continuation unreachable, any env will do
        if b is None: return a
        return a & b
    def after_for(self, s, env):
        return env
    def state_init(self, env):
        return [("v_" + v if v in env else default(t, self.tr.enums)) for v, t in self.vars.items()]

    # ---------- whole function ----------
    def prepare(self):
        node = self.node
        if [a.arg for a in node.args.args] != ["self"] or node.args.vararg or node.args.kwarg or node.args.kwonlyargs or node.decorator_list:
            bad(node, "signature")
        body = [s for s in node.body if not (isinstance(s, ast.Expr) and isinstance(s.value, ast.Constant))]
        self.ann = {}
        for s in ast.walk(node):
            if isinstance(s, ast.AnnAssign) and isinstance(s.target, ast.Name):
                a = s.annotation
                if isinstance(a, ast.Subscript) and isinstance(a.value, ast.Name) and a.value.id == "dict" and isinstance(a.slice, ast.Tuple):
                    self.ann[s.target.id] = tuple(getattr(x, "id", None) for x in a.slice.elts)
        self.pure = len(body) == 1 and isinstance(body[0], ast.Return) and self.method_call(body[0].value) is None
        for s in body:
            if isinstance(s, ast.FunctionDef):
                ps = [a.arg for a in s.args.args]
                nb = [x for x in s.body if not (isinstance(x, ast.Expr) and isinstance(x.value, ast.Constant))]
                if len(nb) != 1 or not isinstance(nb[0], ast.Return) or any(getattr(a.annotation, "id", None) != "int" for a in s.args.args):
                    bad(s, "nested function must be `def f(n:int): return <expr>`")
                sub = Fn(self.tr, self.cls, s); sub.vars = {p: Z for p in ps}
                c, t, g = sub.expr(nb[0].value, set(ps))
                if g: bad(s, "guarded operation in nested function")
                self.nested[s.name] = (ps, c, t)

    def emit(self):
        self.prepare()
        body = self.node.body
        if self.pure:
            ret = [s for s in body if isinstance(s, ast.Return)][0]
            c, t, g = self.expr(ret.value, set())
            if g: bad(ret, "guarded operation in a pure method")
            self.ret = t
            return "Definition %s (self : %s) : %s := %s." % (self.coq, coq_type(self.self_t), coq_type(t), c)
        # two passes: the first collects variables and the return type
        self.block(body, set(), None)
        term = self.block(body, set(), None)
        if self.ret is None: bad(self.node, "no return type")
        nested = "".join("let f_%s := fun %s => %s in\n  " % (n, " ".join("(v_%s : Z)" % p for p in ps), c) for n, (ps, c, _) in self.nested.items())
        inits = "".join("let v_%s : %s := %s in " % (v, coq_type(t), default(t, self.tr.enums)) for v, t in self.vars.items())
        return ("(* %s.%s, lines %d-%d; state = (%s) *)\nDefinition %s (self : %s) : fres %s :=\n  %s%s@finish %s _ (%s)." % (
            self.cls, self.name, self.node.lineno, self.node.end_lineno, ", ".join(self.vars), self.coq, coq_type(self.self_t), coq_type(self.ret), nested, inits, self.state_type(), term))


class Translator:
    WANT = [("Morph", "is_empty"), ("Morph", "is_empty_legs"), ("Morph", "counts"), ("Morph", "get_properties"),
            ("Morph", "get_algebra_properties"), ("Classification", "get_dla_dim"), ("Classification", "get_algebra")]
    def __init__(self, path):
        src = open(path, newline=None).read()
        self.tree = ast.parse(src)
        self.enums, self.exns, self.fns, self.classes = {}, [], {}, {}
        for n in self.tree.body:
            if isinstance(n, ast.ClassDef):
                bases = [ast.unparse(b) for b in n.bases]
                if bases in (["enum.Enum"], ["Enum"]):
                    mem = []
                    for s in n.body:
                        if isinstance(s, ast.Assign) and len(s.targets) == 1 and isinstance(s.targets[0], ast.Name):
                            mem.append(s.targets[0].id)
                        elif not (isinstance(s, ast.Expr) and isinstance(s.value, ast.Constant)):
                            bad(s, "enum body")
                    self.enums[n.name] = mem
                elif bases == ["Exception"]:
                    self.exns.append(n.name)
                else:
                    self.classes[n.name] = {f.name: f for f in n.body if isinstance(f, ast.FunctionDef)}
        # Morph.__init__ must store legs unchanged: self.legs = legs
        init = self.classes.get("Morph", {}).get("__init__")
        if init is None or not any(isinstance(s, ast.Assign) and ast.unparse(s) == "self.legs = legs" for s in init.body):
            raise Unsupported("Morph.__init__ no longer stores `self.legs = legs`")
        init = self.classes.get("Classification", {}).get("__init__")
        if init is None or not any(ast.unparse(s).replace(" ", "") in ("self.morphs:set[Morph]=set()", "self.morphs=set()") for s in init.body):
            raise Unsupported("Classification.__init__ no longer starts from an empty set of morphs")

    def run(self):
        out = ["(* GENERATED by tools/py2coq.py from src/paulie/classifier/classification.py — do not edit *)",
               "From PauLieRefine Require Import PySem.", "Open Scope Z_scope.", ""]
        for name, mem in self.enums.items():
            out.append("Inductive %s := %s." % (name, " | ".join("%s_%s" % (name, m) for m in mem)))
            out.append("Definition %s_eqb (a b : %s) : bool := match a, b with %s | _, _ => false end." % (
                name, name, " | ".join("%s_%s, %s_%s => true" % (name, m, name, m) for m in mem)))
        out += ["", "Section Gen.", "Context {V : Type}.", ""]
        for cls, fn in self.WANT:
            node = self.classes.get(cls, {}).get(fn)
            if node is None:
                raise Unsupported("%s.%s not found in the source" % (cls, fn))
            f = Fn(self, cls, node)
            out.append(f.emit()); out.append("")
            self.fns[(cls, fn)] = f
        out += ["End Gen.", ""]
        return "\n".join(out)


class ModFn(Fn):
    """a module-level function of pauli_compiler.py; library primitives are mapped to the model's definitions (trusted contracts):
    get_identity(n) = identity n; get_single(n, i, "L") = identity with letter L at site i (0 <= i < n, IndexError otherwise);
    get_pauli_string("L" * k) = k letters L; a.tensor(b) = concatenation"""
    def __init__(self, tr, node):
        Fn.__init__(self, tr, None, node)
        self.coq = "py_" + node.name.lstrip("_")
        self.params = {}
        for a in node.args.args:
            self.params[a.arg] = self.ann_type(a.annotation, a)
        self.self_t = None

    def ann_type(self, a, node):
        txt = ast.unparse(a) if a is not None else None
        tbl = {"int": Z, "bool": B, "PauliString": PS, "list[PauliString]": T_list(PS)}
        if txt not in tbl: bad(node, "annotation %r" % txt)
        return tbl[txt]

    def label(self, e):
        if isinstance(e, ast.Constant) and e.value in ("I", "X", "Y", "Z"):
            return "P" + e.value
        bad(e, "Pauli label must be a one-letter literal")

    def to_nat(self, c):
        return "(Z.to_nat %s)" % c

    def expr_extra(self, e, env):
        if isinstance(e, ast.Call) and not e.keywords:
            f = e.func
            if isinstance(f, ast.Name) and f.id == "get_identity" and len(e.args) == 1:
                c, t, g = self.expr(e.args[0], env)
                if t != Z: bad(e, "get_identity of non-int")
                return "(identity %s)" % self.to_nat(c), PS, g
            if isinstance(f, ast.Name) and f.id == "get_single" and len(e.args) == 3:
                n, tn, gn = self.expr(e.args[0], env)
                i, ti, gi_ = self.expr(e.args[1], env)
                if tn != Z or ti != Z: bad(e, "get_single arguments")
                return ("(get_single %s %s %s)" % (self.to_nat(n), self.to_nat(i), self.label(e.args[2])), PS,
                        gn + gi_ + [("((0 <=? %s) && (%s <? %s))" % (i, i, n), "Raised EIndex")])
            if isinstance(f, ast.Name) and f.id == "get_pauli_string" and len(e.args) == 1:
                a = e.args[0]
                if isinstance(a, ast.BinOp) and isinstance(a.op, ast.Mult) and isinstance(a.left, ast.Constant):
                    c, t, g = self.expr(a.right, env)
                    if t != Z: bad(e, "string repetition count")
                    return "(repeat %s %s)" % (self.label(a.left), self.to_nat(c)), PS, g
                bad(e, "get_pauli_string of anything but \"L\" * k")
            if isinstance(f, ast.Attribute) and f.attr == "tensor" and len(e.args) == 1:
                a, ta, ga = self.expr(f.value, env)
                b, tb, gb = self.expr(e.args[0], env)
                if ta != PS or tb != PS: bad(e, "tensor of non-PauliStrings")
                return "(%s ++ %s)" % (a, b), PS, ga + gb
            if isinstance(f, ast.Name) and f.id in self.tr.fns:
                fn = self.tr.fns[f.id]
                if not fn.pure: bad(e, "call of %s inside an expression" % f.id)
                if len(e.args) != len(fn.params): bad(e, "arity")
                cs, gs = [], []
                for a, (pn, pt) in zip(e.args, fn.params.items()):
                    c, t, g = self.expr(a, env)
                    if t != pt: bad(a, "argument type")
                    cs.append(c); gs += g
                return "(%s %s)" % (fn.coq, " ".join(cs)), fn.ret, gs
            return None
        if isinstance(e, ast.BinOp) and isinstance(e.op, ast.Add):
            a, ta, ga = self.expr(e.left, env)
            if ta[0] == "list":
                b, tb, gb = self.expr(e.right, env)
                if ta != tb: bad(e, "list + of different types")
                return "(%s ++ %s)" % (a, b), ta, ga + gb
            return None
        if isinstance(e, ast.ListComp):
            if len(e.generators) != 1 or e.generators[0].ifs or e.generators[0].is_async or not isinstance(e.generators[0].target, ast.Name):
                bad(e, "list comprehension shape")
            gen = e.generators[0]
            x = gen.target.id
            it, tit, git = self.iterable(gen.iter, env)
            if tit[0] != "list": bad(e, "comprehension over a non-list")
            if x in self.vars or x in self.params: bad(e, "comprehension variable %s shadows a local" % x)
            self.vars[x] = tit[1]
            try:
                c, t, g = self.expr(gen and e.elt, env | {x})
            finally:
                del self.vars[x]
            gs = git + [("(forallb (fun v_%s => %s) %s)" % (x, gb, it), o) for gb, o in g]
            return "(map (fun v_%s => %s) %s)" % (x, c, it), T_list(t), gs
        return None

    def module_call(self, e):
        if isinstance(e, ast.Call) and isinstance(e.func, ast.Name) and e.func.id in self.tr.fns and not e.keywords:
            fn = self.tr.fns[e.func.id]
            if fn.pure: return None
            return fn
        return None

    def method_call(self, e):
        fn = self.module_call(e)
        if fn is None: return None
        if len(e.args) != len(fn.params): bad(e, "arity")
        cs = []
        for a, (pn, pt) in zip(e.args, fn.params.items()):
            c, t, g = self.expr(a, set(self.vars) | set(self.params))
            if t != pt or g: bad(a, "argument of a call must be an unguarded %r" % (pt,))
            cs.append(c)
        return " ".join(cs), fn

    def stmt_extra(self, s, rest, env, k):
        # x.append(e)
        if isinstance(s, ast.Expr) and isinstance(s.value, ast.Call) and isinstance(s.value.func, ast.Attribute) and s.value.func.attr == "append" \
           and isinstance(s.value.func.value, ast.Name) and len(s.value.args) == 1 and not s.value.keywords:
            x = s.value.func.value.id
            if x not in env or self.vars[x][0] != "list": bad(s, "append to a non-list")
            c, t, g = self.expr(s.value.args[0], env)
            if t != self.vars[x][1]: bad(s, "append of another type")
            return self.guard(g, "(let v_%s := (v_%s ++ [%s]) in %s)" % (x, x, c, self.block(rest, env, k)))
        return None

    def block(self, stmts, env, k):
        # typed empty list: a_ops: list[PauliString] = []
        if stmts and isinstance(stmts[0], ast.AnnAssign) and isinstance(stmts[0].target, ast.Name) and isinstance(stmts[0].value, ast.List) and not stmts[0].value.elts:
            s = stmts[0]
            t = self.ann_type(s.annotation, s)
            self.declare(s.target.id, t, s)
            return "(let v_%s : %s := [] in %s)" % (s.target.id, coq_type(t), Fn.block(self, stmts[1:], env | {s.target.id}, k))
        return Fn.block(self, stmts, env, k)

    def prepare(self):
        node = self.node
        if node.args.vararg or node.args.kwarg or node.args.kwonlyargs or node.decorator_list or node.args.defaults:
            bad(node, "signature")
        body = [s for s in node.body if not (isinstance(s, ast.Expr) and isinstance(s.value, ast.Constant))]
        self.ann = {}
        self.pure = False
        if len(body) == 1 and isinstance(body[0], ast.Return) and self.module_call(body[0].value) is None:
            c, t, g = self.expr(body[0].value, set())
            self.pure = not g

    def emit(self):
        self.prepare()
        body = self.node.body
        ps = " ".join("(v_%s : %s)" % (n, coq_type(t)) for n, t in self.params.items())
        if self.pure:
            ret = [s for s in body if isinstance(s, ast.Return)][0]
            c, t, g = self.expr(ret.value, set())
            self.ret = t
            return "Definition %s %s : %s := %s." % (self.coq, ps, coq_type(t), c)
        self.block(body, set(), None)
        term = self.block(body, set(), None)
        if self.ret is None: bad(self.node, "no return type")
        inits = "".join("let v_%s : %s := %s in " % (v, coq_type(t), default(t, self.tr.enums)) for v, t in self.vars.items() if v not in self.params)
        return ("(* %s, lines %d-%d; state = (%s) *)\nDefinition %s %s : fres %s :=\n  %s@finish %s _ (%s)." % (
            self.name, self.node.lineno, self.node.end_lineno, ", ".join(self.vars), self.coq, ps, coq_type(self.ret), inits, self.state_type(), term))


class CompTranslator:
    """the builders of the universal generating set in application/pauli_compiler.py"""
    WANT = ["_tensor", "left_a_minimal", "choose_u_for_b", "construct_universal_set"]
    def __init__(self, repo):
        self.path = os.path.join(repo, "src", "paulie", "application", "pauli_compiler.py")
        src = open(self.path, newline=None, encoding="utf-8-sig").read()
        self.tree = ast.parse(src)
        self.enums, self.exns, self.fns = {}, [], {}
        self.defs = {n.name: n for n in self.tree.body if isinstance(n, ast.FunctionDef)}
        imp = [ast.unparse(n) for n in self.tree.body if isinstance(n, ast.ImportFrom)]
        if "from paulie.common.pauli_string_factory import get_identity, get_pauli_string, get_single" not in imp:
            raise Unsupported("pauli_compiler.py no longer imports get_identity, get_pauli_string, get_single from the factory")
        # the factory primitives themselves: their source text is pinned (their contracts are what the translation trusts)
        fac = ast.parse(open(os.path.join(repo, "src", "paulie", "common", "pauli_string_factory.py"), newline=None, encoding="utf-8-sig").read())
        fdefs = {n.name: n for n in fac.body if isinstance(n, ast.FunctionDef)}
        def body_of(n):
            return [ast.unparse(s) for s in n.body if not (isinstance(s, ast.Expr) and isinstance(s.value, ast.Constant))]
        if body_of(fdefs.get("get_identity", ast.parse("def f(): pass").body[0])) != ["return PauliString(n=n)"]:
            raise Unsupported("factory.get_identity is no longer `return PauliString(n=n)`")
        if body_of(fdefs.get("get_single", ast.parse("def f(): pass").body[0])) != ["p = get_identity(n)", "p[i] = label", "return p"]:
            raise Unsupported("factory.get_single is no longer identity with one site assigned")

    def run(self):
        out = ["(* GENERATED by tools/py2coq.py from src/paulie/application/pauli_compiler.py — do not edit *)",
               "From PauLieRefine Require Import PySem.", "From PauLie Require Import Pauli Compiler.", "Open Scope Z_scope.", ""]
        for name in self.WANT:
            node = self.defs.get(name)
            if node is None:
                raise Unsupported("%s not found in the source" % name)
            f = ModFn(self, node)
            out.append(f.emit()); out.append("")
            self.fns[name] = f
        return "\n".join(out)


class PSFn(ModFn):
    """a method of PauliString (common/pauli_string_bitarray.py) on the object (bits, bits_even, bits_odd) = Model/PauliBits.obj.
    Contracts of the bitarray library and of the constructor (trusted, pinned where they are source text of this repo):
    count_and(a, b) = number of positions where both are set; a ^ b = bitwise xor, ValueError on unequal lengths; len; bitarray(n) = n zeros;
    a == b = same bits; PauliString(bits=X) = the object freshly built from X (bits copied, even/odd views sliced);
    self._ensure_pauli_string(o) = o for a PauliString argument; (-1j) ** e for e in 0..3 = the Gaussian integer mi_pow e."""
    def __init__(self, tr, node):
        Fn.__init__(self, tr, "PauliString", node)
        self.coq = "py_PS_" + node.name.strip("_")
        self.params = {}
        args = node.args.args
        if not args or args[0].arg != "self": bad(node, "method without self")
        self.params["self"] = OBJ
        for a in args[1:]:
            txt = ast.unparse(a.annotation) if a.annotation is not None else None
            if txt in ("object", "'PauliString'", "PauliString", "Self", "str | PauliString", "str | Self", "str | Self | PauliString"): self.params[a.arg] = OBJ
            elif txt == "int": self.params[a.arg] = Z
            else: bad(a, "parameter annotation %r" % txt)
        self.self_t = None
        self.defaults = list(node.args.defaults)
        if any(not (isinstance(d, ast.Constant) and isinstance(d.value, int)) for d in self.defaults): bad(node, "default value")
        node.args.defaults = []
        self.mutating = any(isinstance(t, (ast.Subscript, ast.Attribute)) and isinstance(getattr(t.value, "value", t.value), ast.Name)
                            and getattr(t.value, "value", t.value).id == "self" and isinstance(t.ctx, ast.Store) for t in ast.walk(node))
        for c in ast.walk(node):
            if isinstance(c, ast.Call) and isinstance(c.func, ast.Attribute) and isinstance(c.func.value, ast.Name) and c.func.value.id == "self" \
               and c.func.attr in tr.fns and getattr(tr.fns[c.func.attr], "mutating", False):
                self.mutating = True
        if self.mutating:
            self.vars["self"] = OBJ

    FIELDS = {"bits": "obits", "bits_even": "oeven", "bits_odd": "oodd"}

    def raise_text(self, o):
        if getattr(self, "mutating", False):
            if o.startswith("Raised "): return "Ret (FRaised %s, v_self)" % o[len("Raised "):]
            bad(self.node, "guard %s inside a mutating method" % o)
        return o

    def bit_value(self, e, env):
        """a value stored into a bitarray: a bit, or the int literals 0 / 1"""
        if isinstance(e, ast.Constant) and e.value in (0, 1) and not isinstance(e.value, bool):
            return ("true" if e.value == 1 else "false"), []
        c, t, g = self.expr(e, env)
        if t != B: bad(e, "value stored into a bitarray must be a bit")
        return c, g

    def stmt_extra(self, s, rest, env, k):
        if isinstance(s, ast.Assign) and len(s.targets) == 1:
            tg = s.targets[0]
            # x[idx] = v  where x is self.<field> or a local bitarray
            if isinstance(tg, ast.Subscript):
                ic, it_, ig = self.expr(tg.slice, env)
                if it_ != Z: bad(s, "index must be int")
                vc, vg = self.bit_value(s.value, env)     # Python evaluates the right-hand side first
                if isinstance(tg.value, ast.Attribute) and isinstance(tg.value.value, ast.Name) and tg.value.value.id == "self" and tg.value.attr in self.FIELDS:
                    if not self.mutating: bad(s, "assignment into self in a method not marked mutating")
                    f = self.FIELDS[tg.value.attr]
                    return self.guard(vg + ig + [("(idx_ok (%s v_self) %s)" % (f, ic), "Raised EIndex")],
                                      "(let v_self := set_%s v_self (list_set (%s v_self) %s %s) in %s)" % (f, f, ic, vc, self.block(rest, env, k)))
                if isinstance(tg.value, ast.Name) and tg.value.id in env and self.vars.get(tg.value.id) == BITS:
                    x = tg.value.id
                    return self.guard(vg + ig + [("(idx_ok v_%s %s)" % (x, ic), "Raised EIndex")],
                                      "(let v_%s := (list_set v_%s %s %s) in %s)" % (x, x, ic, vc, self.block(rest, env, k)))
                bad(s, "subscript assignment target")
            # self.<field> = <bitarray expression>
            if isinstance(tg, ast.Attribute) and isinstance(tg.value, ast.Name) and tg.value.id == "self" and tg.attr in self.FIELDS:
                if not self.mutating: bad(s, "assignment into self in a method not marked mutating")
                c, t, g = self.expr(s.value, env)
                if t != BITS: bad(s, "field must be assigned a bitarray")
                return self.guard(g, "(let v_self := set_%s v_self %s in %s)" % (self.FIELDS[tg.attr], c, self.block(rest, env, k)))
        if isinstance(s, ast.Return) and self.mutating:
            if s.value is None or (isinstance(s.value, ast.Constant) and s.value.value is None):
                return "Ret (FNone, v_self)"
            c, t, g = self.expr(s.value, env)
            self.set_ret(t, s)
            return self.guard(g, "Ret (FRet %s, v_self)" % c)
        if isinstance(s, ast.Expr) and isinstance(s.value, ast.Call) and self.mutating and self.method_call(s.value) is not None and self.method_call(s.value)[1].mutating:
            args, fn = self.method_call(s.value)
            if not args.startswith("v_self"): bad(s, "mutating call on another object")
            return "(callM (%s %s) (fun _ v_self => %s))" % (fn.coq, args, self.block(rest, env, k))
        # return a + b on PauliStrings: __add__
        if isinstance(s, ast.Return) and isinstance(s.value, ast.BinOp) and isinstance(s.value.op, ast.Add) and not self.mutating:
            a, ta, ga = self.expr(s.value.left, env)
            if ta == OBJ:
                b, tb, gb = self.expr(s.value.right, env)
                fn = self.tr.fns.get("__add__")
                if tb != OBJ or fn is None: bad(s, "+ of PauliStrings needs a translated __add__")
                self.set_ret(fn.ret, s)
                return self.guard(ga + gb, "(retcall (%s %s %s))" % (fn.coq, a, b))
        return ModFn.stmt_extra(self, s, rest, env, k)

    def block(self, stmts, env, k):
        if stmts and isinstance(stmts[0], ast.Return) and (getattr(self, "mutating", False) or isinstance(stmts[0].value, ast.BinOp)):
            x = self.stmt_extra(stmts[0], stmts[1:], env, k)
            if x is not None:
                return x
        if stmts and isinstance(stmts[0], ast.Expr) and isinstance(stmts[0].value, ast.Call) and getattr(self, "mutating", False):
            x = self.stmt_extra(stmts[0], stmts[1:], env, k)
            if x is not None:
                return x
        if stmts and isinstance(stmts[0], ast.Assign) and len(stmts[0].targets) == 1 and isinstance(stmts[0].targets[0], (ast.Subscript, ast.Attribute)):
            x = self.stmt_extra(stmts[0], stmts[1:], env, k)
            if x is not None:
                return x
        return ModFn.block(self, stmts, env, k)

    def field(self, e):
        if isinstance(e, ast.Attribute) and e.attr in ("bits", "bits_even", "bits_odd") and isinstance(e.value, ast.Name):
            return {"bits": "obits", "bits_even": "oeven", "bits_odd": "oodd"}[e.attr]
        return None

    def expr_extra(self, e, env):
        f = self.field(e)
        if f is not None:
            c, t, g = self.expr(e.value, env)
            if t != OBJ: bad(e, "field of a non-PauliString")
            return "(%s %s)" % (f, c), BITS, g
        if isinstance(e, ast.Subscript):
            c, t, g = self.expr(e.value, env)
            if t != BITS: bad(e, "subscript of a non-bitarray")
            sl = e.slice
            if isinstance(sl, ast.Slice):
                shape = (ast.unparse(sl.lower) if sl.lower else None, ast.unparse(sl.upper) if sl.upper else None, ast.unparse(sl.step) if sl.step else None)
                if shape == (None, None, "2"): return "(evens %s)" % c, BITS, g
                if shape == ("1", None, "2"): return "(odds %s)" % c, BITS, g
                if sl.lower is not None and sl.upper is not None and sl.step is None:
                    a, ta, ga = self.expr(sl.lower, env); b, tb, gb = self.expr(sl.upper, env)
                    if ta != Z or tb != Z: bad(e, "slice bounds")
                    return "(slice_range %s %s %s)" % (c, a, b), BITS, g + ga + gb
                bad(e, "slice other than [::2], [1::2], [a:b]")
            ic, it_, ig = self.expr(sl, env)
            if it_ != Z: bad(e, "index must be int")
            return "(list_get false %s %s)" % (c, ic), B, g + ig + [("(idx_ok %s %s)" % (c, ic), "Raised EIndex")]
        if isinstance(e, ast.Call) and isinstance(e.func, ast.Name) and e.func.id == "ba2int" and len(e.args) == 1 and not e.keywords:
            c, t, g = self.expr(e.args[0], env)
            if t != BITS: bad(e, "ba2int of a non-bitarray")
            return "(ba2int %s)" % c, Z, g
        if isinstance(e, ast.Call):
            fn_ = e.func
            if isinstance(fn_, ast.Name) and fn_.id == "count_and" and len(e.args) == 2 and not e.keywords:
                a, ta, ga = self.expr(e.args[0], env); b, tb, gb = self.expr(e.args[1], env)
                if ta != BITS or tb != BITS: bad(e, "count_and of non-bitarrays")
                return "(count_and %s %s)" % (a, b), Z, ga + gb
            if isinstance(fn_, ast.Name) and fn_.id == "count_or" and len(e.args) == 2 and not e.keywords:
                a, ta, ga = self.expr(e.args[0], env); b, tb, gb = self.expr(e.args[1], env)
                if ta != BITS or tb != BITS: bad(e, "count_or of non-bitarrays")
                return "(count_or %s %s)" % (a, b), Z, ga + gb
            if isinstance(fn_, ast.Name) and fn_.id == "PauliString" and not e.args and len(e.keywords) == 1 and e.keywords[0].arg == "n":
                c, t, g = self.expr(e.keywords[0].value, env)
                if t != Z: bad(e, "PauliString(n=...) of a non-int")
                return "(fresh_bits (repeat false (Z.to_nat (2 * %s))))" % c, OBJ, g + [("(0 <=? %s)" % c, "Raised (EUser \"ValueError\"%string)")]
            if isinstance(fn_, ast.Name) and fn_.id == "bitarray" and len(e.args) == 1 and not e.keywords:
                c, t, g = self.expr(e.args[0], env)
                if t != Z: bad(e, "bitarray of non-int")
                return "(repeat false (Z.to_nat %s))" % c, BITS, g
            if isinstance(fn_, ast.Name) and fn_.id == "len" and len(e.args) == 1 and not e.keywords:
                c, t, g = self.expr(e.args[0], env)
                if t == BITS: return "(Z.of_nat (length %s))" % c, Z, g
                if t == OBJ:
                    ln = self.tr.fns.get("__len__")
                    if ln is None or not ln.pure: bad(e, "len() of a PauliString needs a translated pure __len__")
                    return "(%s %s)" % (ln.coq, c), Z, g
                bad(e, "len")
            if isinstance(fn_, ast.Name) and fn_.id == "PauliString" and not e.args and len(e.keywords) == 1 and e.keywords[0].arg == "bits":
                c, t, g = self.expr(e.keywords[0].value, env)
                if t != BITS: bad(e, "PauliString(bits=...) of a non-bitarray")
                return "(fresh_bits %s)" % c, OBJ, g
            if isinstance(fn_, ast.Attribute) and fn_.attr == "_ensure_pauli_string" and isinstance(fn_.value, ast.Name) and fn_.value.id == "self" and len(e.args) == 1:
                c, t, g = self.expr(e.args[0], env)
                if t != OBJ: bad(e, "_ensure_pauli_string of a non-PauliString")
                return c, OBJ, g
            m = self.method_call(e)
            if m is not None:
                args, fn = m
                if fn.pure: return "(%s %s)" % (fn.coq, args), fn.ret, []
                bad(e, "call of %s inside an expression" % fn.name)
            return None
        if isinstance(e, ast.BinOp):
            if isinstance(e.op, ast.BitXor):
                a, ta, ga = self.expr(e.left, env); b, tb, gb = self.expr(e.right, env)
                if ta != BITS or tb != BITS: bad(e, "^ of non-bitarrays")
                return "(bxor %s %s)" % (a, b), BITS, ga + gb + [("(Nat.eqb (length %s) (length %s))" % (a, b), "Raised (EUser \"ValueError\"%string)")]
            if isinstance(e.op, ast.Mod) and isinstance(e.right, ast.Constant) and isinstance(e.right.value, int) and e.right.value > 0:
                a, ta, ga = self.expr(e.left, env)
                if ta != Z: bad(e, "% of non-int")
                return "(%s mod %d)" % (a, e.right.value), Z, ga
            if isinstance(e.op, ast.Pow) and ast.dump(e.left) == ast.dump(ast.parse("(-1j)", mode="eval").body):
                c, t, g = self.expr(e.right, env)
                if t != Z: bad(e, "complex power")
                return "(mi_pow %s)" % c, GI, g
            return None
        if isinstance(e, ast.UnaryOp) and isinstance(e.op, ast.USub) and isinstance(e.operand, ast.Constant) and isinstance(e.operand.value, int) and not isinstance(e.operand.value, bool):
            return "(-%d)" % e.operand.value, Z, []
        if isinstance(e, ast.Compare) and len(e.ops) == 1 and isinstance(e.ops[0], (ast.Lt, ast.LtE, ast.Gt, ast.GtE, ast.NotEq)):
            a, ta, ga = self.expr(e.left, env)
            if ta == BITS:
                b, tb, gb = self.expr(e.comparators[0], env)
                if tb != BITS: bad(e, "comparison of a bitarray with something else")
                c = {ast.Lt: "(bits_ltb %s %s)" % (a, b), ast.Gt: "(bits_ltb %s %s)" % (b, a), ast.LtE: "(negb (bits_ltb %s %s))" % (b, a),
                     ast.GtE: "(negb (bits_ltb %s %s))" % (a, b), ast.NotEq: "(negb (bits_eqb %s %s))" % (a, b)}[type(e.ops[0])]
                return c, B, ga + gb
            return None
        if isinstance(e, ast.Compare) and len(e.ops) == 1 and isinstance(e.ops[0], ast.Eq):
            a, ta, ga = self.expr(e.left, env)
            if ta == B and isinstance(e.comparators[0], ast.Constant) and e.comparators[0].value in (0, 1) and not isinstance(e.comparators[0].value, bool):
                return (a if e.comparators[0].value == 1 else "(negb %s)" % a), B, ga      # a bit compared with 0 / 1
            if ta == BITS:
                b, tb, gb = self.expr(e.comparators[0], env)
                if tb != BITS: bad(e, "== of a bitarray with something else")
                return "(bits_eqb %s %s)" % (a, b), B, ga + gb
            return None
        return None

    def expr(self, e, env):
        if isinstance(e, (ast.Compare, ast.UnaryOp, ast.Attribute, ast.Subscript)):
            x = self.expr_extra(e, env)
            if x is not None:
                return x
        return Fn.expr(self, e, env)

    def method_call(self, e):
        if isinstance(e, ast.Call) and isinstance(e.func, ast.Attribute) and isinstance(e.func.value, ast.Name) and not e.keywords \
           and e.func.attr in self.tr.fns and e.func.attr != "_ensure_pauli_string":
            fn = self.tr.fns[e.func.attr]
            scope = set(self.vars) | set(self.params)
            o, to, go = self.expr(e.func.value, scope)
            dflt = getattr(fn, "defaults", [])
            if to != OBJ or not (len(fn.params) - 1 - len(dflt) <= len(e.args) <= len(fn.params) - 1): bad(e, "method call shape")
            cs = [o]
            for a in list(e.args) + dflt[len(dflt) - (len(fn.params) - 1 - len(e.args)):] if len(e.args) < len(fn.params) - 1 else list(e.args):
                c, t, g = self.expr(a, scope)
                if g: bad(a, "argument of a method call must be unguarded")
                cs.append(c)
            return " ".join(cs), fn
        return None

    def module_call(self, e):
        m = self.method_call(e)
        return None if m is None or m[1].pure else m[1]


    def emit(self):
        if not self.mutating:
            return ModFn.emit(self)
        self.prepare()
        body = self.node.body
        ps = " ".join("(v_%s : %s)" % (n, coq_type(t)) for n, t in self.params.items())
        env0 = {"self"}
        self.block(body, env0, None)
        term = self.block(body, env0, None)
        rt = self.ret if self.ret is not None else OBJ       # a method that only falls through returns None
        inits = "".join("let v_%s : %s := %s in " % (v, coq_type(t), default(t, self.tr.enums)) for v, t in self.vars.items() if v not in self.params)
        return ("(* %s (mutates self), lines %d-%d; state = (%s); result = (returned value, self afterwards) *)\nDefinition %s %s : fres %s * obj :=\n  %s@finishM %s _ _ (fun %s => v_self) v_self (%s)." % (
            self.name, self.node.lineno, self.node.end_lineno, ", ".join(self.vars), self.coq, ps, coq_type(rt), inits, self.state_type(), pat(self.state()), term))

    def prepare(self):
        body = [s for s in self.node.body if not (isinstance(s, ast.Expr) and isinstance(s.value, ast.Constant))]
        if len(body) == 1 and isinstance(body[0], ast.Return) and isinstance(body[0].value, ast.BinOp) and isinstance(body[0].value.op, ast.Add):
            self.ann, self.pure = {}, False      # `return a + b` on PauliStrings goes through __add__, which can raise
            return
        if self.name == "__init__" and [ast.unparse(d) for d in self.node.args.defaults] == ["None"]:
            self.node.args.defaults = []        # `generators=None`: None behaves as the empty list (first statement: `if not generators: return`)
        ModFn.prepare(self)
        if self.mutating:
            self.pure = False


class PSTranslator:
    WANT = ["__len__", "__eq__", "sign", "complex_conj", "commutes_with", "multiply", "adjoint_map", "__or__", "__xor__", "__matmul__", "is_identity",
            "get_index", "get_diagonal_index", "tensor", "set_substring", "inc",
            "__lt__", "__le__", "__gt__", "__ge__", "__ne__", "copy", "__copy__", "__add__", "expand", "get_substring", "__getitem__", "__setitem__", "get_count_non_trivially"]
    def __init__(self, repo):
        self.path = os.path.join(repo, "src", "paulie", "common", "pauli_string_bitarray.py")
        self.tree = ast.parse(open(self.path, newline=None, encoding="utf-8-sig").read())
        self.enums, self.exns, self.fns = {}, [], {}
        cls = [n for n in self.tree.body if isinstance(n, ast.ClassDef) and n.name == "PauliString"]
        if len(cls) != 1: raise Unsupported("class PauliString not found")
        self.defs = {f.name: f for f in cls[0].body if isinstance(f, ast.FunctionDef)}
        # pinned source text of the constructor's view bookkeeping and of _ensure_pauli_string (the contracts above)
        init = [ast.unparse(s) for s in ast.walk(self.defs["__init__"]) if isinstance(s, ast.Assign)]
        for need in ("self.bits = bits.copy()", "self.bits_even = self.bits[::2]", "self.bits_odd = self.bits[1::2]"):
            if need not in init: raise Unsupported("PauliString.__init__ no longer contains `%s`" % need)
        ens = [ast.unparse(s) for s in self.defs["_ensure_pauli_string"].body if not (isinstance(s, ast.Expr) and isinstance(s.value, ast.Constant))]
        if ens != ["return other if isinstance(other, PauliString) else PauliString(pauli_str=str(other))"]:
            raise Unsupported("_ensure_pauli_string is no longer the identity on PauliString arguments")

    def run(self):
        out = ["(* GENERATED by tools/py2coq.py from src/paulie/common/pauli_string_bitarray.py — do not edit *)",
               "From PauLieRefine Require Import PySem.", "From PauLie Require Import Pauli PauliBits.", "Open Scope Z_scope.", "",
               "Definition set_obits (o : obj) (b : list bool) : obj := {| obits := b; oeven := oeven o; oodd := oodd o |}.",
               "Definition set_oeven (o : obj) (b : list bool) : obj := {| obits := obits o; oeven := b; oodd := oodd o |}.",
               "Definition set_oodd (o : obj) (b : list bool) : obj := {| obits := obits o; oeven := oeven o; oodd := b |}.", ""]
        for name in self.WANT:
            node = self.defs.get(name)
            if node is None: raise Unsupported("PauliString.%s not found in the source" % name)
            f = PSFn(self, node)
            if f.coq in [g.coq for g in self.fns.values()]:
                f.coq += "_dunder"
            out.append(f.emit()); out.append("")
            self.fns[name] = f
        return "\n".join(out)


class CollFn(PSFn):
    """a method of PauliStringCollection (common/pauli_string_collection.py) on the state (generators, classification) = Model/Collection.coll.
    Contracts (trusted; the C10 history replay runs them against the real objects): Python list semantics — `x in l` / `x not in l` = memS,
    l.append, l.insert(i, x) = insert_at (norm_insert (len l) i), del l[k] = delete_at with IndexError outside (norm_index), l.remove(x) = remove1
    (ValueError when absent), l[k] = v with Python's index rule; len(max(l, key=len)) = maxlen l; PauliString contracts — len, ==,
    p.copy() = p, p.expand(n) = p padded with identities to n (ValueError when p is longer than n), p @ q = letterwise product (ValueError on
    unequal lengths; proved of the source in PSRefine.gen_matmul); self.classify() = a classification computed from the strings held now."""
    def __init__(self, tr, node):
        Fn.__init__(self, tr, "PauliStringCollection", node)
        self.coq = "py_C_" + node.name.strip("_")
        self.params = {"self": COLL}
        for a in node.args.args[1:]:
            txt = ast.unparse(a.annotation) if a.annotation is not None else None
            if txt == "PauliString": self.params[a.arg] = PS
            elif txt == "int": self.params[a.arg] = Z
            elif txt == "Union[list[PauliString] | Self | None]" and node.name == "__init__": self.params[a.arg] = T_list(PS)   # contract: called with a list (None behaves as [])
            else: bad(a, "parameter annotation %r" % txt)
        self.self_t = None
        def stores_self(t):
            return isinstance(t, ast.Attribute) and isinstance(t.value, ast.Name) and t.value.id == "self" and isinstance(t.ctx, (ast.Store, ast.Del))
        self.mutating = any(stores_self(t) or (isinstance(t, ast.Subscript) and isinstance(t.ctx, (ast.Store, ast.Del)) and isinstance(t.value, ast.Attribute)
                                               and isinstance(t.value.value, ast.Name) and t.value.value.id == "self") for t in ast.walk(node))
        # a method that calls a mutating method, or list-mutating methods of self.generators, mutates too
        for c in ast.walk(node):
            if isinstance(c, ast.Call) and isinstance(c.func, ast.Attribute):
                if isinstance(c.func.value, ast.Name) and c.func.value.id == "self" and c.func.attr in tr.fns and tr.fns[c.func.attr].mutating:
                    self.mutating = True
                if isinstance(c.func.value, ast.Attribute) and ast.unparse(c.func.value) == "self.generators" and c.func.attr in ("append", "insert", "remove", "sort"):
                    self.mutating = True
        if self.mutating:
            self.vars["self"] = COLL

    def field(self, e):
        return None

    def expr_extra(self, e, env):
        if isinstance(e, ast.Attribute) and isinstance(e.value, ast.Name) and e.value.id == "self":
            if e.attr == "generators": return "(gens v_self)", T_list(PS), []
            if e.attr == "classification": return "(cache v_self)", T_opt(T_list(PS)), []
            bad(e, "field")
        if isinstance(e, ast.Constant) and e.value is None:
            return "None", T_opt(T_list(PS)), []
        if isinstance(e, ast.Call) and not e.keywords:
            f = e.func
            if ast.unparse(e) == "len(max(self.generators, key=len))":
                return "(Z.of_nat (maxlen (gens v_self)))", Z, []
        if isinstance(e, ast.Call):
            f = e.func
            if ast.unparse(e) == "len(max(self.generators, key=len))":
                return "(Z.of_nat (maxlen (gens v_self)))", Z, []
            if isinstance(f, ast.Name) and f.id == "len" and len(e.args) == 1 and isinstance(e.args[0], ast.Call) and ast.unparse(e.args[0].func) == "max" \
               and len(e.args[0].args) == 1 and [(k.arg, ast.unparse(k.value)) for k in e.args[0].keywords] == [("key", "len")]:
                c, t, g = self.expr(e.args[0].args[0], env)
                if t != T_list(PS): bad(e, "max over a non-list")
                return "(Z.of_nat (maxlen %s))" % c, Z, g + [("(negb (match %s with [] => true | _ => false end))" % c, "Raised (EUser \"ValueError\"%string)")]
            if e.keywords: bad(e, "keyword arguments")
            if isinstance(f, ast.Name) and f.id == "len" and len(e.args) == 1:
                if ast.unparse(e.args[0]) == "self":
                    ln = self.tr.fns.get("__len__")
                    if ln is None or not ln.pure: bad(e, "len(self) needs a translated pure __len__")
                    return "(%s v_self)" % ln.coq, Z, []
                c, t, g = self.expr(e.args[0], env)
                if t == PS or (isinstance(t, tuple) and t[0] == "list"): return "(Z.of_nat (length %s))" % c, Z, g
                bad(e, "len")
            if isinstance(f, ast.Attribute) and f.attr == "expand" and len(e.args) == 1 and not (isinstance(f.value, ast.Name) and f.value.id == "self"):
                c, t, g = self.expr(f.value, env); n, tn, gn = self.expr(e.args[0], env)
                if t != PS or tn != Z: bad(e, "expand of a non-PauliString")
                return "(pad (Z.to_nat %s) %s)" % (n, c), PS, g + gn + [("(Z.of_nat (length %s) <=? %s)" % (c, n), "Raised (EUser \"ValueError\"%string)")]
            if isinstance(f, ast.Attribute) and f.attr == "copy" and not e.args:
                c, t, g = self.expr(f.value, env)
                if t != PS: bad(e, "copy of a non-PauliString")
                return c, PS, g
            if isinstance(f, ast.Attribute) and f.attr == "classify" and isinstance(f.value, ast.Name) and f.value.id == "self" and not e.args:
                return "(Some (gens v_self))", T_opt(T_list(PS)), []
            m = self.method_call(e)
            if m is not None:
                args, fn = m
                if fn.pure: return "(%s %s)" % (fn.coq, args), fn.ret, []
                bad(e, "call of %s inside an expression" % fn.name)
            return None
        if isinstance(e, ast.BinOp) and isinstance(e.op, ast.MatMult):
            a, ta, ga = self.expr(e.left, env); b, tb, gb = self.expr(e.right, env)
            if ta != PS or tb != PS: bad(e, "@ of non-PauliStrings")
            return "(smul %s %s)" % (a, b), PS, ga + gb + [("(Nat.eqb (length %s) (length %s))" % (a, b), "Raised (EUser \"ValueError\"%string)")]
        if isinstance(e, ast.UnaryOp) and isinstance(e.op, ast.USub) and isinstance(e.operand, ast.Constant) and isinstance(e.operand.value, int):
            return "(-%d)" % e.operand.value, Z, []
        if isinstance(e, ast.UnaryOp) and isinstance(e.op, ast.Not):
            c, t, g = self.expr(e.operand, env)
            if isinstance(t, tuple) and t[0] == "list": return "(match %s with [] => true | _ => false end)" % c, B, g
            return None
        if isinstance(e, ast.Compare) and len(e.ops) == 1:
            op = e.ops[0]
            if isinstance(op, (ast.Is, ast.IsNot)) and isinstance(e.comparators[0], ast.Constant) and e.comparators[0].value is None:
                a, ta, ga = self.expr(e.left, env)
                if not (isinstance(ta, tuple) and ta[0] == "option"): bad(e, "is None of a non-optional")
                c = "(match %s with None => true | Some _ => false end)" % a
                return (c if isinstance(op, ast.Is) else "(negb %s)" % c), B, ga
            if isinstance(op, (ast.In, ast.NotIn)):
                a, ta, ga = self.expr(e.left, env); b, tb, gb = self.expr(e.comparators[0], env)
                if ta != PS or tb != T_list(PS): bad(e, "membership test")
                c = "(memS %s %s)" % (a, b)
                return (c if isinstance(op, ast.In) else "(negb %s)" % c), B, ga + gb
            if isinstance(op, (ast.Eq, ast.NotEq)):
                a, ta, ga = self.expr(e.left, env)
                if ta == PS:
                    b, tb, gb = self.expr(e.comparators[0], env)
                    if tb != PS: bad(e, "== of a PauliString with something else")
                    c = "(pstr_eqb %s %s)" % (a, b)
                    return (c if isinstance(op, ast.Eq) else "(negb %s)" % c), B, ga + gb
            return None
        return None

    def expr(self, e, env):
        if isinstance(e, (ast.Compare, ast.UnaryOp, ast.Attribute, ast.Constant, ast.BinOp)):
            x = self.expr_extra(e, env)
            if x is not None:
                return x
        return Fn.expr(self, e, env)

    def method_call(self, e):
        if isinstance(e, ast.Call) and isinstance(e.func, ast.Attribute) and isinstance(e.func.value, ast.Name) and e.func.value.id == "self" \
           and not e.keywords and e.func.attr in self.tr.fns:
            fn = self.tr.fns[e.func.attr]
            scope = set(self.vars) | set(self.params)
            if len(e.args) != len(fn.params) - 1: bad(e, "method call arity")
            cs, gs = ["v_self"], []
            for a, (pn, pt) in zip(e.args, list(fn.params.items())[1:]):
                c, t, g = self.expr(a, scope)
                if t != pt: bad(a, "argument type %r, expected %r" % (t, pt))
                cs.append(c); gs += g
            self._call_guards = gs
            return " ".join(cs), fn
        return None

    def module_call(self, e):
        m = self.method_call(e)
        return None if m is None or m[1].pure else m[1]

    def mcall(self, e, bind, rest_text):
        """call of a (possibly mutating) method: bind = None (value dropped) or a Coq pattern for the value"""
        args, fn = self.method_call(e)
        gs = self._call_guards
        if fn.mutating:
            if not self.mutating: bad(e, "mutating call from a method not marked mutating")
            if bind is None:
                body = "(callM (%s %s) (fun _ v_self => %s))" % (fn.coq, args, rest_text)
            else:
                body = "(callMv (%s %s) (fun %s v_self => %s))" % (fn.coq, args, bind, rest_text)
        else:
            if fn.pure:
                body = "(let %s := (%s %s) in %s)" % (bind or "_", fn.coq, args, rest_text)
            elif self.mutating:
                body = "(callMv (%s %s, v_self) (fun %s v_self => %s))" % (fn.coq, args, bind or "_", rest_text)
            else:
                body = "(bindr (%s %s) (fun %s => %s))" % (fn.coq, args, bind or "_", rest_text)
        return self.guard(gs, body)

    def set_field(self, f, c):
        return "(let v_self := set_%s v_self %s in " % (f, c)

    def stmt_extra(self, s, rest, env, k):
        gens_attr = lambda n: isinstance(n, ast.Attribute) and ast.unparse(n) == "self.generators"
        # fields outside the model (the iteration cursor and the recorder), set to constants by the constructor
        if isinstance(s, ast.AnnAssign) and ast.unparse(s.target) in ("self.nextpos", "self.record") and isinstance(s.value, ast.Constant) and self.name == "__init__":
            return self.block(rest, env, k)
        if isinstance(s, ast.AnnAssign) and ast.unparse(s.target) in ("self.generators", "self.classification") and s.value is not None:
            s = ast.copy_location(ast.Assign(targets=[s.target], value=s.value), s)
        if isinstance(s, ast.Assign) and len(s.targets) == 1 and ast.unparse(s.targets[0]) == "self.generators" and isinstance(s.value, ast.List) and not s.value.elts:
            return self.set_field("gens", "[]") + self.block(rest, env, k) + ")"
        # self.generators.sort(): stable, by PauliString.__lt__ (bitarray order)
        if isinstance(s, ast.Expr) and ast.unparse(s.value) == "self.generators.sort()":
            return self.set_field("gens", "(sort_strs (gens v_self))") + self.block(rest, env, k) + ")"
        # self.<field> = ...
        if isinstance(s, ast.Assign) and len(s.targets) == 1 and isinstance(s.targets[0], ast.Attribute) and ast.unparse(s.targets[0]) in ("self.generators", "self.classification"):
            f = "gens" if s.targets[0].attr == "generators" else "cache"
            c, t, g = self.expr(s.value, env)
            want = T_list(PS) if f == "gens" else T_opt(T_list(PS))
            if t != want: bad(s, "field type")
            return self.guard(g, self.set_field(f, c) + self.block(rest, env, k) + ")")
        # self.generators[i] = value   (value may be a call that mutates self: evaluated first)
        if isinstance(s, ast.Assign) and len(s.targets) == 1 and isinstance(s.targets[0], ast.Subscript) and gens_attr(s.targets[0].value):
            ic, it_, ig = self.expr(s.targets[0].slice, env)
            if it_ != Z or ig: bad(s, "index")
            store = lambda v: self.guard([("(idx_ok (gens v_self) %s)" % ic, "Raised EIndex")],
                                         self.set_field("gens", "(list_set (gens v_self) %s %s)" % (ic, v)) + self.block(rest, env, k) + ")")
            if self.method_call(s.value) is not None:
                return self.mcall(s.value, "rhs_", store("rhs_"))
            c, t, g = self.expr(s.value, env)
            if t != PS: bad(s, "stored value")
            return self.guard(g, store(c))
        # x = self.m(...)
        if isinstance(s, ast.Assign) and len(s.targets) == 1 and isinstance(s.targets[0], ast.Name) and self.method_call(s.value) is not None:
            x = s.targets[0].id
            fn = self.method_call(s.value)[1]
            self.declare(x, fn.ret, s)
            return self.mcall(s.value, "v_" + x, self.block(rest, env | {x}, k))
        # self.m(...) as a statement; self.generators.append/insert/remove
        if isinstance(s, ast.Expr) and isinstance(s.value, ast.Call):
            c = s.value
            if self.method_call(c) is not None:
                return self.mcall(c, None, self.block(rest, env, k))
            if isinstance(c.func, ast.Attribute) and gens_attr(c.func.value) and not c.keywords:
                if c.func.attr == "append" and len(c.args) == 1:
                    v, t, g = self.expr(c.args[0], env)
                    if t != PS: bad(s, "append of a non-PauliString")
                    return self.guard(g, self.set_field("gens", "(gens v_self ++ [%s])" % v) + self.block(rest, env, k) + ")")
                if c.func.attr == "insert" and len(c.args) == 2:
                    i, ti, gi_ = self.expr(c.args[0], env); v, t, g = self.expr(c.args[1], env)
                    if ti != Z or t != PS: bad(s, "insert arguments")
                    return self.guard(gi_ + g, self.set_field("gens", "(insert_at (norm_insert (length (gens v_self)) %s) %s (gens v_self))" % (i, v)) + self.block(rest, env, k) + ")")
                if c.func.attr == "remove" and len(c.args) == 1:
                    v, t, g = self.expr(c.args[0], env)
                    if t != PS: bad(s, "remove of a non-PauliString")
                    return self.guard(g + [("(memS %s (gens v_self))" % v, "Raised (EUser \"ValueError\"%string)")],
                                      self.set_field("gens", "(remove1 %s (gens v_self))" % v) + self.block(rest, env, k) + ")")
        # del self.generators[key]
        if isinstance(s, ast.Delete) and len(s.targets) == 1 and isinstance(s.targets[0], ast.Subscript) and gens_attr(s.targets[0].value):
            ic, it_, ig = self.expr(s.targets[0].slice, env)
            if it_ != Z or ig: bad(s, "index")
            return ("(match norm_index (length (gens v_self)) %s with Some k_ => %s%s) | None => Ret (FRaised EIndex, v_self) end)"
                    % (ic, self.set_field("gens", "(delete_at k_ (gens v_self))"), self.block(rest, env, k)))
        if isinstance(s, ast.Return) and self.mutating:
            if s.value is None or (isinstance(s.value, ast.Constant) and s.value.value is None):
                return "Ret (FNone, v_self)"
            c, t, g = self.expr(s.value, env)
            self.set_ret(t, s)
            return self.guard(g, "Ret (FRet %s, v_self)" % c)
        return ModFn.stmt_extra(self, s, rest, env, k)

    def block(self, stmts, env, k):
        if stmts:
            s0 = stmts[0]
            special = (isinstance(s0, ast.Return) and self.mutating) or isinstance(s0, ast.Delete) \
                or (isinstance(s0, ast.AnnAssign) and isinstance(s0.target, ast.Attribute)) \
                or (isinstance(s0, ast.Assign) and len(s0.targets) == 1 and (isinstance(s0.targets[0], (ast.Subscript, ast.Attribute)) or self.method_call(s0.value) is not None)) \
                or (isinstance(s0, ast.Expr) and isinstance(s0.value, ast.Call) and isinstance(s0.value.func, ast.Attribute)
                    and (self.method_call(s0.value) is not None or ast.unparse(s0.value.func.value) == "self.generators"))
            if special:
                x = self.stmt_extra(s0, stmts[1:], env, k)
                if x is not None:
                    return x
        return ModFn.block(self, stmts, env, k)

    def emit(self):
        if not self.mutating:
            return ModFn.emit(self)
        self.prepare()
        body = self.node.body
        ps = " ".join("(v_%s : %s)" % (n, coq_type(t)) for n, t in self.params.items())
        env0 = {"self"}
        self.block(body, env0, None)
        term = self.block(body, env0, None)
        rt = self.ret if self.ret is not None else COLL
        inits = "".join("let v_%s : %s := %s in " % (v, coq_type(t), default(t, self.tr.enums)) for v, t in self.vars.items() if v not in self.params)
        return ("(* %s (mutates self), lines %d-%d; state = (%s); result = (returned value, self afterwards) *)\nDefinition %s %s : fres %s * coll :=\n  %s@finishM %s _ _ (fun %s => v_self) v_self (%s)." % (
            self.name, self.node.lineno, self.node.end_lineno, ", ".join(self.vars), self.coq, ps, coq_type(rt), inits, self.state_type(), pat(self.state()), term))


class CollTranslator:
    WANT = ["__len__", "find", "__delitem__", "expand", "_processing", "append", "insert", "remove", "replace", "contract", "get_class", "sort", "__init__"]
    def __init__(self, repo):
        self.path = os.path.join(repo, "src", "paulie", "common", "pauli_string_collection.py")
        self.tree = ast.parse(open(self.path, newline=None, encoding="utf-8-sig").read())
        self.enums, self.exns, self.fns = {}, [], {}
        cls = [n for n in self.tree.body if isinstance(n, ast.ClassDef) and n.name == "PauliStringCollection"]
        if len(cls) != 1: raise Unsupported("class PauliStringCollection not found")
        self.defs = {f.name: f for f in cls[0].body if isinstance(f, ast.FunctionDef)}
        # PauliString.expand / copy: the contracts above are their source text, pinned
        ps = ast.parse(open(os.path.join(repo, "src", "paulie", "common", "pauli_string_bitarray.py"), newline=None, encoding="utf-8-sig").read())
        pdefs = {f.name: f for c in ps.body if isinstance(c, ast.ClassDef) and c.name == "PauliString" for f in c.body if isinstance(f, ast.FunctionDef)}
        def body_of(n):
            return [ast.unparse(x) for x in n.body if not (isinstance(x, ast.Expr) and isinstance(x.value, ast.Constant))]
        if body_of(pdefs["expand"]) != ["return self + PauliString(n=n - len(self))"]: raise Unsupported("PauliString.expand changed")
        if body_of(pdefs["copy"]) != ["return PauliString(bits=self.bits)"]: raise Unsupported("PauliString.copy changed")
        if body_of(pdefs["__add__"]) != ["other = self._ensure_pauli_string(other)", "return self.tensor(other)"]: raise Unsupported("PauliString.__add__ changed")
        if body_of(pdefs["__lt__"]) != ["other = self._ensure_pauli_string(other)", "return self.bits < other.bits"]: raise Unsupported("PauliString.__lt__ changed")

    def run(self):
        out = ["(* GENERATED by tools/py2coq.py from src/paulie/common/pauli_string_collection.py — do not edit *)",
               "From PauLieRefine Require Import PySem.", "From PauLie Require Import Pauli Collection.", "Open Scope Z_scope.", "",
               "Definition set_gens (s : coll) (l : list pstr) : coll := {| gens := l; cache := cache s |}.",
               "Definition set_cache (s : coll) (c : option (list pstr)) : coll := {| gens := gens s; cache := c |}.", ""]
        for name in self.WANT:
            node = self.defs.get(name)
            if node is None: raise Unsupported("PauliStringCollection.%s not found in the source" % name)
            f = CollFn(self, node)
            self.fns[name] = f      # registered before emit so that recursion is rejected by arity/type checks, and mutating is known
            out.append(f.emit()); out.append("")
        return "\n".join(out)


class ParserFn(ModFn):
    """a function of common/pauli_string_parser.py.  Python str = list of ASCII characters (non-ASCII text is outside the model);
    s[i] is the one-character string at Python index i (IndexError outside); s[a:], s[:b] are Python slices; s.find of the one-character
    SIZE; x in GATES / TOKENS = x is one of those one-character strings; x in DIGITS = x is a substring of "0123456789";
    int(x) = the decimal value, used only where x is a non-empty string of ASCII digits (anything else leaves the model: NonInt);
    "".join(["I" for _ in range(k)]) = k letters I; while loops run on fuel (OutOfFuel when it does not suffice)."""
    CONSTS = {"LOWCASE": '["_"%char]', "SIZE": '["s"%char]'}
    def __init__(self, tr, node):
        Fn.__init__(self, tr, None, node)
        self.coq = "py_P_" + node.name.lstrip("_")
        self.params = {}
        for a in node.args.args:
            txt = ast.unparse(a.annotation) if a.annotation is not None else None
            if txt != "str": bad(a, "parameter annotation %r" % txt)
            self.params[a.arg] = STRT
        self.self_t = None
        self.narrow = set()
        self.fuel = any(isinstance(x, ast.While) for x in ast.walk(node)) or any(
            isinstance(x, ast.Call) and isinstance(x.func, ast.Name) and x.func.id in tr.fns and tr.fns[x.func.id].fuel for x in ast.walk(node))

    def ann_type(self, a, node):
        bad(node, "annotation")

    def expr(self, e, env):
        if isinstance(e, (ast.Compare, ast.UnaryOp, ast.Constant, ast.Subscript, ast.Name, ast.BinOp)):
            x = self.expr_extra(e, env)
            if x is not None:
                return x
        return Fn.expr(self, e, env)

    def str_lit(self, node, v):
        if not v.isascii() or any(ch in v for ch in '"\\\n'): bad(node, "string literal")
        return "[" + "; ".join('"%s"%%char' % ch for ch in v) + "]"

    def expr_extra(self, e, env):
        if isinstance(e, ast.Name):
            if e.id in self.CONSTS: return self.CONSTS[e.id], STRT, []
            if e.id in self.narrow: return "(unopt_z v_%s)" % e.id, Z, []
            return None
        if isinstance(e, ast.Constant):
            if isinstance(e.value, str): return self.str_lit(e, e.value), STRT, []
            if e.value is None: return "None", T_opt(Z), []
            return None
        if isinstance(e, ast.Subscript):
            c, t, g = self.expr(e.value, env)
            if t != STRT: bad(e, "subscript of a non-str")
            sl = e.slice
            if isinstance(sl, ast.Slice):
                if sl.step is not None: bad(e, "slice step")
                if sl.lower is not None and sl.upper is None:
                    a, ta, ga = self.expr(sl.lower, env)
                    if ta != Z: bad(e, "slice bound")
                    return "(slice_from %s %s)" % (c, a), STRT, g + ga
                if sl.lower is None and sl.upper is not None:
                    a, ta, ga = self.expr(sl.upper, env)
                    if ta != Z: bad(e, "slice bound")
                    return "(slice_to %s %s)" % (c, a), STRT, g + ga
                bad(e, "slice shape")
            ic, it_, ig = self.expr(sl, env)
            if it_ != Z: bad(e, "index must be int")
            return "[list_get \" \"%%char %s %s]" % (c, ic), STRT, g + ig + [("(idx_ok %s %s)" % (c, ic), "Raised EIndex")]
        if isinstance(e, ast.UnaryOp) and isinstance(e.op, ast.Not):
            c, t, g = self.expr(e.operand, env)
            if t == STRT: return "(match %s with [] => true | _ => false end)" % c, B, g
            return None
        if isinstance(e, ast.UnaryOp) and isinstance(e.op, ast.USub) and isinstance(e.operand, ast.Constant) and isinstance(e.operand.value, int):
            return "(-%d)" % e.operand.value, Z, []
        if isinstance(e, ast.BinOp) and isinstance(e.op, ast.Add):
            a, ta, ga = self.expr(e.left, env)
            if ta == STRT:
                b, tb, gb = self.expr(e.right, env)
                if tb != STRT: bad(e, "str + non-str")
                return "(%s ++ %s)" % (a, b), STRT, ga + gb
            return None
        if isinstance(e, ast.BoolOp) and isinstance(e.op, ast.Or):
            return None
        if isinstance(e, ast.Compare) and len(e.ops) == 1:
            op = e.ops[0]
            if isinstance(op, (ast.In, ast.NotIn)) and isinstance(e.comparators[0], ast.Name) and e.comparators[0].id in ("GATES", "TOKENS", "DIGITS"):
                a, ta, ga = self.expr(e.left, env)
                if ta != STRT: bad(e, "membership of a non-str")
                c = "(in_%s %s)" % (e.comparators[0].id, a)
                return (c if isinstance(op, ast.In) else "(negb %s)" % c), B, ga
            if isinstance(op, (ast.Is, ast.IsNot)) and isinstance(e.comparators[0], ast.Constant) and e.comparators[0].value is None:
                if not isinstance(e.left, ast.Name) or self.vars.get(e.left.id) != T_opt(Z): bad(e, "is None of a non-optional")
                c = "(match v_%s with None => true | Some _ => false end)" % e.left.id
                return (c if isinstance(op, ast.Is) else "(negb %s)" % c), B, []
            if isinstance(op, (ast.Eq, ast.NotEq)):
                a, ta, ga = self.expr(e.left, env)
                if ta == STRT:
                    b, tb, gb = self.expr(e.comparators[0], env)
                    if tb != STRT: bad(e, "== of str with non-str")
                    c = "(str_eqb %s %s)" % (a, b)
                    return (c if isinstance(op, ast.Eq) else "(negb %s)" % c), B, ga + gb
            return None
        if isinstance(e, ast.Call):
            f = e.func
            if e.keywords: bad(e, "keyword arguments")
            if ast.dump(e) == ast.dump(ast.parse('"".join(["I" for _ in range(0)])', mode="eval").body).replace("Constant(value=0)", ast.dump(e.args[0].elt and e.args[0].generators[0].iter.args[0]) if isinstance(e.args[0], ast.ListComp) and e.args[0].generators and isinstance(e.args[0].generators[0].iter, ast.Call) and e.args[0].generators[0].iter.args else "?"):
                k_ = e.args[0].generators[0].iter.args[0]
                c, t, g = self.expr(k_, env)
                if t != Z: bad(e, "repeat count")
                return "(repeat \"I\"%%char (Z.to_nat %s))" % c, STRT, g
            if isinstance(f, ast.Name) and f.id == "len" and len(e.args) == 1:
                c, t, g = self.expr(e.args[0], env)
                if t != STRT: bad(e, "len of a non-str")
                return "(Z.of_nat (length %s))" % c, Z, g
            if isinstance(f, ast.Name) and f.id == "int" and len(e.args) == 1:
                c, t, g = self.expr(e.args[0], env)
                if t != STRT: bad(e, "int of a non-str")
                return "(int_of_digits %s)" % c, Z, g + [("(all_digits %s)" % c, "NonInt")]
            if isinstance(f, ast.Name) and f.id == "any" and len(e.args) == 1 and isinstance(e.args[0], ast.GeneratorExp):
                ge = e.args[0]
                if len(ge.generators) != 1 or ge.generators[0].ifs or not isinstance(ge.generators[0].target, ast.Name): bad(e, "generator shape")
                x = ge.generators[0].target.id
                it, tit, git = self.expr(ge.generators[0].iter, env)
                if tit != STRT: bad(e, "any over a non-str")
                if x in self.vars or x in self.params: bad(e, "generator variable shadows a local")
                self.vars[x] = STRT
                try:
                    c, t, g = self.expr(ge.elt, env | {x})
                finally:
                    del self.vars[x]
                if t != B or g: bad(e, "any of a non-bool or guarded element")
                return "(existsb (fun v_%s => %s) (chars %s))" % (x, c, it), B, git
            if isinstance(f, ast.Attribute) and f.attr == "find" and len(e.args) == 1 and isinstance(e.args[0], ast.Name) and e.args[0].id == "SIZE":
                c, t, g = self.expr(f.value, env)
                if t != STRT: bad(e, "find on a non-str")
                return "(str_find %s \"s\"%%char)" % c, Z, g
            if isinstance(f, ast.Name) and f.id in self.tr.fns:
                fn = self.tr.fns[f.id]
                if not fn.pure: bad(e, "call of %s inside an expression" % f.id)
                cs, gs = [], []
                for a in e.args:
                    c, t, g = self.expr(a, env)
                    if t != STRT: bad(a, "argument type")
                    cs.append(c); gs += g
                return "(%s %s)" % (fn.coq, " ".join(cs)), fn.ret, gs
            return None
        return None

    def module_call(self, e):
        if isinstance(e, ast.Call) and isinstance(e.func, ast.Name) and e.func.id in self.tr.fns and not e.keywords:
            fn = self.tr.fns[e.func.id]
            return None if fn.pure else fn
        return None

    def method_call(self, e):
        fn = self.module_call(e)
        if fn is None: return None
        cs, gs = (["fuel"] if fn.fuel else []), []
        for a in e.args:
            c, t, g = self.expr(a, set(self.vars) | set(self.params))
            if t != STRT: bad(a, "argument type")
            cs.append(c); gs += g
        self._call_guards = gs
        return " ".join(cs), fn

    def block(self, stmts, env, k):
        if not stmts:
            return Fn.block(self, stmts, env, k)
        s, rest = stmts[0], stmts[1:]
        # try: ... except ValueError as e: raise e   is transparent
        if isinstance(s, ast.Try):
            if s.orelse or s.finalbody or len(s.handlers) != 1 or ast.unparse(s.handlers[0]).split() != "except ValueError as e: raise e".split():
                bad(s, "try statement other than `except ValueError as e: raise e`")
            return self.block(s.body + rest, env, k)
        if isinstance(s, ast.While):
            if s.orelse: bad(s, "while-else")
            c, t, g = self.expr(s.test, env)
            if t != B or g: bad(s, "loop condition must be an unguarded bool")
            body = self.block(s.body, env, None)
            cont = self.block(rest, env, k)
            return "(seqo (while_loop fuel (fun %s => %s) (fun %s => %s) %s) (fun %s => %s))" % (
                pat(self.state()), c, pat(self.state()), body, tup(self.state()), pat(self.state()), cont)
        # x = <call raising> with guards on the arguments; optional ints; str +=
        if isinstance(s, ast.Assign) and len(s.targets) == 1 and isinstance(s.targets[0], ast.Name):
            x = s.targets[0].id
            if isinstance(s.value, ast.Constant) and s.value.value is None:
                self.declare(x, T_opt(Z), s)
                return "(let v_%s : option Z := None in %s)" % (x, self.block(rest, env | {x}, k))
            m = self.method_call(s.value)
            if m is not None:
                args, fn = m
                if self.vars.get(x) == T_opt(Z) and fn.ret == Z:
                    return self.guard(self._call_guards, "(bindr (%s %s) (fun r_ => let v_%s := Some r_ in %s))" % (fn.coq, args, x, self.block(rest, env | {x}, k)))
                self.declare(x, fn.ret, s)
                return self.guard(self._call_guards, "(bindr (%s %s) (fun v_%s => %s))" % (fn.coq, args, x, self.block(rest, env | {x}, k)))
        if isinstance(s, ast.AugAssign) and isinstance(s.op, ast.Add) and isinstance(s.target, ast.Name) and self.vars.get(s.target.id) == STRT:
            x = s.target.id
            if x not in env: bad(s, "+= on an unassigned name")
            c, t, g = self.expr(s.value, env)
            if t != STRT: bad(s, "str += non-str")
            return self.guard(g, "(let v_%s := (v_%s ++ %s) in %s)" % (x, x, c, self.block(rest, env, k)))
        if isinstance(s, ast.If):
            # `if _is_number(c):` — a raising call as the test; `if x is not None:` narrows x to int inside the body
            m = self.method_call(s.test)
            if m is not None:
                args, fn = m
                if fn.ret != B: bad(s, "if on a non-bool call")
                a = self.block(s.body, env, None); b = self.block(s.orelse, env, None)
                cont = self.block(rest, self.after_if(s, env), k)
                return self.guard(self._call_guards, "(bindr (%s %s) (fun c_ => seqo (if c_ then %s else %s) (fun %s => %s)))" % (fn.coq, args, a, b, pat(self.state()), cont))
            t_ = s.test
            if isinstance(t_, ast.Compare) and len(t_.ops) == 1 and isinstance(t_.ops[0], ast.IsNot) and isinstance(t_.left, ast.Name) \
               and isinstance(t_.comparators[0], ast.Constant) and t_.comparators[0].value is None and not s.orelse:
                x = t_.left.id
                c, t, g = self.expr(t_, env)
                self.narrow.add(x)
                try:
                    a = self.block(s.body, env, None)
                finally:
                    self.narrow.discard(x)
                cont = self.block(rest, self.after_if(s, env), k)
                return "(seqo (if %s then %s else Next %s) (fun %s => %s))" % (c, a, tup(self.state()), pat(self.state()), cont)
        return Fn.block(self, stmts, env, k)

    def prepare(self):
        node = self.node
        if node.args.vararg or node.args.kwarg or node.args.kwonlyargs or node.decorator_list or node.args.defaults:
            bad(node, "signature")
        body = [s for s in node.body if not (isinstance(s, ast.Expr) and isinstance(s.value, ast.Constant))]
        self.ann = {}
        self.pure = False
        if len(body) == 1 and isinstance(body[0], ast.Return) and self.module_call(body[0].value) is None:
            c, t, g = self.expr(body[0].value, set())
            self.pure = not g

    def emit(self):
        self.prepare()
        body = self.node.body
        ps = ("(fuel : nat) " if self.fuel else "") + " ".join("(v_%s : %s)" % (n, coq_type(t)) for n, t in self.params.items())
        if self.pure:
            ret = [s for s in body if isinstance(s, ast.Return)][0]
            c, t, g = self.expr(ret.value, set())
            self.ret = t
            return "Definition %s %s : %s := %s." % (self.coq, ps, coq_type(t), c)
        self.block(body, set(), None)
        term = self.block(body, set(), None)
        if self.ret is None: bad(self.node, "no return type")
        inits = "".join("let v_%s : %s := %s in " % (v, coq_type(t), default(t, self.tr.enums)) for v, t in self.vars.items() if v not in self.params)
        return ("(* %s, lines %d-%d; state = (%s) *)\nDefinition %s %s : fres %s :=\n  %s@finish %s _ (%s)." % (
            self.name, self.node.lineno, self.node.end_lineno, ", ".join(self.vars), self.coq, ps, coq_type(self.ret), inits, self.state_type(), term))


class ParserTranslator:
    WANT = ["_is_token", "_is_number", "_to_int", "pauli_string_parser"]
    HEADER = ['LOWCASE = \'_\'', 'SIZE = \'s\'', 'DIGITS = \'0123456789\'', "GATES = {'I', 'X', 'Y', 'Z'}", 'TOKENS = GATES.copy()', 'TOKENS.add(LOWCASE)', 'TOKENS.add(SIZE)']
    def __init__(self, repo):
        self.path = os.path.join(repo, "src", "paulie", "common", "pauli_string_parser.py")
        self.tree = ast.parse(open(self.path, newline=None, encoding="utf-8-sig").read())
        self.enums, self.exns, self.fns = {}, [], {}
        head = [ast.unparse(n) for n in self.tree.body if not isinstance(n, ast.FunctionDef) and not (isinstance(n, ast.Expr) and isinstance(n.value, ast.Constant))]
        if head != self.HEADER:
            raise Unsupported("module constants changed: %r" % (head,))
        self.defs = {n.name: n for n in self.tree.body if isinstance(n, ast.FunctionDef)}

    def run(self):
        out = ["(* GENERATED by tools/py2coq.py from src/paulie/common/pauli_string_parser.py — do not edit *)",
               "From PauLieRefine Require Import PySem.", "From PauLie Require Import Pauli Parser.", "Open Scope Z_scope.", "",
               "(* module constants: GATES = {I,X,Y,Z}, TOKENS = GATES + {_, s} (sets of one-character strings), DIGITS = \"0123456789\" (a string: `in` is the substring test) *)",
               "Definition in_GATES (x : list ascii) : bool := match x with [c] => is_gate c | _ => false end.",
               "Definition in_TOKENS (x : list ascii) : bool := match x with [c] => is_token c | _ => false end.",
               "Definition in_DIGITS (x : list ascii) : bool := substr_b x [\"0\"; \"1\"; \"2\"; \"3\"; \"4\"; \"5\"; \"6\"; \"7\"; \"8\"; \"9\"]%char.",
               "Definition all_digits (x : list ascii) : bool := match x with [] => false | _ => forallb is_digit x end.",
               "Definition int_of_digits (x : list ascii) : Z := match digits_val 0 x with Some n => Z.of_N n | None => 0 end.",
               "Definition unopt_z (o : option Z) : Z := match o with Some z => z | None => 0 end.", ""]
        for name in self.WANT:
            node = self.defs.get(name)
            if node is None: raise Unsupported("%s not found in the source" % name)
            f = ParserFn(self, node)
            self.fns[name] = f
            out.append(f.emit()); out.append("")
        return "\n".join(out)


class TableFn(ModFn):
    """a function of common/two_local_generators.py: f-strings over arithmetic in n (token lists), `match n % k` with literal cases"""
    def __init__(self, tr, node):
        Fn.__init__(self, tr, None, node)
        self.coq = "py_T_" + node.name.lstrip("_")
        self.params = {}
        for a in node.args.args:
            if ast.unparse(a.annotation) != "int": bad(a, "parameter annotation")
            self.params[a.arg] = Z
        self.self_t = None

    def expr_extra(self, e, env):
        if isinstance(e, ast.BinOp) and isinstance(e.op, ast.Mod) and isinstance(e.right, ast.Constant) and isinstance(e.right.value, int) and e.right.value > 0:
            a, ta, ga = self.expr(e.left, env)
            if ta != Z: bad(e, "% of non-int")
            return "(%s mod %d)" % (a, e.right.value), Z, ga
        return None

    def module_call(self, e):
        if isinstance(e, ast.Call) and isinstance(e.func, ast.Name) and e.func.id in self.tr.fns and not e.keywords:
            return self.tr.fns[e.func.id]
        return None

    def block(self, stmts, env, k):
        if stmts and isinstance(stmts[0], ast.Match):
            s, rest = stmts[0], stmts[1:]
            c, t, g = self.expr(s.subject, env)
            if t != Z or g: bad(s, "match subject must be an unguarded int")
            def pattern(p):
                if isinstance(p, ast.MatchValue) and isinstance(p.value, ast.Constant) and isinstance(p.value.value, int):
                    return ["(subj_ =? %d)" % p.value.value]
                if isinstance(p, ast.MatchOr):
                    return [x for q in p.patterns for x in pattern(q)]
                bad(p, "match pattern")
            cont = self.block(rest, env, k)
            term = "Next %s" % tup(self.state())
            for case in reversed(s.cases):
                if case.guard is not None: bad(case, "case guard")
                term = "(if (%s) then %s else %s)" % (" || ".join(pattern(case.pattern)), self.block(case.body, env, None), term)
            return "(let subj_ := %s in seqo %s (fun %s => %s))" % (c, term, pat(self.state()), cont)
        return ModFn.block(self, stmts, env, k)

    def emit(self):
        body = [s for s in self.node.body if not (isinstance(s, ast.Expr) and isinstance(s.value, ast.Constant))]
        # the table itself: return { "name": f"...", "name": _aN(n), ... }
        if len(body) == 1 and isinstance(body[0], ast.Return) and isinstance(body[0].value, ast.Dict):
            d = body[0].value
            rows = []
            for kx, vx in zip(d.keys, d.values):
                if not (isinstance(kx, ast.Constant) and isinstance(kx.value, str) and kx.value.isalnum()): bad(kx, "table key")
                if isinstance(vx, ast.Call):
                    fn = self.module_call(vx)
                    if fn is None or len(vx.args) != 1: bad(vx, "table entry call")
                    a, ta, ga = self.expr(vx.args[0], set())
                    if ta != Z or ga: bad(vx, "table entry argument")
                    val = "(%s %s)" % (fn.coq, a)
                else:
                    c, t, g = self.expr(vx, set())
                    if t != STR: bad(vx, "table entry must be an f-string")
                    val = "FRet %s" % c
                    for gb, o in reversed(g):
                        val = "(if %s then %s else F%s)" % (gb, val, o)
                rows.append('("%s"%%string, %s)' % (kx.value, val))
            self.pure, self.ret = True, ("table",)
            ps = " ".join("(v_%s : Z)" % n for n in self.params)
            return "Definition %s %s : list (string * fres pystr) :=\n  [%s]." % (self.coq, ps, ";\n   ".join(rows))
        return ModFn.emit(self)


class TableTranslator:
    def __init__(self, repo):
        self.path = os.path.join(repo, "src", "paulie", "common", "two_local_generators.py")
        self.tree = ast.parse(open(self.path, newline=None, encoding="utf-8-sig").read())
        self.enums, self.exns, self.fns = {}, [], {}
        self.defs = {n.name: n for n in self.tree.body if isinstance(n, ast.FunctionDef)}
        g = [n for n in self.tree.body if isinstance(n, ast.AnnAssign) and isinstance(n.target, ast.Name) and n.target.id == "G_LIE"]
        if len(g) != 1 or not isinstance(g[0].value, ast.Dict): raise Unsupported("G_LIE is no longer a dictionary literal")
        self.glie = g[0].value

    def run(self):
        out = ["(* GENERATED by tools/py2coq.py from src/paulie/common/two_local_generators.py — do not edit *)",
               "From PauLieRefine Require Import PySem.", "From PauLie Require Import Pauli.", "Open Scope Z_scope.", ""]
        rows = []
        for kx, vx in zip(self.glie.keys, self.glie.values):
            if not (isinstance(kx, ast.Constant) and isinstance(kx.value, str) and kx.value.isalnum()): bad(kx, "G_LIE key")
            if not (isinstance(vx, ast.List) and all(isinstance(x, ast.Constant) and isinstance(x.value, str) and x.value and set(x.value) <= set("IXYZ") for x in vx.elts)):
                bad(vx, "G_LIE entry must be a list of IXYZ strings")
            rows.append('("%s"%%string, [%s])' % (kx.value, "; ".join("[" + "; ".join("P" + ch for ch in x.value) + "]" for x in vx.elts)))
        out.append("(* G_LIE: generators of the named two-local families *)\nDefinition py_T_G_LIE : list (string * list pstr) :=\n  [%s].\n" % ";\n   ".join(rows))
        names = [n.name for n in self.tree.body if isinstance(n, ast.FunctionDef) and n.name.startswith("_a")] + ["two_local_algebras"]
        for name in names:
            f = TableFn(self, self.defs[name])
            self.fns[name] = f
            out.append(f.emit()); out.append("")
        return "\n".join(out)


class Specialise(ast.NodeTransformer):
    """constant-propagate one parameter: mode true/false replaces every read of a bool parameter; mode none/some decides
    `p is None` / `p is not None`; `if <constant>` is folded.  One Gallina function per specialisation."""
    def __init__(self, name, mode):
        self.name, self.mode = name, mode
    def visit_Compare(self, n):
        if self.mode in ("none", "some") and isinstance(n.left, ast.Name) and n.left.id == self.name and len(n.ops) == 1 \
           and isinstance(n.ops[0], (ast.Is, ast.IsNot)) and isinstance(n.comparators[0], ast.Constant) and n.comparators[0].value is None:
            return ast.copy_location(ast.Constant(value=(self.mode == "none") == isinstance(n.ops[0], ast.Is)), n)
        return self.generic_visit(n)
    def visit_Name(self, n):
        if self.mode in ("true", "false") and n.id == self.name and isinstance(n.ctx, ast.Load):
            return ast.copy_location(ast.Constant(value=self.mode == "true"), n)
        return n
    def visit_If(self, n):
        n = self.generic_visit(n)
        if isinstance(n.test, ast.Constant) and isinstance(n.test.value, bool):
            return n.body if n.test.value else n.orelse
        return n


def is_nil(c): return "(match %s with [] => true | _ => false end)" % c
VERR = "Raised (EUser \"ValueError\"%string)"


class AppFn(ModFn):
    """a function of the graph / orbit applications (common/get_graph.py, application/otoc.py, fourpoint.py, charges.py) or a read-only
    method of PauliStringCollection / PauliString, at the level of Pauli strings (Model/Pauli.pstr).  Contracts (trusted; each is either
    a theorem of Refine/PSRefine.v or Refine/CollRefine.v about the source, or pinned source text, or Python's own semantics):
    a ^ b = adjoint_code a b, a | b = a.commutes_with(b) = commutes_code a b, a @ b = multiply_code a b (ValueError on unequal lengths),
    a == b = pstr_eqb, str(a) = the string itself, bool(a) = (len(a) != 0) [PauliString defines __len__ and no __bool__];
    a PauliStringCollection read through len / iteration / `in` / truthiness is the list of its strings (its __len__, __iter__, __next__ are
    pinned); PauliStringCollection(l) holds gens (mk l); c.append(p) on a collection is the model's Append transition;
    PauliString(n=k) = identity k; p.gen_all_pauli_strings() = gen_all (len p) [Model/PauliBits.v, source pinned];
    itertools.combinations(l, 2) = pairs_of l; set() / deque are lists (add = insert if absent, popleft = head, append = at the end);
    int / int = the exact rational (the float the source computes is not modelled); a dict is an association list in insertion order;
    while loops run on fuel."""
    def __init__(self, tr, node, cls, coq, drop=(), orig=None):
        Fn.__init__(self, tr, None, node)
        self.cls, self.coq = cls, coq
        self.params, self.defaults = {}, {}
        args = node.args.args
        if node.args.vararg or node.args.kwarg or node.args.kwonlyargs or node.decorator_list: bad(node, "signature")
        dfl = [None] * (len(args) - len(node.args.defaults)) + list(node.args.defaults)
        for a, d in zip(args, dfl):
            if a.arg in drop: continue
            if a.arg == "self":
                self.params["self"] = CL if cls == "PauliStringCollection" else PS
                continue
            self.params[a.arg] = self.ann_type(a.annotation, a)
            if d is not None:
                if not (isinstance(d, ast.Constant) and d.value is None and self.params[a.arg] == T_list(PS)): bad(a, "default value")
                self.defaults[a.arg] = "[]"
        self.self_t = None
        self.narrow = set()
        self.qret = False
        self.fuel = any(isinstance(x, ast.While) for x in ast.walk(node)) or any(
            isinstance(x, ast.Call) and isinstance(x.func, ast.Name) and ("", x.func.id) in tr.families and any(f.fuel for f in tr.families[("", x.func.id)]["fns"].values())
            for x in ast.walk(node))
        stored = {n.id for n in ast.walk(node) if isinstance(n, ast.Name) and isinstance(n.ctx, ast.Store)}
        self.reassigned = [p for p in self.params if p in stored]
        for p in self.reassigned: self.vars[p] = self.params[p]
        # container variables: typed by their first use
        self.ctypes = {}
        for x in ast.walk(orig if orig is not None else node):
            if isinstance(x, ast.Call) and isinstance(x.func, ast.Attribute) and isinstance(x.func.value, ast.Name) and x.func.attr in ("append", "add") and len(x.args) == 1:
                self.ctypes.setdefault(x.func.value.id, self.guess(x.args[0]))
            if isinstance(x, ast.Assign) and len(x.targets) == 1 and isinstance(x.targets[0], ast.Subscript) and isinstance(x.targets[0].value, ast.Name):
                self.ctypes.setdefault(x.targets[0].value.id, (self.guess(x.targets[0].slice), self.guess(x.value)))

    def guess(self, e):
        """type of a stored element, guessed from its shape; a wrong guess is rejected when the store itself is translated"""
        if isinstance(e, ast.Tuple): return T_tuple([self.guess(x) for x in e.elts])
        return PS

    def ann_type(self, a, node):
        txt = ast.unparse(a) if a is not None else None
        tbl = {"int": Z, "bool": B, "PauliString": PS, "list[PauliString]": T_list(PS), "list[PauliString] | None": T_list(PS),
               "PauliStringCollection": CL, "Union[list[PauliString] | PauliStringCollection | None]": T_list(PS)}
        if txt not in tbl: bad(node, "annotation %r" % txt)
        return tbl[txt]

    @staticmethod
    def listy(t): return t in (CL, SETT) or (isinstance(t, tuple) and t[0] == "list")
    @staticmethod
    def same(a, b): return a == b or (a in (CL, T_list(PS)) and b in (CL, T_list(PS)))

    def eqb_of(self, t):
        if t == PS: return "pstr_eqb"
        if isinstance(t, tuple) and t[0] == "tuple" and len(t[1]) == 2:
            return "(fun a_ b_ => %s (fst a_) (fst b_) && %s (snd a_) (snd b_))" % (self.eqb_of(t[1][0]), self.eqb_of(t[1][1]))
        raise Unsupported("no equality for keys of type %r" % (t,))

    # ----- truthiness -----
    def truthy(self, e, env):
        """-> (coq bool, guards, name narrowed to a PauliString when true or None)"""
        if isinstance(e, ast.Name) and e.id not in self.narrow and e.id in env and self.vars.get(e.id) == T_opt(PS):
            return "(opt_truthy v_%s)" % e.id, [], e.id
        c, t, g = self.expr(e, env)
        if t == B: return c, g, None
        if self.listy(t): return "(negb %s)" % is_nil(c), g, None
        bad(e, "truth value of %r" % (t,))

    def narrow_names(self, e, env):
        if isinstance(e, ast.Name) and e.id in env and self.vars.get(e.id) == T_opt(PS) and e.id not in self.narrow: return [e.id]
        if isinstance(e, ast.BoolOp) and isinstance(e.op, ast.And): return [n for v in e.values for n in self.narrow_names(v, env)]
        return []

    def test(self, e, env):
        c, g, _ = self.truthy(e, env)
        return c, B, g

    # ----- calls of translated functions -----
    def resolve(self, e):
        """a call of a translated function / method -> (Fn, [receiver and argument nodes in parameter order, or Coq text for defaults])"""
        if not isinstance(e, ast.Call): return None
        f = e.func
        recv, fam = None, None
        if isinstance(f, ast.Name) and ("", f.id) in self.tr.families:
            fam = self.tr.families[("", f.id)]
        elif isinstance(f, ast.Attribute):
            scope = set(self.vars) | set(self.params)
            try:
                _, t, _ = self.expr(f.value, scope)
            except Unsupported:
                return None
            cls = "PauliStringCollection" if t == CL else ("PauliString" if t == PS else None)
            if (cls, f.attr) in self.tr.families:
                fam, recv = self.tr.families[(cls, f.attr)], f.value
        if fam is None: return None
        kw = {k.arg: k.value for k in e.keywords}
        key = "default"
        if fam["spec"] is not None:
            sp = fam["spec"]
            if sp in kw:
                v = kw.pop(sp)
                if not (isinstance(v, ast.Constant) and isinstance(v.value, bool)): bad(e, "the specialised parameter %s must be passed a literal" % sp)
                key = "true" if v.value else "false"
            else:
                key = fam["default"]
        fn = fam["fns"][key]
        names = [p for p in fn.params if p != "self"]
        if len(e.args) > len(names): bad(e, "arity")
        given = dict(zip(names, e.args))
        for k, v in kw.items():
            if k not in names or k in given: bad(e, "keyword argument %s" % k)
            given[k] = v
        out = [recv] if recv is not None else []
        for p in names:
            if p in given: out.append(given[p])
            elif p in fn.defaults: out.append(fn.defaults[p])
            else: bad(e, "missing argument %s" % p)
        return fn, out

    def method_call(self, e):
        r = self.resolve(e)
        if r is None: return None
        fn, nodes = r
        scope = set(self.vars) | set(self.params)
        cs = ["fuel"] if fn.fuel else []
        self._call_guards = []
        for a, (pn, pt) in zip(nodes, fn.params.items()):
            if isinstance(a, str):
                cs.append(a); continue
            c, t, g = self.expr(a, scope)
            if not self.same(t, pt): bad(a, "argument of a call must be a %r, found %r" % (pt, t))
            self._call_guards += g
            cs.append(c)
        return " ".join(cs), fn

    def module_call(self, e):
        m = self.method_call(e)
        return None if m is None or m[1].pure else m[1]

    # ----- expressions -----
    def expr(self, e, env):
        x = self.expr_extra(e, env)
        if x is not None:
            return x
        return Fn.expr(self, e, env)

    def pair_op(self, e, env, a_node, b_node, what):
        a, ta, ga = self.expr(a_node, env); b, tb, gb = self.expr(b_node, env)
        if ta != PS or tb != PS: bad(e, "%s of non-PauliStrings (%r, %r)" % (what, ta, tb))
        return a, b, ga + gb

    def expr_extra(self, e, env):
        if isinstance(e, ast.Name):
            if e.id in self.narrow: return "(unopt v_%s)" % e.id, PS, []
            return None
        if isinstance(e, ast.Attribute):
            if ast.unparse(e) == "self.generators" and self.cls == "PauliStringCollection": return "v_self", T_list(PS), []
            return None
        if isinstance(e, ast.List):
            parts = [self.expr(v, env) for v in e.elts]
            if not parts: bad(e, "empty list literal in an expression")
            if any(t != parts[0][1] for _, t, _ in parts): bad(e, "list literal of mixed types")
            return "[" + "; ".join(c for c, _, _ in parts) + "]", T_list(parts[0][1]), [g for _, _, gs in parts for g in gs]
        if isinstance(e, ast.Subscript) and not isinstance(e.slice, ast.Slice):
            c, t, g = self.expr(e.value, env)
            if t not in (T_list(PS), CL): return None
            ic, it_, ig = self.expr(e.slice, env)
            if it_ != Z: bad(e, "index must be int")
            return "(list_get [] %s %s)" % (c, ic), PS, g + ig + [("(idx_ok %s %s)" % (c, ic), "Raised EIndex")]
        if isinstance(e, ast.Call):
            f = e.func
            src = ast.unparse(e)
            if isinstance(f, ast.Name) and f.id in ("str", "len", "list") and len(e.args) == 1 and not e.keywords:
                c, t, g = self.expr(e.args[0], env)
                if f.id == "str" and t == PS: return c, PS, g
                if f.id == "len" and (t == PS or self.listy(t)): return "(Z.of_nat (length %s))" % c, Z, g
                if f.id == "list" and self.listy(t) and t != SETT: return c, (T_list(PS) if t == CL else t), g
                bad(e, "%s of %r" % (f.id, t))
            if isinstance(f, ast.Name) and f.id == "combinations" and len(e.args) + len(e.keywords) == 2:
                r = e.args[1] if len(e.args) == 2 else (e.keywords[0].value if e.keywords[0].arg == "r" else None)
                if not (isinstance(r, ast.Constant) and r.value == 2): bad(e, "combinations(_, 2) only")
                c, t, g = self.expr(e.args[0], env)
                if t not in (T_list(PS), CL): bad(e, "combinations over %r" % (t,))
                return "(pairs_of %s)" % c, T_list(T_tuple([PS, PS])), g
            if isinstance(f, ast.Name) and f.id == "PauliStringCollection" and not e.keywords and len(e.args) <= 1:
                if not e.args or (isinstance(e.args[0], ast.List) and not e.args[0].elts): return "(gens (mk []))", CL, []
                c, t, g = self.expr(e.args[0], env)
                if t not in (T_list(PS), CL): bad(e, "PauliStringCollection of %r" % (t,))
                return "(gens (mk %s))" % c, CL, g
            if isinstance(f, ast.Name) and f.id == "PauliString" and not e.args and len(e.keywords) == 1 and e.keywords[0].arg == "n":
                c, t, g = self.expr(e.keywords[0].value, env)
                if t != Z: bad(e, "PauliString(n=...) of a non-int")
                return "(identity (Z.to_nat %s))" % c, PS, g + [("(0 <=? %s)" % c, VERR)]
            if isinstance(f, ast.Attribute) and f.attr == "gen_all_pauli_strings" and not e.args and not e.keywords:
                c, t, g = self.expr(f.value, env)
                if t != PS: bad(e, "gen_all_pauli_strings of %r" % (t,))
                return "(gen_all (length %s))" % c, T_list(PS), g
            if isinstance(f, ast.Attribute) and f.attr == "commutes_with" and len(e.args) == 1 and not e.keywords:
                a, b, g = self.pair_op(e, env, f.value, e.args[0], "commutes_with")
                return "(res_val false (commutes_code %s %s))" % (a, b), B, g + [("(res_ok (commutes_code %s %s))" % (a, b), VERR)]
            if src.startswith("self.create_instance(") and self.cls == "PauliStringCollection" and not e.args and len(e.keywords) == 1 and e.keywords[0].arg == "n":
                c, t, g = self.expr(e.keywords[0].value, env)
                if t != Z: bad(e, "create_instance(n=...) of a non-int")
                return ("(identity (Z.to_nat %s))" % c, PS,
                        [("(negb %s)" % is_nil("v_self"), "Raised (EUser \"PauliStringCollectionException\"%string)")] + g + [("(0 <=? %s)" % c, VERR)])
            m = self.method_call(e)
            if m is not None:
                args, fn = m
                if fn.pure: return "(%s %s)" % (fn.coq, args), fn.ret, list(self._call_guards)
                bad(e, "call of %s inside an expression" % fn.name)
            return None
        if isinstance(e, ast.BinOp):
            if isinstance(e.op, ast.BitXor):
                a, b, g = self.pair_op(e, env, e.left, e.right, "^")
                return "(res_val None (adjoint_code %s %s))" % (a, b), T_opt(PS), g + [("(res_ok (adjoint_code %s %s))" % (a, b), VERR)]
            if isinstance(e.op, ast.BitOr):
                a, b, g = self.pair_op(e, env, e.left, e.right, "|")
                return "(res_val false (commutes_code %s %s))" % (a, b), B, g + [("(res_ok (commutes_code %s %s))" % (a, b), VERR)]
            if isinstance(e.op, ast.MatMult):
                a, b, g = self.pair_op(e, env, e.left, e.right, "@")
                return "(res_val [] (multiply_code %s %s))" % (a, b), PS, g + [("(res_ok (multiply_code %s %s))" % (a, b), VERR)]
            if isinstance(e.op, ast.Div):
                a, ta, ga = self.expr(e.left, env); b, tb, gb = self.expr(e.right, env)
                if ta != Z or tb != Z: bad(e, "/ of non-ints")
                return "(%s, %s)" % (a, b), QT, ga + gb + [("(negb (%s =? 0))" % b, "Raised EZeroDivision")]
            if isinstance(e.op, ast.Sub):
                a, ta, ga = self.expr(e.left, env); b, tb, gb = self.expr(e.right, env)
                if ta == Z and tb == QT: return "(%s * snd %s - fst %s, snd %s)" % (a, b, b, b), QT, ga + gb
                if ta == Z and tb == Z: return "(%s - %s)" % (a, b), Z, ga + gb
                bad(e, "- of %r, %r" % (ta, tb))
            return None
        if isinstance(e, ast.UnaryOp) and isinstance(e.op, ast.Not):
            c, g, _ = self.truthy(e.operand, env)
            return "(negb %s)" % c, B, g
        if isinstance(e, ast.BoolOp):
            parts, added = [], []
            try:
                for v in e.values:
                    c, g, nm = self.truthy(v, env)
                    parts.append((c, B, g))
                    if isinstance(e.op, ast.And) and nm is not None and nm not in self.narrow:
                        self.narrow.add(nm); added.append(nm)
            finally:
                for nm in added: self.narrow.discard(nm)
            op = " && " if isinstance(e.op, ast.And) else " || "
            gs = list(parts[0][2])
            for i_ in range(1, len(parts)):
                reach = "(" + op.join(c for c, _, _ in parts[:i_]) + ")"
                skip = ("(negb %s)" % reach) if isinstance(e.op, ast.And) else reach
                gs += [("(%s || %s)" % (skip, gb), o) for gb, o in parts[i_][2]]
            return "(" + op.join(c for c, _, _ in parts) + ")", B, gs
        if isinstance(e, ast.Compare) and len(e.ops) == 1:
            op = e.ops[0]
            if isinstance(op, (ast.Is, ast.IsNot)) and isinstance(e.comparators[0], ast.Constant) and isinstance(e.comparators[0].value, bool):
                a, ta, ga = self.expr(e.left, env)
                if ta != B: bad(e, "is True/False of a non-bool")
                pos = e.comparators[0].value == isinstance(op, ast.Is)
                return (a if pos else "(negb %s)" % a), B, ga
            if isinstance(op, (ast.In, ast.NotIn)):
                a, ta, ga = self.expr(e.left, env); b, tb, gb = self.expr(e.comparators[0], env)
                if ta != PS or not (tb in (CL, SETT, T_list(PS))): bad(e, "membership test of %r in %r" % (ta, tb))
                c = "(memS %s %s)" % (a, b)
                return (c if isinstance(op, ast.In) else "(negb %s)" % c), B, ga + gb
            if isinstance(op, (ast.Eq, ast.NotEq)):
                a, ta, ga = self.expr(e.left, env)
                if ta == PS:
                    b, tb, gb = self.expr(e.comparators[0], env)
                    if tb != PS: bad(e, "== of a PauliString with %r" % (tb,))
                    c = "(pstr_eqb %s %s)" % (a, b)
                    return (c if isinstance(op, ast.Eq) else "(negb %s)" % c), B, ga + gb
            return None
        if isinstance(e, ast.ListComp):
            if len(e.generators) != 1 or e.generators[0].is_async or not isinstance(e.generators[0].target, ast.Name): bad(e, "list comprehension shape")
            gen = e.generators[0]
            x = gen.target.id
            it, tit, git = self.expr(gen.iter, env)
            if not self.listy(tit): bad(e, "comprehension over %r" % (tit,))
            et = PS if tit in (CL, SETT) else tit[1]
            if x in self.vars or x in self.params: bad(e, "comprehension variable %s shadows a local" % x)
            self.vars[x] = et
            try:
                conds = [self.truthy(i_, env | {x}) for i_ in gen.ifs]
                c, t, g = self.expr(e.elt, env | {x})
            finally:
                del self.vars[x]
            src_l = it
            gs = list(git)
            for cc, cg, _ in conds:
                gs += [("(forallb (fun v_%s => %s) %s)" % (x, gb, src_l), o) for gb, o in cg]
                src_l = "(filter (fun v_%s => %s) %s)" % (x, cc, src_l)
            gs += [("(forallb (fun v_%s => %s) %s)" % (x, gb, src_l), o) for gb, o in g]
            if isinstance(e.elt, ast.Name) and e.elt.id == x: return src_l, T_list(t), gs
            return "(map (fun v_%s => %s) %s)" % (x, c, src_l), T_list(t), gs
        return None

    # ----- statements -----
    def hoist(self, s):
        """a call of a raising function as an argument of a call is evaluated first: x = F(G(), ...)  ->  h_ = G(); x = F(h_, ...)"""
        v = s.value if isinstance(s, (ast.Return, ast.Assign, ast.Expr)) else None
        if not isinstance(v, ast.Call) or self.resolve(v) is None: return None
        for i, a in enumerate(v.args):
            r = self.resolve(a)
            if r is not None and not r[0].pure:
                if any(not isinstance(b, (ast.Name, ast.Attribute, ast.Constant)) for b in v.args[:i]): bad(s, "evaluation order of arguments")
                self.hcount = getattr(self, "hcount", 0) + 1
                nm = "h%d_" % self.hcount
                first = ast.copy_location(ast.Assign(targets=[ast.Name(id=nm, ctx=ast.Store())], value=a), s)
                v2 = ast.copy_location(ast.Call(func=v.func, args=v.args[:i] + [ast.Name(id=nm, ctx=ast.Load())] + v.args[i + 1:], keywords=v.keywords), v)
                s2 = ast.copy_location(type(s)(**{**{k: getattr(s, k) for k in s._fields}, "value": v2}), s)
                return [first, s2]
        return None

    def block(self, stmts, env, k):
        if not stmts:
            return Fn.block(self, stmts, env, k)
        s, rest = stmts[0], stmts[1:]
        if isinstance(s, ast.Pass):
            return self.block(rest, env, k)
        h = self.hoist(s)
        if h is not None:
            self.hcount_save = getattr(self, "hcount", 0)
            return self.block(h + rest, env, k)
        if isinstance(s, ast.While):
            if s.orelse: bad(s, "while-else")
            c, t, g = self.test(s.test, env)
            if g: bad(s, "loop condition must be unguarded")
            body = self.block(s.body, env, None)
            cont = self.block(rest, env, k)
            return "(seqo (while_loop fuel (fun %s => %s) (fun %s => %s) %s) (fun %s => %s))" % (
                pat(self.state()), c, pat(self.state()), body, tup(self.state()), pat(self.state()), cont)
        if isinstance(s, ast.If):
            names = self.narrow_names(s.test, env)
            stored = {n.id for b in s.body for n in ast.walk(b) if isinstance(n, ast.Name) and isinstance(n.ctx, ast.Store)}
            if stored & set(names): bad(s, "a variable tested for truth is reassigned in the branch")
            m = self.method_call(s.test) if isinstance(s.test, ast.Call) else None
            if m is None or m[1].pure:
                c, t, g = self.test(s.test, env)
                for n_ in names: self.narrow.add(n_)
                try:
                    a = self.block(s.body, env, None)
                finally:
                    for n_ in names: self.narrow.discard(n_)
                b = self.block(s.orelse, env, None)
                cont = self.block(rest, self.after_if(s, env), k)
                return self.guard(g, "(seqo (if %s then %s else %s) (fun %s => %s))" % (c, a, b, pat(self.state()), cont))
        if isinstance(s, ast.For) and isinstance(s.target, ast.Tuple) and all(isinstance(x, ast.Name) for x in s.target.elts) \
           and not (isinstance(s.iter, ast.Call) and isinstance(s.iter.func, ast.Name) and s.iter.func.id == "enumerate"):
            if s.orelse: bad(s, "for-else")
            c, t, g = self.expr(s.iter, env)
            names = [x.id for x in s.target.elts]
            if g or t[0] != "list" or t[1][0] != "tuple" or len(t[1][1]) != len(names): bad(s, "loop over tuples: shape")
            for n_, t_ in zip(names, t[1][1]): self.declare(n_, t_, s)
            body = self.block(s.body, env | set(names), None)
            cont = self.block(rest, env, k)
            binds = ("let %s := it_ in " % pat("it_" + n_ for n_ in names)) + "".join("let v_%s := it_%s in " % (n_, n_) for n_ in names)
            return "(seqo (unloop (fold_left (fun o_ it_ => seqo o_ (fun %s => %suncont %s)) %s (Next %s))) (fun %s => %s))" % (
                pat(self.state()), binds, body, c, tup(self.state()), pat(self.state()), cont)
        if isinstance(s, ast.For) and isinstance(s.target, ast.Name):
            c, t, g = self.expr(s.iter, env)
            if t in (CL, SETT):      # iteration over a collection: its strings in order
                s = ast.copy_location(ast.For(target=s.target, iter=ast.Call(func=ast.Name(id="list", ctx=ast.Load()), args=[s.iter], keywords=[]), body=s.body, orelse=s.orelse), s)
                if t == SETT: bad(s, "iteration over a set (order unspecified)")
                return Fn.block(self, [s] + rest, env, k)
        if isinstance(s, ast.Assign) and len(s.targets) == 1 and isinstance(s.targets[0], ast.Name):
            x, v = s.targets[0].id, s.value
            src = ast.unparse(v)
            if x in self.params and x in self.vars and src == "[]" and self.listy(self.vars[x]):
                return "(let v_%s : %s := [] in %s)" % (x, coq_type(self.vars[x]), self.block(rest, env | {x}, k))
            if src in ("[]", "{}", "set()") or (src.startswith("deque(") and isinstance(v, ast.Call) and len(v.args) <= 1 and not v.keywords):
                if x not in self.ctypes: bad(s, "container %s is never stored into: its element type is unknown" % x)
                ct = self.ctypes[x]
                if src == "{}":
                    t = T_dict(ct[0], ct[1]); init = "[]"
                elif src == "set()":
                    if ct != PS: bad(s, "set of %r" % (ct,))
                    t = SETT; init = "[]"
                elif src == "[]":
                    t = T_list(ct); init = "[]"
                else:
                    t = T_list(ct); init = "[]"
                    if v.args:
                        c, t0, g0 = self.expr(v.args[0], env)
                        if t0 != t or g0: bad(s, "deque initialiser")
                        init = c
                self.declare(x, t, s)
                return "(let v_%s : %s := %s in %s)" % (x, coq_type(t), init, self.block(rest, env | {x}, k))
            if isinstance(v, ast.Call) and isinstance(v.func, ast.Attribute) and v.func.attr == "popleft" and isinstance(v.func.value, ast.Name) and not v.args:
                q = v.func.value.id
                if q not in env or self.vars[q][0] != "list": bad(s, "popleft of a non-deque")
                self.declare(x, self.vars[q][1], s)
                return "(match v_%s with [] => Raised EIndex | hd_ :: tl_ => let v_%s := hd_ in let v_%s := tl_ in %s end)" % (q, x, q, self.block(rest, env | {x}, k))
            if x in self.params and x in self.vars:      # a parameter assigned again: keep its declared type
                c, t, g = self.expr(v, env)
                if not self.same(t, self.vars[x]): bad(s, "parameter %s changes type" % x)
                return self.guard(g, "(let v_%s := %s in %s)" % (x, c, self.block(rest, env | {x}, k)))
        if isinstance(s, ast.Assign) and len(s.targets) == 1 and isinstance(s.targets[0], ast.Name) and isinstance(s.value, ast.Call):
            m = self.method_call(s.value)
            if m is not None and not m[1].pure:
                args, fn = m
                gs = list(self._call_guards)
                x = s.targets[0].id
                self.declare(x, fn.ret, s)
                return self.guard(gs, "(bindr (%s %s) (fun v_%s => %s))" % (fn.coq, args, x, self.block(rest, env | {x}, k)))
        if isinstance(s, ast.Assign) and len(s.targets) == 1 and isinstance(s.targets[0], ast.Subscript) and isinstance(s.targets[0].value, ast.Name):
            d = s.targets[0].value.id
            if d in env and self.vars[d][0] == "dict":
                kc, kt, kg = self.expr(s.targets[0].slice, env)
                c, t, g = self.expr(s.value, env)
                if (kt, t) != self.vars[d][1:]: bad(s, "dict entry types %r" % ((kt, t),))
                return self.guard(kg + g, "(let v_%s := kdict_set %s v_%s %s %s in %s)" % (d, self.eqb_of(kt), d, kc, c, self.block(rest, env, k)))
        if isinstance(s, ast.Expr) and isinstance(s.value, ast.Call) and isinstance(s.value.func, ast.Attribute) and isinstance(s.value.func.value, ast.Name) \
           and len(s.value.args) == 1 and not s.value.keywords and s.value.func.attr in ("append", "add"):
            x = s.value.func.value.id
            if x not in env: bad(s, "store into an unassigned container")
            tx = self.vars[x]
            c, t, g = self.expr(s.value.args[0], env)
            if s.value.func.attr == "add":
                if tx != SETT or t != PS: bad(s, "add")
                new = "(set_add %s v_%s)" % (c, x)
            elif tx == CL:
                if t != PS: bad(s, "append to a collection")
                new = "(coll_append v_%s %s)" % (x, c)
            elif tx[0] == "list":
                if t != tx[1]: bad(s, "append of another type")
                new = "(v_%s ++ [%s])" % (x, c)
            else:
                bad(s, "append")
            return self.guard(g, "(let v_%s := %s in %s)" % (x, new, self.block(rest, env, k)))
        if isinstance(s, ast.Return) and s.value is not None and not (isinstance(s.value, ast.Constant) and s.value.value is None):
            m = self.method_call(s.value) if isinstance(s.value, ast.Call) else None
            if m is not None and not m[1].pure:
                args, fn = m
                gs = list(self._call_guards)
                if fn.ret == QT: self.qret = True
                self.set_ret(fn.ret, s)
                return self.guard(gs, "(retcall (%s %s))" % (fn.coq, args))
            c, t, g = self.expr(s.value, env)
            if t == QT: self.qret = True
            if t == Z and self.qret: c, t = "(%s, 1)" % c, QT
            self.set_ret(t, s)
            return self.guard(g, "Ret %s" % c)
        return Fn.block(self, stmts, env, k)

    def set_ret(self, t, node):
        if self.ret == Z and t == QT: self.ret = QT
        Fn.set_ret(self, t, node)

    def prepare(self):
        body = [s for s in self.node.body if not (isinstance(s, ast.Expr) and isinstance(s.value, ast.Constant))]
        self.ann = {}
        self.pure = False
        if len(body) == 1 and isinstance(body[0], ast.Return) and not self.fuel and (not isinstance(body[0].value, ast.Call) or self.module_call(body[0].value) is None) \
           and self.hoist(body[0]) is None:
            c, t, g = self.expr(body[0].value, set())
            self.pure = not g and t != QT

    def emit(self):
        self.prepare()
        body = self.node.body
        ps = ("(fuel : nat) " if self.fuel else "") + " ".join("(v_%s : %s)" % (n, coq_type(t)) for n, t in self.params.items())
        if self.pure:
            ret = [s for s in body if isinstance(s, ast.Return)][0]
            c, t, g = self.expr(ret.value, set())
            self.ret = t
            return "Definition %s %s : %s := %s." % (self.coq, ps, coq_type(t), c)
        env0 = set(self.reassigned)
        self.hcount = 0
        self.block(body, env0, None)
        self.hcount = 0
        term = self.block(body, env0, None)
        if self.ret is None: bad(self.node, "no return type")
        inits = "".join("let v_%s : %s := %s in " % (v, coq_type(t), default(t, self.tr.enums)) for v, t in self.vars.items() if v not in self.params)
        return ("(* %s%s, lines %d-%d; state = (%s) *)\nDefinition %s %s : fres %s :=\n  %s@finish %s _ (%s)." % (
            (self.cls + "." if self.cls else ""), self.name, self.node.lineno, self.node.end_lineno, ", ".join(self.vars), self.coq, ps, coq_type(self.ret), inits, self.state_type(), term))


class AppTranslator:
    FN = None
    HEADER_EXTRA = []
    """graph and orbit applications: common/get_graph.py, application/otoc.py, fourpoint.py, charges.py and the read-only graph methods of
    PauliStringCollection / PauliString they rest on"""
    def __init__(self, repo):
        self.repo = repo
        self.enums, self.exns, self.fns, self.families = {}, [], {}, {}
        rd = lambda rel: ast.parse(open(os.path.join(repo, "src", "paulie", rel), newline=None, encoding="utf-8-sig").read())
        self.mods = {"get_graph": rd("common/get_graph.py"), "otoc": rd("application/otoc.py"), "fourpoint": rd("application/fourpoint.py"),
                     "charges": rd("application/charges.py")}
        coll = rd("common/pauli_string_collection.py"); ps = rd("common/pauli_string_bitarray.py")
        self.cdefs = {f.name: f for c in coll.body if isinstance(c, ast.ClassDef) and c.name == "PauliStringCollection" for f in c.body if isinstance(f, ast.FunctionDef)}
        self.pdefs = {f.name: f for c in ps.body if isinstance(c, ast.ClassDef) and c.name == "PauliString" for f in c.body if isinstance(f, ast.FunctionDef)}
        def body_of(n):
            return [ast.unparse(x) for x in n.body if not (isinstance(x, ast.Expr) and isinstance(x.value, ast.Constant))]
        pins = [(self.cdefs, "__len__", ["return len(self.generators)"]),
                (self.cdefs, "__iter__", ["self.nextpos = 0", "return self"]),
                (self.cdefs, "__next__", ["if self.nextpos >= len(self):\n    raise StopIteration", "value = self.generators[self.nextpos]", "self.nextpos += 1", "return value"]),
                (self.cdefs, "create_instance", ["if len(self.generators) == 0:\n    raise PauliStringCollectionException('Empty generator')",
                                                 "return self.generators[0].create_instance(n=n, pauli_str=pauli_str)"]),
                (self.pdefs, "create_instance", ["return PauliString(n=n, pauli_str=pauli_str)"]),
                (self.pdefs, "__len__", ["return len(self.bits) // 2"]),
                (self.pdefs, "gen_all_pauli_strings", ["n = len(self)", "pauli_string = PauliString(n=n)", "last = PauliString(bits=bitarray([1] * (2 * n)))",
                                                       "while pauli_string != last:\n    yield pauli_string.copy()\n    pauli_string.inc()", "yield pauli_string.copy()"])]
        for defs, name, want in pins:
            if name not in defs or body_of(defs[name]) != want:
                raise Unsupported("pinned source of %s changed: %r" % (name, body_of(defs[name]) if name in defs else None))
        if "__bool__" in self.pdefs or "__bool__" in self.cdefs or "__contains__" in self.cdefs or "__contains__" in self.pdefs:
            raise Unsupported("__bool__ / __contains__ defined: the truthiness / membership contracts no longer apply")
        for m, want in (("get_graph", "from itertools import combinations"), ("otoc", "from collections import deque"), ("charges", "from itertools import combinations"),
                        ("fourpoint", "from paulie.application.otoc import average_otoc")):
            if want not in [ast.unparse(n) for n in self.mods[m].body if isinstance(n, (ast.Import, ast.ImportFrom))]:
                raise Unsupported("%s.py no longer has `%s`" % (m, want))
        if "from paulie.common.get_graph import get_graph" not in [ast.unparse(n) for n in coll.body if isinstance(n, ast.ImportFrom)] or \
           "from itertools import combinations" not in [ast.unparse(n) for n in coll.body if isinstance(n, ast.ImportFrom)]:
            raise Unsupported("pauli_string_collection.py imports changed")

    def fn_node(self, where, name):
        if where == "PauliStringCollection": n = self.cdefs.get(name)
        elif where == "PauliString": n = self.pdefs.get(name)
        else: n = {f.name: f for f in self.mods[where].body if isinstance(f, ast.FunctionDef)}.get(name)
        if n is None: raise Unsupported("%s.%s not found in the source" % (where, name))
        return n

    # (where, name, class, specialised parameter, [(mode, key, coq name)], default key)
    WANT = [("PauliString", "get_commutants", "PauliString", "generators", [("none", "default", "py_A_PS_get_commutants_all")], "default"),
            ("get_graph", "get_graph", "", "flag_labels", [("true", "true", "py_A_get_graph_labels"), ("false", "false", "py_A_get_graph_plain")], "true"),
            ("PauliStringCollection", "get_size", "PauliStringCollection", None, [(None, "default", "py_A_C_get_size")], "default"),
            ("PauliStringCollection", "get_pair", "PauliStringCollection", None, [(None, "default", "py_A_C_get_pair")], "default"),
            ("PauliStringCollection", "get_anticommutation_pair", "PauliStringCollection", None, [(None, "default", "py_A_C_get_anticommutation_pair")], "default"),
            ("PauliStringCollection", "get_anticommutation_fraction", "PauliStringCollection", None, [(None, "default", "py_A_C_get_anticommutation_fraction")], "default"),
            ("PauliStringCollection", "get_commutants", "PauliStringCollection", None, [(None, "default", "py_A_C_get_commutants")], "default"),
            ("PauliStringCollection", "get_graph", "PauliStringCollection", None, [(None, "default", "py_A_C_get_graph")], "default"),
            ("PauliStringCollection", "get_commutator_graph", "PauliStringCollection", None, [(None, "default", "py_A_C_get_commutator_graph")], "default"),
            ("otoc", "average_otoc", "", None, [(None, "default", "py_A_average_otoc")], "default"),
            ("fourpoint", "fourpoint", "", None, [(None, "default", "py_A_fourpoint")], "default"),
            ("charges", "non_commuting_charges", "", None, [(None, "default", "py_A_non_commuting_charges")], "default")]

    def run(self):
        out = ["(* GENERATED by tools/py2coq.py from common/get_graph.py, application/otoc.py, fourpoint.py, charges.py and the graph methods of",
               "   common/pauli_string_collection.py, common/pauli_string_bitarray.py — do not edit *)",
               "From PauLieRefine Require Import PySem.", "From PauLie Require Import Pauli PauliBits Collection Graph.", "Open Scope Z_scope.", "",
               "Definition res_ok {A} (r : res A) : bool := match r with Ok _ => true | ValueError => false end.",
               "Definition res_val {A} (d : A) (r : res A) : A := match r with Ok a => a | ValueError => d end.",
               "(* bool(x) for x : PauliString | None — PauliString has __len__ and no __bool__ *)",
               "Definition opt_truthy (o : option pstr) : bool := match o with Some p => negb (Nat.eqb (length p) 0) | None => false end.",
               "Definition unopt (o : option pstr) : pstr := match o with Some p => p | None => [] end.",
               "Definition set_add (x : pstr) (s : list pstr) : list pstr := if memS x s then s else x :: s.",
               "Definition coll_append (l : list pstr) (p : pstr) : list pstr := gens (fst (step true {| gens := l; cache := None |} (Append p))).", ""]
        out = out[:-1] + list(self.HEADER_EXTRA) + [""]
        for where, name, cls, sp, variants, dflt in self.WANT:
            fam = {"spec": sp if variants[0][0] in ("true", "false") else None, "default": dflt, "fns": {}}
            for mode, key, coq in variants:
                node = self.fn_node(where, name)
                orig = node
                drop = ()
                if mode is not None:
                    import copy
                    node = copy.deepcopy(node)
                    node = ast.fix_missing_locations(Specialise(sp, mode).visit(node))
                    drop = (sp,)
                    # the specialised parameter's default must be the value the default specialisation assumes
                    a = node.args
                    names = [x.arg for x in a.args]; i = names.index(sp); di = i - (len(a.args) - len(a.defaults))
                    if di < 0: raise Unsupported("%s: parameter %s has no default" % (name, sp))
                    dv = a.defaults[di]
                    okd = (isinstance(dv, ast.Constant) and ((mode in ("none", "some") and dv.value is None) or (mode in ("true", "false") and (dv.value is True) == (dflt == "true") and isinstance(dv.value, bool))))
                    if not okd: raise Unsupported("%s: default of %s changed" % (name, sp))
                    if mode == "some":      # the argument is always passed: the parameter stays, without its default
                        del a.defaults[di]; drop = ()
                        a.args[i].annotation = ast.parse("list[PauliString]", mode="eval").body
                    else:
                        del a.args[i]; del a.defaults[di]
                f = (self.FN or AppFn)(self, node, cls if cls else None, coq, drop, orig) if name != "find_generators_with_connection" else self.FN(self, node, cls, coq, drop, orig, oracle=True)
                fam["fns"][key] = f
                self.families[(cls, name)] = fam
                out.append(f.emit()); out.append("")
                self.fns[coq] = f
            # a callee is visible only after it has been emitted (no recursion)
        return "\n".join(out)


LIN = T_list(T_tuple([GI, PS]))

class LinFn(AppFn):
    """a method of PauliStringLinear (common/pauli_string_linear.py) on the object = its list of (coefficient, string) terms
    (Model/Linear.lin).  Coefficients are Gaussian integers (Model/Pauli.gi): Python's complex arithmetic is exact on them, so
    + * np.conj are gadd / gmul / gconj, `abs(c) > 1e-12` is c != 0, `abs(c) < 1e-12` and `c == 0` are c = 0, np.isclose(a, b) is a = b,
    0.0 / 0.0j are 0, complex(x) is x (floating point itself is NOT modelled: on other coefficients nothing is claimed).
    Contracts: PauliStringLinear(l) and get_pauli_string(l) for a non-empty list of tuples hold the terms l (constructor re-parses the text
    of every string; pinned); get_pauli_string([]) is a PauliStringCollection — outside the model (outcome NonInt); x.get_size() = size_of x
    (pinned); iterating a combination or its .combinations yields its terms in order (__iter__/__next__ pinned; the shared cursor is not
    modelled — no translated method iterates one object inside an iteration of the same object); isinstance(other, PauliStringLinear) holds
    for the operand (the NotImplemented / TypeError branches are not reached); defaultdict(complex) keyed by str(p) is Linear.dict_add;
    a dict comprehension stores in order; d.keys() == e.keys() compares key sets; p.sign(q) = sign_code, p.multiply(q) = multiply_code,
    p.is_identity() = is_identity; 'I' * k is the identity string of length k."""
    def __init__(self, tr, node, coq, owner="PauliStringLinear"):
        node.decorator_list = [d for d in node.decorator_list if not (isinstance(d, ast.Name) and d.id == "property")]
        self.owner = owner
        AppFn.__init__(self, tr, node, owner, coq)
        self.params["self"] = LIN if owner == "PauliStringLinear" else CL

    def ann_type(self, a, node):
        txt = ast.unparse(a) if a is not None else None
        # `Self` on PauliStringLinear.quadratic is the linear symmetry L_j, a PauliString (its only caller passes one; it is used through
        # sign / @ / str only); `Self` on a collection method is a collection
        tbl = {"object": LIN, "complex": GI, "int": Z, "Self": PS if self.owner == "PauliStringLinear" else CL}
        if txt not in tbl: bad(node, "annotation %r" % txt)
        return tbl[txt]

    def is_lin(self, t): return t == LIN

    def shadow(self, names, types):
        """a comprehension variable is local to the comprehension and may shadow a local of the function (the Coq binder shadows likewise)"""
        saved = [(n_, self.vars.get(n_)) for n_ in names]
        for n_, t_ in zip(names, types): self.vars[n_] = t_
        return saved
    def unshadow(self, saved):
        for n_, t_ in saved:
            if t_ is None: del self.vars[n_]
            else: self.vars[n_] = t_

    def isinstance_true(self, e, env):
        if isinstance(e, ast.Call) and isinstance(e.func, ast.Name) and e.func.id == "isinstance" and len(e.args) == 2 and not e.keywords:
            cls = ast.unparse(e.args[1])
            if cls in ("PauliStringLinear", "self.__class__"):
                c, t, g = self.expr(e.args[0], env)
                if t == LIN: return True
            if cls == "(int, float, complex)":
                c, t, g = self.expr(e.args[0], env)
                if t == GI: return True
        return None

    def gi_of(self, e, env):
        c, t, g = self.expr(e, env)
        if t == GI: return c, g
        if t == Z: return "(%s, 0)" % c, g
        bad(e, "a number was expected, found %r" % (t,))

    def expr_extra(self, e, env):
        if isinstance(e, ast.Constant) and isinstance(e.value, (float, complex)) and not isinstance(e.value, bool):
            if e.value == 0: return "g0", GI, []
            if e.value == 1: return "g1", GI, []
            bad(e, "float constant")
        if isinstance(e, ast.BinOp) and isinstance(e.op, ast.Add) and all(isinstance(x, ast.Call) and isinstance(x.func, ast.Name) and x.func.id == "str" for x in (e.left, e.right)):
            a, ta, ga = self.expr(e.left, env); b, tb, gb = self.expr(e.right, env)     # text of one string followed by the text of another
            if ta != PS or tb != PS: bad(e, "str + str of non-PauliStrings")
            return "(%s ++ %s)" % (a, b), PS, ga + gb
        if isinstance(e, ast.Attribute) and e.attr == "combinations":
            c, t, g = self.expr(e.value, env)
            if t != LIN: bad(e, ".combinations of %r" % (t,))
            return c, LIN, g
        if isinstance(e, ast.Name) and e.id == "self": return "v_self", self.params["self"], []
        if isinstance(e, ast.BinOp) and isinstance(e.op, ast.Mult) and isinstance(e.left, ast.Constant) and e.left.value == "I":
            c, t, g = self.expr(e.right, env)
            if t != Z: bad(e, "'I' * non-int")
            return "(identity (Z.to_nat %s))" % c, PS, g
        if isinstance(e, ast.BinOp) and isinstance(e.op, (ast.Mult, ast.Add)):
            a, ta, ga = self.expr(e.left, env)
            if ta == GI or (ta == Z and self.expr(e.right, env)[1] == GI):
                a2, ga2 = self.gi_of(e.left, env); b2, gb2 = self.gi_of(e.right, env)
                return "(%s %s %s)" % ("gmul" if isinstance(e.op, ast.Mult) else "gadd", a2, b2), GI, ga2 + gb2
            return None
        if isinstance(e, ast.Compare) and len(e.ops) == 1:
            l, op, r = e.left, e.ops[0], e.comparators[0]
            if isinstance(l, ast.Call) and isinstance(l.func, ast.Name) and l.func.id == "abs" and len(l.args) == 1 and isinstance(r, ast.Constant) and r.value == 1e-12:
                c, t, g = self.expr(l.args[0], env)
                if t != GI: bad(e, "abs of %r" % (t,))
                if isinstance(op, ast.Gt): return "(negb (gzero %s))" % c, B, g
                if isinstance(op, ast.Lt): return "(gzero %s)" % c, B, g
                bad(e, "comparison with the tolerance")
            if isinstance(op, (ast.Eq, ast.NotEq)) and isinstance(l, ast.Call) and isinstance(r, ast.Call) and ast.unparse(l.func).endswith(".keys") and ast.unparse(r.func).endswith(".keys") \
               and not l.args and not r.args:
                a, ta, ga = self.expr(l.func.value, env); b, tb, gb = self.expr(r.func.value, env)
                if ta != T_dict(PS, GI) or tb != ta: bad(e, "keys() of non-dicts")
                c = "(keys_eqb %s %s)" % (a, b)
                return (c if isinstance(op, ast.Eq) else "(negb %s)" % c), B, ga + gb
            if isinstance(op, (ast.Eq, ast.NotEq)):
                a, ta, ga = self.expr(l, env)
                if ta == GI:
                    if not (isinstance(r, ast.Constant) and r.value == 0 and not isinstance(r.value, bool)): bad(e, "== on coefficients other than == 0")
                    c = "(gzero %s)" % a
                    return (c if isinstance(op, ast.Eq) else "(negb %s)" % c), B, ga
            return AppFn.expr_extra(self, e, env)
        if isinstance(e, ast.Subscript) and not isinstance(e.slice, ast.Slice):
            c, t, g = self.expr(e.value, env)
            if t == T_dict(PS, GI):
                kc, kt, kg = self.expr(e.slice, env)
                if kt != PS: bad(e, "dict key")
                return "(gdict_get %s %s)" % (c, kc), GI, g + kg + [("(gdict_mem %s %s)" % (c, kc), "Raised EKey")]
            return AppFn.expr_extra(self, e, env)
        if isinstance(e, ast.DictComp):
            if len(e.generators) != 1 or e.generators[0].ifs or e.generators[0].is_async: bad(e, "dict comprehension shape")
            gen = e.generators[0]
            it, tit, git = self.expr(gen.iter, env)
            names = [x.id for x in gen.target.elts] if isinstance(gen.target, ast.Tuple) and all(isinstance(x, ast.Name) for x in gen.target.elts) else None
            if names is None or tit != LIN or len(names) != 2: bad(e, "dict comprehension over %r" % (tit,))
            saved = self.shadow(names, (GI, PS))
            try:
                kc, kt, kg = self.expr(e.key, env | set(names)); vc, vt, vg = self.expr(e.value, env | set(names))
            finally:
                self.unshadow(saved)
            if (kt, vt) != (PS, GI) or kg or vg: bad(e, "dict comprehension entry types")
            return "(fold_left (fun d_ it_ => let '(v_%s, v_%s) := it_ in gdict_set d_ %s %s) %s [])" % (names[0], names[1], kc, vc, it), T_dict(PS, GI), git
        if isinstance(e, ast.ListComp) and isinstance(e.generators[0].target, ast.Tuple):
            if len(e.generators) != 1 or e.generators[0].is_async or not all(isinstance(x, ast.Name) for x in e.generators[0].target.elts): bad(e, "list comprehension shape")
            gen = e.generators[0]
            names = [x.id for x in gen.target.elts]
            it, tit, git = self.expr(gen.iter, env)
            if tit[0] != "list" or tit[1][0] != "tuple" or len(tit[1][1]) != len(names): bad(e, "comprehension over %r" % (tit,))
            saved = self.shadow(names, tit[1][1])
            try:
                conds = [self.truthy(i_, env | set(names)) for i_ in gen.ifs]
                c, t, g = self.expr(e.elt, env | set(names))
            finally:
                self.unshadow(saved)
            if g or any(cg for _, cg, _ in conds): bad(e, "guarded operation in a comprehension over tuples")
            bind = "fun it_ => let '(%s) := it_ in " % ", ".join("v_" + n_ for n_ in names)
            src_l = it
            for cc, _, _ in conds: src_l = "(filter (%s%s) %s)" % (bind, cc, src_l)
            return "(map (%s%s) %s)" % (bind, c, src_l), T_list(t), git
        if isinstance(e, ast.Call):
            f = e.func
            src = ast.unparse(e)
            if isinstance(f, ast.Attribute) and f.attr == "get_size" and not e.args and not e.keywords:
                c, t, g = self.expr(f.value, env)
                if t != LIN: bad(e, "get_size of %r" % (t,))
                return "(Z.of_nat (size_of %s))" % c, Z, g
            if isinstance(f, ast.Attribute) and f.attr in ("items", "values") and not e.args and not e.keywords:
                c, t, g = self.expr(f.value, env)
                if t != T_dict(PS, GI): bad(e, "%s of %r" % (f.attr, t))
                return (c, T_list(T_tuple([PS, GI])), g) if f.attr == "items" else ("(map snd %s)" % c, T_list(GI), g)
            if isinstance(f, ast.Name) and f.id in ("PauliStringLinear", "p") and len(e.args) == 1 and not e.keywords:
                c, t, g = self.expr(e.args[0], env)
                if t != LIN: bad(e, "%s of %r" % (f.id, t))
                if f.id == "p": g = g + [("(negb %s)" % is_nil(c), "NonInt")]
                return c, LIN, g
            if isinstance(f, ast.Name) and f.id == "complex" and len(e.args) == 1 and not e.keywords:
                c, g = self.gi_of(e.args[0], env)
                return c, GI, g
            if src.startswith("np.conj(") and len(e.args) == 1 and not e.keywords:
                c, g = self.gi_of(e.args[0], env)
                return "(gconj %s)" % c, GI, g
            if src.startswith("np.isclose(") and len(e.args) == 2 and not e.keywords:
                a, ga = self.gi_of(e.args[0], env); b, gb = self.gi_of(e.args[1], env)
                return "(gi_eqb %s %s)" % (a, b), B, ga + gb
            if isinstance(f, ast.Name) and f.id == "all" and len(e.args) == 1 and isinstance(e.args[0], ast.GeneratorExp):
                ge = e.args[0]
                if len(ge.generators) != 1 or ge.generators[0].ifs or not isinstance(ge.generators[0].target, ast.Name): bad(e, "generator shape")
                x = ge.generators[0].target.id
                it, tit, git = self.expr(ge.generators[0].iter, env)
                if tit[0] != "list": bad(e, "all over %r" % (tit,))
                saved = self.shadow([x], [tit[1]])
                try:
                    c, t, g = self.expr(ge.elt, env | {x})
                finally:
                    self.unshadow(saved)
                if t != B or g: bad(e, "all of a non-bool or guarded element")
                return "(forallb (fun v_%s => %s) %s)" % (x, c, it), B, git
            if isinstance(f, ast.Attribute) and f.attr in ("sign", "multiply") and len(e.args) == 1 and not e.keywords:
                a, b, g = self.pair_op(e, env, f.value, e.args[0], f.attr)
                if f.attr == "sign": return "(res_val g0 (sign_code %s %s))" % (a, b), GI, g + [("(res_ok (sign_code %s %s))" % (a, b), VERR)]
                return "(res_val [] (multiply_code %s %s))" % (a, b), PS, g + [("(res_ok (multiply_code %s %s))" % (a, b), VERR)]
            if isinstance(f, ast.Attribute) and f.attr == "is_identity" and not e.args and not e.keywords:
                c, t, g = self.expr(f.value, env)
                if t != PS: bad(e, "is_identity of %r" % (t,))
                return "(is_identity %s)" % c, B, g
            return AppFn.expr_extra(self, e, env)
        return AppFn.expr_extra(self, e, env)

    def resolve(self, e):
        if isinstance(e, ast.Call) and isinstance(e.func, ast.Attribute) and not e.keywords and e.func.attr in self.tr.fns:
            scope = set(self.vars) | set(self.params)
            try:
                _, t, _ = self.expr(e.func.value, scope)
            except Unsupported:
                return None
            if t != LIN: return None
            fn = self.tr.fns[e.func.attr]
            if len(e.args) != len(fn.params) - 1: bad(e, "arity")
            return fn, [e.func.value] + list(e.args)
        return None

    def block(self, stmts, env, k):
        if not stmts:
            return AppFn.block(self, stmts, env, k)
        s, rest = stmts[0], stmts[1:]
        if isinstance(s, ast.ImportFrom):
            if ast.unparse(s) != "from paulie.common.pauli_string_factory import get_pauli_string as p": bad(s, "local import")
            return self.block(rest, env, k)
        if isinstance(s, ast.For) and isinstance(s.iter, ast.Name) and s.iter.id in self.params and self.params[s.iter.id] == LIN:
            # iteration through the object's own __iter__/__next__ (one cursor per object): inside another such iteration the two
            # operands may be the same object (a @ a) and the inner loop would exhaust the outer one — outside the contract
            if getattr(self, "_proto_depth", 0) > 0: bad(s, "iteration over a PauliStringLinear object nested in another one: the operands may alias and share the cursor")
            self._proto_depth = getattr(self, "_proto_depth", 0) + 1
            try:
                return AppFn.block(self, stmts, env, k)
            finally:
                self._proto_depth -= 1
        if isinstance(s, ast.If):
            t_ = s.test.operand if isinstance(s.test, ast.UnaryOp) and isinstance(s.test.op, ast.Not) else None
            if t_ is not None and self.isinstance_true(t_, env) and not s.orelse:
                return self.block(rest, env, k)      # `if not isinstance(operand, <its class>): ...` is not taken
        if isinstance(s, ast.AnnAssign) and isinstance(s.target, ast.Name) and s.value is not None:
            ann = ast.unparse(s.annotation).replace(" ", "")
            if ann in ("dict[str,complex]", "Dict[str,complex]") and ast.unparse(s.value) == "defaultdict(complex)":
                x = s.target.id
                self.declare(x, T_dict(PS, GI), s)
                return "(let v_%s : %s := [] in %s)" % (x, coq_type(T_dict(PS, GI)), self.block(rest, env | {x}, k))
            if ann == "complex":
                s = ast.copy_location(ast.Assign(targets=[s.target], value=s.value), s)
                return self.block([s] + rest, env, k)
        if isinstance(s, ast.AugAssign) and isinstance(s.op, ast.Add):
            tg = s.target
            if isinstance(tg, ast.Subscript) and isinstance(tg.value, ast.Name) and tg.value.id in env and self.vars[tg.value.id] == T_dict(PS, GI):
                d = tg.value.id
                kc, kt, kg = self.expr(tg.slice, env); c, g = self.gi_of(s.value, env)
                if kt != PS: bad(s, "dict key")
                return self.guard(kg + g, "(let v_%s := dict_add v_%s %s %s in %s)" % (d, d, kc, c, self.block(rest, env, k)))
            if isinstance(tg, ast.Name) and tg.id in env and self.vars[tg.id] == GI:
                c, g = self.gi_of(s.value, env)
                return self.guard(g, "(let v_%s := (gadd v_%s %s) in %s)" % (tg.id, tg.id, c, self.block(rest, env, k)))
        if isinstance(s, ast.Assign) and len(s.targets) == 1 and isinstance(s.targets[0], ast.Name) and ast.unparse(s.value) == "[]" and s.targets[0].id not in self.params:
            x = s.targets[0].id
            if x not in self.ctypes:          # typed by the first append (first pass)
                self.vars.setdefault(x, ("list", "?"))
                return self.block(rest, env | {x}, k) if True else None
            t = T_list(self.ctypes[x])
            self.vars[x] = t
            return "(let v_%s : %s := [] in %s)" % (x, coq_type(t), self.block(rest, env | {x}, k))
        if isinstance(s, ast.Expr) and isinstance(s.value, ast.Call) and isinstance(s.value.func, ast.Attribute) and s.value.func.attr == "append" \
           and isinstance(s.value.func.value, ast.Name) and self.vars.get(s.value.func.value.id) == ("list", "?"):
            x = s.value.func.value.id
            c, t, g = self.expr(s.value.args[0], env)
            self.ctypes[x] = t
            return self.block(rest, env, k)
        return AppFn.block(self, stmts, env, k)

    def emit(self):
        self.ctypes = {}
        self.prepare()
        body = self.node.body
        ps = " ".join("(v_%s : %s)" % (n, coq_type(t)) for n, t in self.params.items())
        if self.pure:
            ret = [s for s in body if isinstance(s, ast.Return)][0]
            c, t, g = self.expr(ret.value, set())
            self.ret = t
            return "Definition %s %s : %s := %s." % (self.coq, ps, coq_type(t), c)
        first = None
        try:
            self.block(body, set(), None)
        except Unsupported as e_:
            if not any(v == ("list", "?") for v in self.vars.values()): raise
            first = e_
        for v in list(self.vars):
            if self.vars[v] == ("list", "?"):
                if v not in self.ctypes:
                    if first is not None: raise first
                    bad(self.node, "list %s is never appended to" % v)
                self.vars[v] = T_list(self.ctypes[v])
        self.ret = None
        self.block(body, set(), None)
        term = self.block(body, set(), None)
        if self.ret is None: bad(self.node, "no return type")
        inits = "".join("let v_%s : %s := %s in " % (v, coq_type(t), default(t, self.tr.enums)) for v, t in self.vars.items() if v not in self.params)
        return ("(* PauliStringLinear.%s, lines %d-%d; state = (%s) *)\nDefinition %s %s : fres %s :=\n  %s@finish %s _ (%s)." % (
            self.name, self.node.lineno, self.node.end_lineno, ", ".join(self.vars), self.coq, ps, coq_type(self.ret), inits, self.state_type(), term))


class LinTranslator:
    WANT = ["simplify", "__add__", "__matmul__", "__mul__", "__rmul__", "h", "trace", "is_zero", "__eq__"]
    def __init__(self, repo):
        self.enums, self.exns, self.fns, self.families = {}, [], {}, {}
        rd = lambda rel: ast.parse(open(os.path.join(repo, "src", "paulie", rel), newline=None, encoding="utf-8-sig").read())
        lin = rd("common/pauli_string_linear.py"); fac = rd("common/pauli_string_factory.py"); coll = rd("common/pauli_string_collection.py")
        self.cdefs = {f.name: f for c in coll.body if isinstance(c, ast.ClassDef) and c.name == "PauliStringCollection" for f in c.body if isinstance(f, ast.FunctionDef)}
        for name, want in (("__iter__", ["self.nextpos = 0", "return self"]),
                           ("__next__", ["if self.nextpos >= len(self):\n    raise StopIteration", "value = self.generators[self.nextpos]", "self.nextpos += 1", "return value"])):
            got = [ast.unparse(x) for x in self.cdefs[name].body if not (isinstance(x, ast.Expr) and isinstance(x.value, ast.Constant))] if name in self.cdefs else None
            if got != want: raise Unsupported("pinned source of PauliStringCollection.%s changed: %r" % (name, got))
        self.defs = {f.name: f for c in lin.body if isinstance(c, ast.ClassDef) and c.name == "PauliStringLinear" for f in c.body if isinstance(f, ast.FunctionDef)}
        def body_of(n):
            return [ast.unparse(x) for x in n.body if not (isinstance(x, ast.Expr) and isinstance(x.value, ast.Constant))]
        pins = [("__init__", ["num_qubits = len(str(combinations[0][1])) if combinations else 0", "super().__init__(n=num_qubits)", "self.nextpos = 0",
                              "self.combinations = [(c[0], PauliString(pauli_str=str(c[1]))) for c in combinations]"]),
                ("__len__", ["return len(self.combinations)"]),
                ("__iter__", ["self.nextpos = 0", "return self"]),
                ("__next__", ["if self.nextpos >= len(self):\n    raise StopIteration", "value = self.combinations[self.nextpos]", "self.nextpos += 1", "return value"]),
                ("get_size", ["try:\n    _, first_pauli = next(iter(self))\n    return len(first_pauli)\nexcept StopIteration:\n    return 0"])]
        for name, want in pins:
            if name not in self.defs or body_of(self.defs[name]) != want:
                raise Unsupported("pinned source of PauliStringLinear.%s changed: %r" % (name, body_of(self.defs[name]) if name in self.defs else None))
        gps = {f.name: f for f in fac.body if isinstance(f, ast.FunctionDef)}.get("get_pauli_string")
        want = ["if isinstance(o, str):\n    return PauliString(pauli_str=o, n=n)", "if isinstance(o, PauliString):\n    return o",
                "if isinstance(o, list):\n    if len(o) > 0 and isinstance(o[0], tuple):\n        return PauliStringLinear(o)"]
        if gps is None or body_of(gps)[:3] != want:
            raise Unsupported("factory.get_pauli_string no longer hands a non-empty list of tuples to PauliStringLinear")

    def run(self):
        out = ["(* GENERATED by tools/py2coq.py from src/paulie/common/pauli_string_linear.py — do not edit *)",
               "From PauLieRefine Require Import PySem.", "From PauLie Require Import Pauli Matrix Linear.", "Open Scope Z_scope.", "",
               "Definition res_ok {A} (r : res A) : bool := match r with Ok _ => true | ValueError => false end.",
               "Definition res_val {A} (d : A) (r : res A) : A := match r with Ok a => a | ValueError => d end.",
               "(* dict[str, complex]: lookup, membership, plain store (a dict comprehension), key-set comparison *)",
               "Fixpoint gdict_get (d : list (pstr * gi)) (k : pstr) : gi := match d with [] => g0 | (q, e) :: t => if pstr_eqb k q then e else gdict_get t k end.",
               "Definition gdict_mem (d : list (pstr * gi)) (k : pstr) : bool := existsb (fun x => pstr_eqb k (fst x)) d.",
               "Fixpoint gdict_set (d : list (pstr * gi)) (k : pstr) (v : gi) : list (pstr * gi) :=",
               "  match d with [] => [(k, v)] | (q, e) :: t => if pstr_eqb k q then (q, v) :: t else (q, e) :: gdict_set t k v end.",
               "Definition keys_eqb (a b : list (pstr * gi)) : bool := forallb (fun x => gdict_mem b (fst x)) a && forallb (fun x => gdict_mem a (fst x)) b.", ""]
        for name in self.WANT + ["quadratic"]:
            node = self.defs.get(name)
            if node is None: raise Unsupported("PauliStringLinear.%s not found in the source" % name)
            f = LinFn(self, node, "py_L_" + name.strip("_"))
            out.append(f.emit()); out.append("")
            self.fns[name] = f
        node = self.cdefs.get("get_symmetries_for_component")
        if node is None: raise Unsupported("PauliStringCollection.get_symmetries_for_component not found in the source")
        f = LinFn(self, node, "py_L_C_get_symmetries_for_component", owner="PauliStringCollection")
        out.append(f.emit()); out.append("")
        return "\n".join(out)


class OptFn(AppFn):
    """the optimiser of common/pauli_string_collection.py (list_connections, _get_delta, find_generators_with_connection) and
    PauliString.get_anti_commutants, on lists of Pauli strings.  Further contracts: c.copy() is PauliStringCollection(c.generators) (pinned);
    c.contract(x, y) on a local collection is the model's Contract transition (Refine/CollRefine.gen_c_contract proves that of the source),
    ValueError on unequal lengths; `self.copy().get_canonic_vertices()` — the canonical vertices of the classification — is an INPUT of the
    translated function (parameter cv): nothing is assumed about it; random.randint(a, b) reads the next element of an input stream
    (parameter rand_; a value outside [a, b] leaves the model, an exhausted stream is OutOfFuel); abs on ints; t[i] with a literal i on a tuple."""
    def __init__(self, tr, node, cls, coq, drop=(), orig=None, oracle=False):
        AppFn.__init__(self, tr, node, cls, coq, drop, orig)
        self.uses_rand = any(isinstance(x, ast.Call) and isinstance(x.func, ast.Name) and x.func.id == "randint" for x in ast.walk(node))
        self.oracle = oracle
        if oracle: self.params["cv_"] = CL
        if self.uses_rand:
            self.params["rand_"] = T_list(Z); self.vars["rand_"] = T_list(Z); self.reassigned.append("rand_")
        self.gpure = None

    @staticmethod
    def proj(i, n, c):
        """component i of an n-tuple ((a, b), c), d ..."""
        for _ in range(n - 1 - i): c = "(fst %s)" % c
        return "(snd %s)" % c if i > 0 else c

    def expr_extra(self, e, env):
        if isinstance(e, ast.Constant) and e.value is True: return "true", B, []
        if isinstance(e, ast.Call):
            f = e.func
            src = ast.unparse(e)
            if src == "self.copy().get_canonic_vertices()" and self.oracle: return "v_cv_", CL, []
            if isinstance(f, ast.Name) and f.id == "abs" and len(e.args) == 1 and not e.keywords:
                c, t, g = self.expr(e.args[0], env)
                if t != Z: bad(e, "abs of %r" % (t,))
                return "(Z.abs %s)" % c, Z, g
            if isinstance(f, ast.Attribute) and f.attr == "copy" and not e.args and not e.keywords:
                c, t, g = self.expr(f.value, env)
                if t == CL: return "(gens (mk %s))" % c, CL, g
        if isinstance(e, ast.Subscript) and not isinstance(e.slice, ast.Slice):
            c, t, g = self.expr(e.value, env)
            if isinstance(t, tuple) and t[0] == "tuple":
                if not (isinstance(e.slice, ast.Constant) and isinstance(e.slice.value, int) and 0 <= e.slice.value < len(t[1])): bad(e, "tuple index must be a literal in range")
                return self.proj(e.slice.value, len(t[1]), c), t[1][e.slice.value], g
            if isinstance(t, tuple) and t[0] == "list" and t not in (T_list(PS),):
                ic, it_, ig = self.expr(e.slice, env)
                if it_ != Z: bad(e, "index must be int")
                return "(list_get %s %s %s)" % (default(t[1], self.tr.enums), c, ic), t[1], g + ig + [("(idx_ok %s %s)" % (c, ic), "Raised EIndex")]
        if isinstance(e, ast.ListComp) and isinstance(e.generators[0].target, ast.Tuple):
            # [elt for x, y in <pairs> if cond]: filter then map, guards of cond on all pairs, guards of elt on the pairs kept
            if len(e.generators) != 1 or e.generators[0].is_async or not all(isinstance(x, ast.Name) for x in e.generators[0].target.elts): bad(e, "list comprehension shape")
            gen = e.generators[0]
            names = [x.id for x in gen.target.elts]
            it, tit, git = self.expr(gen.iter, env)
            if tit[0] != "list" or tit[1][0] != "tuple" or len(tit[1][1]) != len(names): bad(e, "comprehension over %r" % (tit,))
            saved = [(n_, self.vars.get(n_)) for n_ in names]
            for n_, t_ in zip(names, tit[1][1]): self.vars[n_] = t_
            try:
                conds = [self.truthy(i_, env | set(names)) for i_ in gen.ifs]
                c, t, g = self.expr(e.elt, env | set(names))
            finally:
                for n_, t_ in saved:
                    if t_ is None: del self.vars[n_]
                    else: self.vars[n_] = t_
            bind = "fun it_ => let '(%s) := it_ in " % ", ".join("v_" + n_ for n_ in names)
            src_l, gs = it, list(git)
            for cc, cg, _ in conds:
                gs += [("(forallb (%s%s) %s)" % (bind, gb, src_l), o) for gb, o in cg]
                src_l = "(filter (%s%s) %s)" % (bind, cc, src_l)
            gs += [("(forallb (%s%s) %s)" % (bind, gb, src_l), o) for gb, o in g]
            return "(map (%s%s) %s)" % (bind, c, src_l), T_list(t), gs
        if isinstance(e, ast.Call):
            r = self.resolve(e)
            if r is not None and getattr(r[0], "gpure", None) is not None:
                args, fn = self.method_call(e)
                return "(%s_val %s)" % (fn.coq, args), fn.ret, list(self._call_guards) + [("(%s_ok %s)" % (fn.coq, args), fn.gpure)]
        return AppFn.expr_extra(self, e, env)

    def hoist(self, s):
        h = AppFn.hoist(self, s)
        if h is not None: return h
        # a raising call as an operand of an arithmetic expression / as the iterable of a loop: evaluated first when nothing before it can raise
        def first_call(v):
            for sub in ast.iter_child_nodes(v):
                if isinstance(sub, ast.Call):
                    r = self.resolve(sub)
                    if r is not None and not r[0].pure and getattr(r[0], "gpure", None) is None: return sub
                if isinstance(sub, (ast.BinOp, ast.UnaryOp)):
                    x = first_call(sub)
                    if x is not None: return x
                elif not isinstance(sub, (ast.Name, ast.Constant, ast.operator, ast.unaryop, ast.expr_context)):
                    return None
            return None
        if isinstance(s, (ast.Return, ast.Assign)) and isinstance(s.value, ast.BinOp):
            c = first_call(s.value)
            if c is not None:
                self.hcount = getattr(self, "hcount", 0) + 1
                nm = "h%d_" % self.hcount
                class Rep(ast.NodeTransformer):
                    def visit_Call(self_, n):
                        return ast.copy_location(ast.Name(id=nm, ctx=ast.Load()), n) if n is c else self_.generic_visit(n)
                first = ast.copy_location(ast.Assign(targets=[ast.Name(id=nm, ctx=ast.Store())], value=c), s)
                import copy as _copy
                # (the transformer works in place: on a deep copy in which the call is found again by position)
                s2 = _copy.deepcopy(s)
                path = []
                def find(v, tgt, acc):
                    if v is tgt: path.extend(acc); return True
                    for fld, val in ast.iter_fields(v):
                        if isinstance(val, ast.AST) and find(val, tgt, acc + [fld]): return True
                    return False
                find(s.value, c, [])
                parent, node_ = None, s2.value
                for fld in path: parent, node_ = (node_, fld), getattr(node_, fld)
                setattr(parent[0], parent[1], ast.copy_location(ast.Name(id=nm, ctx=ast.Load()), c))
                return [first, ast.fix_missing_locations(s2)]
        if isinstance(s, ast.For) and isinstance(s.iter, ast.Call):
            r = self.resolve(s.iter)
            if r is not None and not r[0].pure:
                self.hcount = getattr(self, "hcount", 0) + 1
                nm = "h%d_" % self.hcount
                first = ast.copy_location(ast.Assign(targets=[ast.Name(id=nm, ctx=ast.Store())], value=s.iter), s)
                s2 = ast.copy_location(ast.For(target=s.target, iter=ast.Name(id=nm, ctx=ast.Load()), body=s.body, orelse=s.orelse), s)
                return [first, ast.fix_missing_locations(s2)]
        return None

    def block(self, stmts, env, k):
        if stmts:
            s, rest = stmts[0], stmts[1:]
            # x = randint(a, b)
            if isinstance(s, ast.Assign) and len(s.targets) == 1 and isinstance(s.targets[0], ast.Name) and isinstance(s.value, ast.Call) \
               and isinstance(s.value.func, ast.Name) and s.value.func.id == "randint" and len(s.value.args) == 2 and not s.value.keywords:
                x = s.targets[0].id
                a, ta, ga = self.expr(s.value.args[0], env); b, tb, gb = self.expr(s.value.args[1], env)
                if ta != Z or tb != Z or ga or gb: bad(s, "randint arguments")
                self.declare(x, Z, s)
                return "(match v_rand_ with [] => OutOfFuel | r_ :: tl_ => if (%s <=? r_) && (r_ <=? %s) then (let v_%s := r_ in let v_rand_ := tl_ in %s) else NonInt end)" % (
                    a, b, x, self.block(rest, env | {x}, k))
            # c.contract(x, y) on a local collection
            if isinstance(s, ast.Expr) and isinstance(s.value, ast.Call) and isinstance(s.value.func, ast.Attribute) and s.value.func.attr == "contract" \
               and isinstance(s.value.func.value, ast.Name) and len(s.value.args) == 2 and not s.value.keywords:
                c = s.value.func.value.id
                if c not in env or self.vars.get(c) != CL or c in self.params: bad(s, "contract on something that is not a local collection")
                x, tx, gx = self.expr(s.value.args[0], env); y, ty, gy = self.expr(s.value.args[1], env)
                if tx != PS or ty != PS: bad(s, "contract arguments")
                return self.guard(gx + gy + [("(Nat.eqb (length %s) (length %s))" % (x, y), VERR)],
                                  "(let v_%s := (coll_contract v_%s %s %s) in %s)" % (c, c, x, y, self.block(rest, env, k)))
            if isinstance(s, ast.For) and isinstance(s.target, ast.Name) and isinstance(s.iter, ast.Name) and s.iter.id in env \
               and isinstance(self.vars.get(s.iter.id), tuple) and self.vars[s.iter.id][0] == "list":
                return Fn.block(self, stmts, env, k)
        return AppFn.block(self, stmts, env, k)

    def emit(self):
        self.prepare()
        body = [s for s in self.node.body if not (isinstance(s, ast.Expr) and isinstance(s.value, ast.Constant))]
        if not self.pure and len(body) == 1 and isinstance(body[0], ast.Return) and not self.fuel and self.resolve(body[0].value) is None and self.hoist(body[0]) is None:
            c, t, g = self.expr(body[0].value, set())
            outs = {o for _, o in g}
            if g and len(outs) == 1:
                o = outs.pop()
                self.gpure, self.ret = o, t
                ps = " ".join("(v_%s : %s)" % (n, coq_type(tt)) for n, tt in self.params.items())
                args = " ".join("v_" + n for n in self.params)
                return ("(* %s%s, lines %d-%d: a single return; value and the condition under which it does not raise *)\nDefinition %s_val %s : %s := %s.\nDefinition %s_ok %s : bool := %s.\n"
                        "Definition %s %s : fres %s := if %s_ok %s then FRet (%s_val %s) else F%s." % (
                            (self.cls + "." if self.cls else ""), self.name, self.node.lineno, self.node.end_lineno, self.coq, ps, coq_type(t), c,
                            self.coq, ps, " && ".join(gb for gb, _ in g), self.coq, ps, coq_type(t), self.coq, args, self.coq, args, o))
        return AppFn.emit(self)


class OptTranslator(AppTranslator):
    WANT = [("PauliString", "get_anti_commutants", "PauliString", "generators", [("some", "default", "py_O_PS_get_anti_commutants_in")], "default"),
            ("PauliStringCollection", "get_anticommutation_pair", "PauliStringCollection", None, [(None, "default", "py_O_C_get_anticommutation_pair")], "default"),
            ("PauliStringCollection", "list_connections", "PauliStringCollection", None, [(None, "default", "py_O_C_list_connections")], "default"),
            ("PauliStringCollection", "_get_delta", "PauliStringCollection", None, [(None, "default", "py_O_C_get_delta")], "default"),
            ("PauliStringCollection", "find_generators_with_connection", "PauliStringCollection", None, [(None, "default", "py_O_C_find_generators_with_connection")], "default")]
    FN = OptFn
    def __init__(self, repo):
        AppTranslator.__init__(self, repo)
        def body_of(n):
            return [ast.unparse(x) for x in n.body if not (isinstance(x, ast.Expr) and isinstance(x.value, ast.Constant))]
        for name, want in (("copy", ["return PauliStringCollection(self.generators)"]),
                           ("contract", ["self.replace(pauli_string, pauli_string @ contracted_pauli_string)"]),
                           ("get_canonic_vertices", ["return PauliStringCollection(self.get_class().get_vertices())"])):
            if name not in self.cdefs or body_of(self.cdefs[name]) != want:
                raise Unsupported("pinned source of PauliStringCollection.%s changed" % name)
        coll = ast.parse(open(os.path.join(repo, "src", "paulie", "common", "pauli_string_collection.py"), newline=None, encoding="utf-8-sig").read())
        if "from random import randint" not in [ast.unparse(n) for n in coll.body if isinstance(n, ast.ImportFrom)]:
            raise Unsupported("randint is no longer random.randint")
    HEADER_EXTRA = ["Definition coll_contract (l : list pstr) (x y : pstr) : list pstr := gens (fst (step true {| gens := l; cache := None |} (Contract x y)))."]


def main():
    repo, dst = sys.argv[1], sys.argv[2]
    which = sys.argv[3] if len(sys.argv) > 3 else "classification"
    path = os.path.join(repo, "src", "paulie", {"classification": "classifier/classification.py", "compiler": "application/pauli_compiler.py", "pstring": "common/pauli_string_bitarray.py", "collection": "common/pauli_string_collection.py", "parser": "common/pauli_string_parser.py", "table": "common/two_local_generators.py", "apps": "application/otoc.py", "linear": "common/pauli_string_linear.py", "optimiser": "common/pauli_string_collection.py", "search": "application/pauli_compiler.py", "factory": "common/pauli_string_factory.py", "numpy": "application/matrix_decomposition.py", "queue": "classifier/morph_factory.py"}[which])
    try:
        if which in ("search", "factory", "numpy", "queue"):
            sys.path.insert(0, os.path.dirname(os.path.abspath(__file__)))
            sys.modules.setdefault("py2coq", sys.modules[__name__])
            from py2coq_search import SearchTranslator, FactoryTranslator
            if which == "numpy":
                from py2coq_numpy import NumpyTranslator
            if which == "queue":
                from py2coq_queue import QueueTranslator
        text = QueueTranslator(repo).run() if which == "queue" else NumpyTranslator(repo).run() if which == "numpy" else FactoryTranslator(repo).run() if which == "factory" else SearchTranslator(repo).run() if which == "search" else Translator(path).run() if which == "classification" else (CompTranslator(repo).run() if which == "compiler" else (PSTranslator(repo).run() if which == "pstring" else (CollTranslator(repo).run() if which == "collection" else (ParserTranslator(repo).run() if which == "parser" else (AppTranslator(repo).run() if which == "apps" else (LinTranslator(repo).run() if which == "linear" else (OptTranslator(repo).run() if which == "optimiser" else TableTranslator(repo).run())))))))
    except Unsupported as e:
        print("py2coq: cannot translate %s: %s" % ("common/get_graph.py, application/otoc.py, fourpoint.py, charges.py or the graph methods of the collection" if which == "apps" else path, e)); sys.exit(3)
    with open(dst, "w") as f:
        f.write(text)
    print("py2coq: wrote %s (%d lines)" % (dst, text.count("\n")))


if __name__ == "__main__":
    main()
