#!/usr/bin/env python3
"""store_seed.py <Cxx> <seed_dir> <name> <caught:yes|no|after-strengthening> <notes...> : keep a confirmed seeded change under seeded/<name>/"""
import json, os, shutil, sys
pid, src, name, caught = sys.argv[1:5]
notes = " ".join(sys.argv[5:])
dst = os.path.join(os.path.dirname(os.path.dirname(os.path.abspath(__file__))), "seeded", name)
os.makedirs(dst, exist_ok=True)
for f in ("patch.diff", "demo.py"):
    shutil.copy(os.path.join(src, f), os.path.join(dst, f))
meta = json.load(open(os.path.join(src, "meta.json")))
conf = open("/tmp/confirm_%s.check" % pid).read().splitlines() if os.path.exists("/tmp/confirm_%s.check" % pid) else []
meta.update({"property": pid, "origin": "independent sub-agent given only the property text and a scratch worktree",
             "confirmed": "fresh worktree of /repo HEAD: demo exits 0 on the clean tree and 1 with the patch; 517 tests pass with the patch (tools/try_seed.sh)",
             "ran": "git -C /repo apply patch.diff; ./check %s --tier quick; git -C /repo checkout -- ." % pid,
             "caught_by_check": caught, "check_output_tail": [l[:300] for l in conf if l.startswith("#")][:3] + conf[-1:], "notes": notes})
json.dump(meta, open(os.path.join(dst, "meta.json"), "w"), indent=1)
print("stored", dst)
