#!/usr/bin/env python3
"""py2coq_numpy.py — twelfth translation target of tools/py2coq.py: the in-place butterfly of application/matrix_decomposition.py
(matrix_decomposition_diagonal: a while loop over the stride h, a for loop over the blocks, slice reads and slice assignments on one array).

Contracts (numpy; trusted): a 1-D ndarray is (its ndim, the list of its entries); the 2-D argument of matrix_decomposition is read only through ndim, shape[0], shape[1]
and _mat_to_vec(matrix) — the Pauli-order vectorisation (Model/Decomp.vec; its source, a recursion over index arrays, is pinned and compared by the differential check) —
which are the four parameters of the translation; 1j * v multiplies every entry by i; x.shape[0] is the number of entries (the code reads it only after
it has checked ndim == 1); x.astype(np.complex128) is a copy with the same values; b[a:c] reads the entries a..c-1 (Python's clamping), as a value —
the right-hand sides of `b[..], b[..] = e1, e2` are evaluated completely before the first store, so that x, y being views of b does not matter;
`b[a:c] = v` replaces those entries and raises ValueError when v has another length; + and - are entry-wise on arrays of one length (ValueError
otherwise), `/ 2` halves every entry; int(k).bit_count() is the number of one bits; range(a, b, s) with s > 0.
NUMBERS: the entries are exact dyadic Gaussian rationals (numerator in Z[i], exponent e: value = numerator / 2^e); + and - bring both operands to the
larger exponent, / 2 adds one to the exponent.  Floating point (rounding of the halvings, which is exact in binary floating point short of underflow)
is not modelled."""
import ast, os
from py2coq import Unsupported, bad, tup, pat
from py2coq_search import SFn, Z, B, ctype as s_ctype, dflt as s_dflt
import py2coq_search as S_

VEC = ("list", "num")
VERR = 'Raised (EUser "ValueError"%string)'
_ct, _df = S_.ctype, S_.dflt
def ctype(t):
    if t == "num": return "num"
    return _ct(t)
def dflt(t):
    if t == "num": return "((0, 0), O)"
    return _df(t)
S_.ctype, S_.dflt = ctype, dflt


class NFn(SFn):
    def __init__(self, tr, node, coq):
        import copy
        node = copy.deepcopy(node)
        self.arr = [a.arg for a in node.args.args if ast.unparse(a.annotation) == "np.ndarray"]
        if len(self.arr) != 1 or len(node.args.args) != 1: bad(node, "signature (one ndarray parameter)")
        if ast.unparse(node.returns) != "np.ndarray": bad(node, "return annotation")
        node.returns = None
        for a in node.args.args: a.annotation = ast.parse("int").body[0].value
        SFn.__init__(self, tr, node, coq, False)
        a = self.arr[0]
        # a 2-D array that is only read through ndim, shape and _mat_to_vec: (ndim, shape[0], shape[1], _mat_to_vec(matrix))
        self.two_d = any(isinstance(x, ast.Call) and ast.unparse(x.func) == "_mat_to_vec" for x in ast.walk(node))
        self.params = {a + "_ndim": Z, a + "_shape0": Z, a + "_shape1": Z, a + "_vec": VEC} if self.two_d else {a + "_ndim": Z, a: VEC}
        self.ret = VEC
        self.fuel = True

    def expr(self, e, env, nar=frozenset()):
        E = lambda x: self.expr(x, env, nar)
        src = ast.unparse(e)
        a = self.arr[0]
        if src == a + ".ndim": return "v_%s_ndim" % a, Z, []
        if self.two_d:
            if src in (a + ".shape[0]", a + ".shape[1]"): return "v_%s_shape%s" % (a, src[-2]), Z, []
            if src == "_mat_to_vec(%s)" % a: return "v_%s_vec" % a, VEC, []
            if isinstance(e, ast.Name) and e.id == a: bad(e, "the matrix itself is read (only ndim, shape and _mat_to_vec(matrix) are modelled)")
        if isinstance(e, ast.BinOp) and isinstance(e.op, ast.Mult) and isinstance(e.left, ast.Constant) and e.left.value == 1j:
            c, t, g = E(e.right)
            if t != VEC: bad(e, "1j * %r" % (t,))
            return "(vnimul %s)" % c, VEC, g
        if isinstance(e, ast.Subscript) and ast.unparse(e.value).endswith(".shape") and ast.unparse(e.slice) == "0":
            c, t, g = E(e.value.value)
            if t != VEC: bad(e, "shape of %r" % (t,))
            return "(Z.of_nat (length %s))" % c, Z, g
        if isinstance(e, ast.Call) and src.endswith(".bit_count()") and isinstance(e.func.value, ast.Call) and ast.unparse(e.func.value.func) == "int" and len(e.func.value.args) == 1:
            c, t, g = E(e.func.value.args[0])
            if t != Z: bad(e, "bit_count of %r" % (t,))
            return "(popcountZ %s)" % c, Z, g
        if isinstance(e, ast.Call) and src.endswith(".astype(np.complex128)"):
            c, t, g = E(e.func.value)
            if t != VEC: bad(e, "astype of %r" % (t,))
            return c, VEC, g
        if isinstance(e, ast.Subscript) and isinstance(e.slice, ast.Slice) and e.slice.step is None and e.slice.lower is not None and e.slice.upper is not None:
            c, t, g = E(e.value)
            if t == VEC:
                lo, tl, gl = E(e.slice.lower); hi, th, gh = E(e.slice.upper)
                if (tl, th) != (Z, Z): bad(e, "slice bounds")
                return "(slice_range %s %s %s)" % (c, lo, hi), VEC, g + gl + gh
        if isinstance(e, ast.BinOp):
            if isinstance(e.op, ast.Div) and isinstance(e.right, ast.Constant) and e.right.value == 2:
                c, t, g = E(e.left)
                if t != VEC: bad(e, "/ 2 of %r" % (t,))
                return "(vnhalf %s)" % c, VEC, g
            if isinstance(e.op, (ast.Add, ast.Sub)):
                x, tx, gx = E(e.left); y, ty, gy = E(e.right)
                if tx == VEC and ty == VEC:
                    f = "vnadd" if isinstance(e.op, ast.Add) else "vnsub"
                    return "(%s %s %s)" % (f, x, y), VEC, gx + gy + [("(Nat.eqb (length %s) (length %s))" % (x, y), VERR)]
        return SFn.expr(self, e, env, nar)

    def block(self, stmts, env, nar, k):
        if stmts:
            s, rest = stmts[0], stmts[1:]
            R = lambda env2: self.block(rest, env2, nar, k)
            # b[a:c], b[c:d] = e1, e2
            if isinstance(s, ast.Assign) and len(s.targets) == 1 and isinstance(s.targets[0], ast.Tuple) and all(isinstance(t, ast.Subscript) and isinstance(t.slice, ast.Slice) for t in s.targets[0].elts) \
               and isinstance(s.value, ast.Tuple) and len(s.value.elts) == len(s.targets[0].elts):
                vals = [self.expr(v, env, nar) for v in s.value.elts]
                if any(t != VEC for _, t, _ in vals): bad(s, "slice assignment of non-arrays")
                gs = [g for _, _, gg in vals for g in gg]
                names = ["rhs%d_" % i for i in range(len(vals))]
                cur_env = env
                stores = []
                for tg, nm in zip(s.targets[0].elts, names):
                    if not isinstance(tg.value, ast.Name): bad(s, "slice target")
                    al = cur_env.get(tg.value.id)
                    if al is None or self.tv(al) != VEC: bad(s, "slice store into %s" % tg.value.id)
                    lo, tl, gl = self.expr(tg.slice.lower, env, nar); hi, th, gh = self.expr(tg.slice.upper, env, nar)
                    if (tl, th) != (Z, Z) or tg.slice.step is not None: bad(s, "slice bounds")
                    stores.append((al, lo, hi, nm, gl + gh))
                body, e3 = R(env)
                txt = body
                for al, lo, hi, nm, gg in reversed(stores):
                    txt = self.guard(gg, "(if (Nat.eqb (length %s) (length (slice_range v_%s %s %s))) then (let v_%s := (slice_assign v_%s %s %s %s) in %s) else %s)" % (nm, al, lo, hi, al, al, lo, hi, nm, txt, VERR))
                for nm, (c, _, _) in reversed(list(zip(names, vals))):
                    txt = "(let %s := %s in %s)" % (nm, c, txt)
                return self.guard(gs, txt), e3
            if isinstance(s, ast.AugAssign) and isinstance(s.op, ast.Mult) and isinstance(s.target, ast.Name):
                al = env.get(s.target.id)
                if al is None or self.tv(al) != Z: bad(s, "*= on %s" % s.target.id)
                c, t, g = self.expr(s.value, env, nar)
                if t != Z: bad(s, "*= of non-int")
                body, e3 = R(env)
                return self.guard(g, "(let v_%s := (v_%s * %s) in %s)" % (al, al, c, body)), e3
            if isinstance(s, ast.For) and isinstance(s.iter, ast.Call) and ast.unparse(s.iter.func) == "range" and len(s.iter.args) == 3 and isinstance(s.target, ast.Name):
                ps = [self.expr(a, env, nar) for a in s.iter.args]
                if any(t != Z for _, t, _ in ps): bad(s, "range of non-int")
                g = [x for _, _, gg in ps for x in gg] + [("(0 <? %s)" % ps[2][0], VERR)]
                it = "(pyrange_step %s %s %s)" % (ps[0][0], ps[1][0], ps[2][0])
                benv = dict(env)
                al, benv = self.assign_alias(s.target.id, Z, s, benv)
                stored = self.assigned_in(s.body)
                for nm in stored | {s.target.id}:
                    if env.get(nm) is not None: self.mark.add(nm)
                body, eb = self.block(s.body, benv, nar, None)
                cont, e3 = self.block(rest, env, nar, k)
                return self.guard(g, "(seqo (unloop (fold_left (fun (o_ : outcome %s %s) (it_ : Z) => seqo o_ (fun %s => let v_%s := it_ in uncont %s)) %s (Next %s))) (fun %s => %s))" % (
                    self.stype2(), ctype(self.ret), self.sp(), al, body, it, self.st(), self.sp(), cont)), e3
        return SFn.block(self, stmts, env, nar, k)

    def assigned_in(self, stmts):
        return SFn.assigned_in(stmts)


class NumpyTranslator:
    WANT = ["matrix_decomposition_diagonal", "matrix_decomposition"]
    def __init__(self, repo):
        path = os.path.join(repo, "src", "paulie", "application", "matrix_decomposition.py")
        self.tree = ast.parse(open(path, newline=None, encoding="utf-8-sig").read())
        self.fns = {}
        self.defs = {n.name: n for n in self.tree.body if isinstance(n, ast.FunctionDef)}
        def body_of(n):
            return [ast.unparse(x) for x in n.body if not (isinstance(x, ast.Expr) and isinstance(x.value, ast.Constant))]
        want_m2v = ["log2n = int(matrix.shape[0]).bit_length() - 1", "row = np.zeros(4 ** log2n, dtype=np.int64)", "col = np.zeros(4 ** log2n, dtype=np.int64)",
                    "_pauli_ord(row, col, log2n)", "flat_index = (1 << log2n) * row + col", "return matrix.reshape(-1)[flat_index].astype(np.complex128)"]
        if "_mat_to_vec" not in self.defs or body_of(self.defs["_mat_to_vec"]) != want_m2v: raise Unsupported("pinned source of _mat_to_vec changed")
        want_po = ["if n == 1:\n    row[0], col[0] = (0, 0)\n    row[1], col[1] = (1, 1)\n    row[2], col[2] = (0, 1)\n    row[3], col[3] = (1, 0)\n    return", "_pauli_ord(row, col, n - 1)", "pw = 1 << 2 * (n - 1)",
                   "row[pw:2 * pw] = row[:pw] + (1 << n - 1)", "col[pw:2 * pw] = col[:pw] + (1 << n - 1)", "row[2 * pw:3 * pw] = row[:pw]", "col[2 * pw:3 * pw] = col[:pw] + (1 << n - 1)",
                   "row[3 * pw:4 * pw] = row[:pw] + (1 << n - 1)", "col[3 * pw:4 * pw] = col[:pw]"]
        if "_pauli_ord" not in self.defs or body_of(self.defs["_pauli_ord"]) != want_po: raise Unsupported("pinned source of _pauli_ord changed: %r" % (body_of(self.defs.get("_pauli_ord")) if "_pauli_ord" in self.defs else None,))
        if "import numpy as np" not in [ast.unparse(n) for n in self.tree.body if isinstance(n, ast.Import)]: raise Unsupported("numpy is no longer imported as np")

    HEADER = """(* GENERATED by tools/py2coq.py (py2coq_numpy.py) from src/paulie/application/matrix_decomposition.py — do not edit *)
From PauLieRefine Require Import PySem.
From PauLie Require Import Pauli.
Open Scope Z_scope.

(* exact dyadic Gaussian rationals: (numerator, exponent), value = numerator / 2^exponent *)
Definition num := (gi * nat)%type.
Definition gscale2 (k : nat) (z : gi) : gi := (fst z * 2 ^ Z.of_nat k, snd z * 2 ^ Z.of_nat k).
Definition nalign (f : gi -> gi -> gi) (a b : num) : num :=
  let e := Nat.max (snd a) (snd b) in (f (gscale2 (e - snd a) (fst a)) (gscale2 (e - snd b) (fst b)), e).
Definition vnadd (x y : list num) : list num := map (fun p => nalign gadd (fst p) (snd p)) (combine x y).
Definition vnsub (x y : list num) : list num := map (fun p => nalign gsub (fst p) (snd p)) (combine x y).
Definition vnhalf (x : list num) : list num := map (fun a => (fst a, S (snd a))) x.
Definition vnimul (x : list num) : list num := map (fun a => (gmul gI (fst a), snd a)) x.
(* b[a:c] = v *)
Definition slice_assign {A} (l : list A) (a c : Z) (v : list A) : list A := firstn (clamp l a) l ++ v ++ skipn (Nat.max (clamp l a) (clamp l c)) l.
(* range(a, b, s), s > 0 *)
Definition pyrange_step (a b s : Z) : list Z := map (fun i => a + Z.of_nat i * s) (seq 0 (Z.to_nat ((b - a + s - 1) / s))).
Definition popcountZ (k : Z) : Z := match k with Zpos p => (fix pc (q : positive) : Z := match q with xH => 1 | xO r => pc r | xI r => 1 + pc r end) p | _ => 0 end.
"""
    def run(self):
        out = [self.HEADER]
        for name in self.WANT:
            node = self.defs.get(name)
            if node is None: raise Unsupported("%s not found in the source" % name)
            f = NFn(self, node, "py_N_" + name)
            out.append(f.emit()); out.append("")
            self.fns[name] = f
        return "\n".join(out)
