#!/usr/bin/env python3
"""py2coq_numpy.py — twelfth translation target of tools/py2coq.py: all of application/matrix_decomposition.py — the in-place butterflies
(a while loop over the stride h, a for loop over the blocks, slice reads and slice assignments on one array) and the Pauli-order vectorisation
(_pauli_ord: recursion, element and slice stores on two index arrays; _mat_to_vec: the gather).

Contracts (numpy; trusted): a 1-D ndarray is (its ndim, the list of its entries); the 2-D argument of matrix_decomposition is (ndim, shape[0], shape[1], the row-major list of
its entries — what matrix.reshape(-1) hands over); _mat_to_vec and _pauli_ord (a recursion over two int64 index arrays, a gather) are translated too (class IProc below); 1j * v multiplies every entry by i; x.shape[0] is the number of entries (the code reads it only after
it has checked ndim == 1); x.astype(np.complex128) is a copy with the same values; b[a:c] reads the entries a..c-1 (Python's clamping), as a value —
the right-hand sides of `b[..], b[..] = e1, e2` are evaluated completely before the first store, so that x, y being views of b does not matter;
`b[a:c] = v` replaces those entries and raises ValueError when v has another length; + and - are entry-wise on arrays of one length (ValueError
otherwise), `/ 2` halves every entry; int(k).bit_count() is the number of one bits; range(a, b, s) with s > 0.
NUMBERS: the entries are exact dyadic Gaussian rationals (numerator in Z[i], exponent e: value = numerator / 2^e); + and - bring both operands to the
larger exponent, / 2 adds one to the exponent.  Floating point (rounding of the halvings, which is exact in binary floating point short of underflow)
is not modelled."""
import ast, os
from py2coq import Unsupported, bad, tup, pat
from py2coq_search import SFn, Z, B, ctype as s_ctype, dflt as s_dflt
import py2coq_search as S_

VEC = ("list", "num")
VERR = 'Raised (EUser "ValueError"%string)'
_ct, _df = S_.ctype, S_.dflt
def ctype(t):
    if t == "num": return "num"
    return _ct(t)
def dflt(t):
    if t == "num": return "((0, 0), O)"
    return _df(t)
S_.ctype, S_.dflt = ctype, dflt


class NFn(SFn):
    def __init__(self, tr, node, coq):
        import copy
        node = copy.deepcopy(node)
        self.arr = [a.arg for a in node.args.args if ast.unparse(a.annotation) == "np.ndarray"]
        if len(self.arr) != 1 or len(node.args.args) != 1: bad(node, "signature (one ndarray parameter)")
        if ast.unparse(node.returns) != "np.ndarray": bad(node, "return annotation")
        node.returns = None
        for a in node.args.args: a.annotation = ast.parse("int").body[0].value
        SFn.__init__(self, tr, node, coq, False)
        a = self.arr[0]
        # a 2-D array that is only read through ndim, shape and _mat_to_vec: (ndim, shape[0], shape[1], _mat_to_vec(matrix))
        self.two_d = any(isinstance(x, ast.Call) and ast.unparse(x.func) == "_mat_to_vec" for x in ast.walk(node))
        self.params = {a + "_ndim": Z, a + "_shape0": Z, a + "_shape1": Z, a + "_flat": VEC} if self.two_d else {a + "_ndim": Z, a: VEC}
        self.ret = VEC
        self.fuel = True

    def expr(self, e, env, nar=frozenset()):
        E = lambda x: self.expr(x, env, nar)
        src = ast.unparse(e)
        a = self.arr[0]
        if src == a + ".ndim": return "v_%s_ndim" % a, Z, []
        if self.two_d:
            if src in (a + ".shape[0]", a + ".shape[1]"): return "v_%s_shape%s" % (a, src[-2]), Z, []
            if isinstance(e, ast.Name) and e.id == a: bad(e, "the matrix itself is read (only ndim, shape and _mat_to_vec(matrix) are modelled)")
        if isinstance(e, ast.BinOp) and isinstance(e.op, ast.Mult) and isinstance(e.left, ast.Constant) and e.left.value == 1j:
            c, t, g = E(e.right)
            if t != VEC: bad(e, "1j * %r" % (t,))
            return "(vnimul %s)" % c, VEC, g
        if isinstance(e, ast.Subscript) and ast.unparse(e.value).endswith(".shape") and ast.unparse(e.slice) == "0":
            c, t, g = E(e.value.value)
            if t != VEC: bad(e, "shape of %r" % (t,))
            return "(Z.of_nat (length %s))" % c, Z, g
        if isinstance(e, ast.Call) and src.endswith(".bit_count()") and isinstance(e.func.value, ast.Call) and ast.unparse(e.func.value.func) == "int" and len(e.func.value.args) == 1:
            c, t, g = E(e.func.value.args[0])
            if t != Z: bad(e, "bit_count of %r" % (t,))
            return "(popcountZ %s)" % c, Z, g
        if isinstance(e, ast.Call) and src.endswith(".astype(np.complex128)"):
            c, t, g = E(e.func.value)
            if t != VEC: bad(e, "astype of %r" % (t,))
            return c, VEC, g
        if isinstance(e, ast.Subscript) and isinstance(e.slice, ast.Slice) and e.slice.step is None and e.slice.lower is not None and e.slice.upper is not None:
            c, t, g = E(e.value)
            if t == VEC:
                lo, tl, gl = E(e.slice.lower); hi, th, gh = E(e.slice.upper)
                if (tl, th) != (Z, Z): bad(e, "slice bounds")
                return "(slice_range %s %s %s)" % (c, lo, hi), VEC, g + gl + gh
        if isinstance(e, ast.BinOp):
            if isinstance(e.op, ast.Div) and isinstance(e.right, ast.Constant) and e.right.value == 2:
                c, t, g = E(e.left)
                if t != VEC: bad(e, "/ 2 of %r" % (t,))
                return "(vnhalf %s)" % c, VEC, g
            if isinstance(e.op, (ast.Add, ast.Sub)):
                x, tx, gx = E(e.left); y, ty, gy = E(e.right)
                if tx == VEC and ty == VEC:
                    f = "vnadd" if isinstance(e.op, ast.Add) else "vnsub"
                    return "(%s %s %s)" % (f, x, y), VEC, gx + gy + [("(Nat.eqb (length %s) (length %s))" % (x, y), VERR)]
        return SFn.expr(self, e, env, nar)

    def block(self, stmts, env, nar, k):
        if stmts:
            s, rest = stmts[0], stmts[1:]
            R = lambda env2: self.block(rest, env2, nar, k)
            # b = _mat_to_vec(matrix): the translated helper, on shape[0] and the row-major entries
            if self.two_d and isinstance(s, ast.Assign) and len(s.targets) == 1 and isinstance(s.targets[0], ast.Name) and ast.unparse(s.value) == "_mat_to_vec(%s)" % self.arr[0]:
                a = self.arr[0]
                al, env2 = self.assign_alias(s.targets[0].id, VEC, s, env)
                body, e3 = self.block(rest, env2, frozenset(set(nar) - {s.targets[0].id}), k)
                return "(bindr (py_N__mat_to_vec fuel v_%s_shape0 v_%s_flat) (fun r_ => let v_%s := r_ in %s))" % (a, a, al, body), e3
            # b[a:c], b[c:d] = e1, e2
            if isinstance(s, ast.Assign) and len(s.targets) == 1 and isinstance(s.targets[0], ast.Tuple) and all(isinstance(t, ast.Subscript) and isinstance(t.slice, ast.Slice) for t in s.targets[0].elts) \
               and isinstance(s.value, ast.Tuple) and len(s.value.elts) == len(s.targets[0].elts):
                vals = [self.expr(v, env, nar) for v in s.value.elts]
                if any(t != VEC for _, t, _ in vals): bad(s, "slice assignment of non-arrays")
                gs = [g for _, _, gg in vals for g in gg]
                names = ["rhs%d_" % i for i in range(len(vals))]
                cur_env = env
                stores = []
                for tg, nm in zip(s.targets[0].elts, names):
                    if not isinstance(tg.value, ast.Name): bad(s, "slice target")
                    al = cur_env.get(tg.value.id)
                    if al is None or self.tv(al) != VEC: bad(s, "slice store into %s" % tg.value.id)
                    lo, tl, gl = self.expr(tg.slice.lower, env, nar); hi, th, gh = self.expr(tg.slice.upper, env, nar)
                    if (tl, th) != (Z, Z) or tg.slice.step is not None: bad(s, "slice bounds")
                    stores.append((al, lo, hi, nm, gl + gh))
                body, e3 = R(env)
                txt = body
                for al, lo, hi, nm, gg in reversed(stores):
                    txt = self.guard(gg, "(if (Nat.eqb (length %s) (length (slice_range v_%s %s %s))) then (let v_%s := (slice_assign v_%s %s %s %s) in %s) else %s)" % (nm, al, lo, hi, al, al, lo, hi, nm, txt, VERR))
                for nm, (c, _, _) in reversed(list(zip(names, vals))):
                    txt = "(let %s := %s in %s)" % (nm, c, txt)
                return self.guard(gs, txt), e3
            if isinstance(s, ast.AugAssign) and isinstance(s.op, ast.Mult) and isinstance(s.target, ast.Name):
                al = env.get(s.target.id)
                if al is None or self.tv(al) != Z: bad(s, "*= on %s" % s.target.id)
                c, t, g = self.expr(s.value, env, nar)
                if t != Z: bad(s, "*= of non-int")
                body, e3 = R(env)
                return self.guard(g, "(let v_%s := (v_%s * %s) in %s)" % (al, al, c, body)), e3
            if isinstance(s, ast.For) and isinstance(s.iter, ast.Call) and ast.unparse(s.iter.func) == "range" and len(s.iter.args) == 3 and isinstance(s.target, ast.Name):
                ps = [self.expr(a, env, nar) for a in s.iter.args]
                if any(t != Z for _, t, _ in ps): bad(s, "range of non-int")
                g = [x for _, _, gg in ps for x in gg] + [("(0 <? %s)" % ps[2][0], VERR)]
                it = "(pyrange_step %s %s %s)" % (ps[0][0], ps[1][0], ps[2][0])
                benv = dict(env)
                al, benv = self.assign_alias(s.target.id, Z, s, benv)
                stored = self.assigned_in(s.body)
                for nm in stored | {s.target.id}:
                    if env.get(nm) is not None: self.mark.add(nm)
                body, eb = self.block(s.body, benv, nar, None)
                cont, e3 = self.block(rest, env, nar, k)
                return self.guard(g, "(seqo (unloop (fold_left (fun (o_ : outcome %s %s) (it_ : Z) => seqo o_ (fun %s => let v_%s := it_ in uncont %s)) %s (Next %s))) (fun %s => %s))" % (
                    self.stype2(), ctype(self.ret), self.sp(), al, body, it, self.st(), self.sp(), cont)), e3
        return SFn.block(self, stmts, env, nar, k)

    def assigned_in(self, stmts):
        return SFn.assigned_in(stmts)


class IProc:
    """_pauli_ord / _mat_to_vec: straight-line procedures over int64 index arrays (one `if … return`, a recursive call, element stores, slice
    stores, broadcasting int arithmetic, one fancy index).  Contracts (numpy; trusted): an int64 array is the list of its entries (wrap-around at 2^63
    is not modelled: every value is below 4^n, the number of entries of an array that exists); `a[i], b[j] = c, d` stores in order after evaluating the
    right-hand side, IndexError outside the array; `a[lo:hi] = v` as in the butterflies (a v of another length is ValueError; numpy's broadcasting of a
    one-element v is not modelled); `a[:e]`, `a[lo:hi]` are values; array + int and int * array act entry-wise, array + array on equal lengths;
    `np.zeros(e, dtype=np.int64)` is e zeros (ValueError for e < 0); `x << y` is ValueError for y < 0; `x ** y` leaves the integers for y < 0;
    `int(x).bit_length()`; `matrix.reshape(-1)` is the row-major list of the entries of the 2-D array, `flat[index_array]` picks entries
    (IndexError outside; negative indices count from the end); `.astype(np.complex128)` keeps the values.  A call of the procedure itself on
    its own array parameters mutates them in place: the callee's final arrays are rebound.  Recursion is on fuel."""
    def __init__(self, node, coq, kind):
        self.node, self.coq, self.kind, self.name = node, coq, kind, node.name
        self.ints, self.arrs, self.vecs = set(), set(), set()
        if kind == "proc":
            if [ast.unparse(a.annotation) for a in node.args.args] != ["np.ndarray", "np.ndarray", "int"] or ast.unparse(node.returns) != "None": bad(node, "signature of %s" % node.name)
            self.aparams = [a.arg for a in node.args.args[:2]]; self.iparam = node.args.args[2].arg
            self.arrs |= set(self.aparams); self.ints.add(self.iparam)
            self.ret = "(list Z * list Z)"
        elif kind == "tab":
            if [ast.unparse(a.annotation) for a in node.args.args] != ["int"] * len(node.args.args) or ast.unparse(node.returns) != "np.ndarray": bad(node, "signature of %s" % node.name)
            if [ast.unparse(d) for d in node.args.defaults] not in ([], ["0"]): bad(node, "default values of %s" % node.name)
            self.iparams = [a.arg for a in node.args.args]
            self.ints |= set(self.iparams)
            self.ret = "(list Z)"
        else:
            if [ast.unparse(a.annotation) for a in node.args.args] != ["np.ndarray"] or ast.unparse(node.returns) != "np.ndarray": bad(node, "signature of %s" % node.name)
            self.mat = node.args.args[0].arg
            self.ret = "(list num)"
        self.ft = []

    def iexpr(self, e):
        """-> (coq, guards)"""
        if isinstance(e, ast.Constant) and type(e.value) is int: return ("%d" % e.value if e.value >= 0 else "(%d)" % e.value), []
        if isinstance(e, ast.Name) and e.id in self.ints: return "v_" + e.id, []
        if self.kind == "fn" and ast.unparse(e) == self.mat + ".shape[0]": return "v_%s_shape0" % self.mat, []
        if isinstance(e, ast.Call) and ast.unparse(e.func) == "int" and len(e.args) == 1 and not e.keywords: return self.iexpr(e.args[0])
        if isinstance(e, ast.Call) and isinstance(e.func, ast.Attribute) and e.func.attr == "bit_length" and not e.args and not e.keywords:
            c, g = self.iexpr(e.func.value)
            return "(bit_lengthZ %s)" % c, g
        if isinstance(e, ast.BinOp):
            x, gx = self.iexpr(e.left); y, gy = self.iexpr(e.right)
            if isinstance(e.op, ast.Add): return "(%s + %s)" % (x, y), gx + gy
            if isinstance(e.op, ast.Sub): return "(%s - %s)" % (x, y), gx + gy
            if isinstance(e.op, ast.Mult): return "(%s * %s)" % (x, y), gx + gy
            if isinstance(e.op, ast.LShift): return "(Z.shiftl %s %s)" % (x, y), gx + gy + [("(0 <=? %s)" % y, 'FRaised (EUser "ValueError"%string)')]
            if isinstance(e.op, ast.Pow): return "(%s ^ %s)" % (x, y), gx + gy + [("(0 <=? %s)" % y, "FNonInt")]
            if isinstance(e.op, (ast.Mod, ast.FloorDiv)):
                nz = isinstance(e.right, ast.Constant) and type(e.right.value) is int and e.right.value != 0
                return "(%s %s %s)" % (x, "mod" if isinstance(e.op, ast.Mod) else "/", y), gx + gy + ([] if nz else [("(negb (%s =? 0))" % y, "FRaised EZeroDivision")])
        bad(e, "integer expression %s" % ast.unparse(e))

    def is_int(self, e):
        try:
            self.iexpr(e); return True
        except Unsupported:
            return False

    def aexpr(self, e):
        """int-array expression -> (coq, guards)"""
        VE = 'FRaised (EUser "ValueError"%string)'
        if isinstance(e, ast.Name) and e.id in self.arrs: return "v_" + e.id, []
        if isinstance(e, ast.Subscript) and isinstance(e.slice, ast.Slice) and e.slice.step is None and isinstance(e.value, ast.Name) and e.value.id in self.arrs:
            a = "v_" + e.value.id
            if e.slice.lower is None and e.slice.upper is not None:
                hi, g = self.iexpr(e.slice.upper); return "(slice_to %s %s)" % (a, hi), g
            if e.slice.lower is not None and e.slice.upper is not None:
                lo, g1 = self.iexpr(e.slice.lower); hi, g2 = self.iexpr(e.slice.upper); return "(slice_range %s %s %s)" % (a, lo, hi), g1 + g2
        if isinstance(e, ast.Call) and ast.unparse(e.func) == "np.zeros" and len(e.args) == 1 and [(k.arg, ast.unparse(k.value)) for k in e.keywords] in ([("dtype", "np.int64")], [("dtype", "int")]):
            c, g = self.iexpr(e.args[0])
            return "(repeat 0 (Z.to_nat %s))" % c, g + [("(0 <=? %s)" % c, VE)]
        if isinstance(e, ast.BinOp) and isinstance(e.op, (ast.Add, ast.Mult)):
            li, ri = self.is_int(e.left), self.is_int(e.right)
            op = "+" if isinstance(e.op, ast.Add) else "*"
            if li and not ri:
                c, g1 = self.iexpr(e.left); a, g2 = self.aexpr(e.right)
                return "(map (fun x_ => %s %s x_) %s)" % (c, op, a), g1 + g2
            if ri and not li:
                a, g1 = self.aexpr(e.left); c, g2 = self.iexpr(e.right)
                return "(map (fun x_ => x_ %s %s) %s)" % (op, c, a), g1 + g2
            if not li and not ri:
                a, g1 = self.aexpr(e.left); b, g2 = self.aexpr(e.right)
                return "(map (fun p_ => fst p_ %s snd p_) (combine %s %s))" % (op, a, b), g1 + g2 + [("(Nat.eqb (length %s) (length %s))" % (a, b), VE)]
        bad(e, "index-array expression %s" % ast.unparse(e))

    def cond(self, t):
        if isinstance(t, ast.Compare) and len(t.ops) == 1 and isinstance(t.ops[0], (ast.Eq, ast.NotEq, ast.Lt, ast.LtE, ast.Gt, ast.GtE)):
            x, g1 = self.iexpr(t.left); y, g2 = self.iexpr(t.comparators[0])
            op = t.ops[0]
            c = {ast.Eq: "(%s =? %s)", ast.NotEq: "(negb (%s =? %s))", ast.Lt: "(%s <? %s)", ast.LtE: "(%s <=? %s)", ast.Gt: "(%s >? %s)", ast.GtE: "(%s >=? %s)"}[type(op)] % (x, y)
            return c, g1 + g2
        bad(t, "condition %s" % ast.unparse(t))

    @staticmethod
    def guard(gs, txt):
        for g, o in reversed(gs):
            txt = "(if %s then %s else %s)" % (g, txt, o)
        return txt

    def fallthrough(self):
        if self.ft: return self.ft[-1]
        return "(FRet (%s))" % ", ".join("v_" + a for a in self.aparams) if self.kind == "proc" else "(FNone)"

    def block(self, stmts):
        if not stmts: return self.fallthrough()
        s, rest = stmts[0], stmts[1:]
        if isinstance(s, ast.Expr) and isinstance(s.value, ast.Constant): return self.block(rest)
        VE = 'FRaised (EUser "ValueError"%string)'
        if isinstance(s, ast.If) and not s.orelse and isinstance(s.test, ast.Compare) and len(s.test.ops) == 1 and isinstance(s.test.ops[0], ast.Eq):
            x, g1 = self.iexpr(s.test.left); y, g2 = self.iexpr(s.test.comparators[0])
            if not any(isinstance(n, ast.Return) for n in s.body[-1:]): bad(s, "an if that falls through")
            return self.guard(g1 + g2, "(if (%s =? %s) then %s else %s)" % (x, y, self.block(s.body), self.block(rest)))
        PROP = "| FNone => FNone | FRaised e_ => FRaised e_ | FNonInt => FNonInt | FOutOfFuel => FOutOfFuel end"
        if isinstance(s, ast.AugAssign) and isinstance(s.target, ast.Name) and isinstance(s.op, (ast.Add, ast.Sub, ast.Mult, ast.FloorDiv, ast.Mod)):
            return self.block([ast.copy_location(ast.Assign(targets=[ast.Name(id=s.target.id, ctx=ast.Store())], value=ast.BinOp(left=ast.Name(id=s.target.id, ctx=ast.Load()), op=s.op, right=s.value)), s)] + rest)
        if isinstance(s, ast.If) and not s.orelse and not any(isinstance(n, (ast.Return, ast.For, ast.While)) for n in ast.walk(s)):
            # if c: x = e; ...   (integer assignments only, nothing that can raise)
            c = self.cond(s.test)
            names = []
            for b in s.body:
                b2 = b
                if isinstance(b, ast.AugAssign) and isinstance(b.target, ast.Name):
                    b2 = ast.Assign(targets=[ast.Name(id=b.target.id, ctx=ast.Store())], value=ast.BinOp(left=ast.Name(id=b.target.id, ctx=ast.Load()), op=b.op, right=b.value))
                if not (isinstance(b2, ast.Assign) and len(b2.targets) == 1 and isinstance(b2.targets[0], ast.Name) and b2.targets[0].id in self.ints): bad(b, "statement in an if body")
                v, g = self.iexpr(b2.value)
                if g: bad(b, "an if body that can raise")
                names.append((b2.targets[0].id, v))
            vs = []
            for nm, _ in names:
                if nm not in vs: vs.append(nm)
            inner = pat_("v_" + nm for nm in vs)
            for nm, v in reversed(names):
                inner = "(let v_%s := %s in %s)" % (nm, v, inner)
            return self.guard(c[1], "(let %s := (if %s then %s else %s) in %s)" % (("'" if len(vs) > 1 else "") + pat_("v_" + nm for nm in vs), c[0], inner, pat_("v_" + nm for nm in vs), self.block(rest)))
        if isinstance(s, ast.For) and not s.orelse and isinstance(s.target, ast.Name) and isinstance(s.iter, ast.Call) and ast.unparse(s.iter.func) == "range" and len(s.iter.args) == 1 and not s.iter.keywords:
            e, g = self.iexpr(s.iter.args[0])
            before_i, before_a = set(self.ints), set(self.arrs)
            assigned = []
            for n in ast.walk(ast.Module(body=s.body, type_ignores=[])):
                tg = None
                if isinstance(n, (ast.Assign, ast.AugAssign)):
                    for t in (n.targets if isinstance(n, ast.Assign) else [n.target]):
                        for t2 in (t.elts if isinstance(t, ast.Tuple) else [t]):
                            nm = t2.id if isinstance(t2, ast.Name) else (t2.value.id if isinstance(t2, ast.Subscript) and isinstance(t2.value, ast.Name) else None)
                            if nm is None: bad(n, "assignment target in a loop")
                            if nm not in assigned: assigned.append(nm)
                if isinstance(n, ast.For) and isinstance(n.target, ast.Name) and n.target.id not in assigned: assigned.append(n.target.id)
            state = [nm for nm in assigned if nm in before_i or nm in before_a]
            if not state: bad(s, "a loop without state")
            if s.target.id in before_i or s.target.id in before_a: bad(s, "loop variable shadows a local")
            ty = " * ".join("Z" if nm in before_i else "list Z" for nm in state)
            sp = ("'" if len(state) > 1 else "") + pat_("v_" + nm for nm in state)
            st = pat_("v_" + nm for nm in state)
            self.ints.add(s.target.id)
            self.ft.append("(FRet %s)" % st)
            body = self.block(s.body)
            self.ft.pop()
            local_i, local_a = self.ints - before_i, self.arrs - before_a
            self.ints, self.arrs = before_i, before_a
            for n in ast.walk(ast.Module(body=rest, type_ignores=[])):
                if isinstance(n, ast.Name) and (n.id in local_i or n.id in local_a): bad(s, "%s is assigned only inside the loop and read after it" % n.id)
            return self.guard(g, "(match fold_left (fun (o_ : fres (%s)) (it_ : Z) => match o_ with FRet st_ => let %s := st_ in let v_%s := it_ in %s %s) (pyrange %s) (FRet %s) with FRet st_ => let %s := st_ in %s %s)" % (
                ty, sp, s.target.id, body, PROP, e, st, sp, self.block(rest), PROP))
        if isinstance(s, ast.Assign) and len(s.targets) == 1 and isinstance(s.targets[0], ast.Subscript) and not isinstance(s.targets[0].slice, ast.Slice) \
           and isinstance(s.targets[0].value, ast.Name) and s.targets[0].value.id in self.arrs:
            a = s.targets[0].value.id
            ix, g1 = self.iexpr(s.targets[0].slice); v, g2 = self.iexpr(s.value)
            return self.guard(g2 + g1, "(let rhs_ := %s in if idx_ok v_%s %s then (let v_%s := list_set v_%s %s rhs_ in %s) else FRaised EIndex)" % (v, a, ix, a, a, ix, self.block(rest)))
        if isinstance(s, ast.Return) and self.kind == "tab":
            if not (isinstance(s.value, ast.Name) and s.value.id in self.arrs): bad(s, "return value")
            return "(FRet v_%s)" % s.value.id
        if isinstance(s, ast.Return):
            if s.value is None:
                if self.kind != "proc": bad(s, "bare return")
                return "(FRet (%s))" % ", ".join("v_" + a for a in self.aparams)
            if self.kind == "fn" and isinstance(s.value, ast.Call) and ast.unparse(s.value.func).endswith(".astype") and ast.unparse(s.value.args[0]) == "np.complex128" and len(s.value.args) == 1:
                inner = s.value.func.value
                if isinstance(inner, ast.Subscript) and ast.unparse(inner.value) == self.mat + ".reshape(-1)":
                    ix, g = self.aexpr(inner.slice)
                    return self.guard(g, "(if forallb (idx_ok v_%s_flat) %s then FRet (map (list_get ((0, 0), O) v_%s_flat) %s) else FRaised EIndex)" % (self.mat, ix, self.mat, ix))
            bad(s, "return value")
        if isinstance(s, ast.Expr) and isinstance(s.value, ast.Call) and isinstance(s.value.func, ast.Name) and not s.value.keywords:
            f = s.value.func.id
            callee = PROCS.get(f)
            if callee is None or callee.kind != "proc" or len(s.value.args) != 3: bad(s, "call of %s" % f)
            a0, a1 = s.value.args[0], s.value.args[1]
            if not (isinstance(a0, ast.Name) and isinstance(a1, ast.Name) and a0.id in self.arrs and a1.id in self.arrs and a0.id != a1.id): bad(s, "array arguments of %s" % f)
            c, g = self.iexpr(s.value.args[2])
            return self.guard(g, "(match %s fuel v_%s v_%s %s with FRet (r0_, r1_) => let v_%s := r0_ in let v_%s := r1_ in %s | FNone => FNone | FRaised e_ => FRaised e_ | FNonInt => FNonInt | FOutOfFuel => FOutOfFuel end)" % (
                callee.coq, a0.id, a1.id, c, a0.id, a1.id, self.block(rest)))
        if isinstance(s, ast.Assign) and len(s.targets) == 1:
            tg, v = s.targets[0], s.value
            if isinstance(tg, ast.Name):
                if self.is_int(v):
                    if tg.id in self.arrs: bad(s, "%s changes type" % tg.id)
                    c, g = self.iexpr(v)
                    txt = self.guard(g, "(let v_%s := %s in \0)" % (tg.id, c))
                    self.ints.add(tg.id)
                    return txt.replace("\0", self.block(rest))
                if tg.id in self.ints: bad(s, "%s changes type" % tg.id)
                c, g = self.aexpr(v)
                txt = self.guard(g, "(let v_%s := %s in \0)" % (tg.id, c))
                self.arrs.add(tg.id)
                return txt.replace("\0", self.block(rest))
            if isinstance(tg, ast.Tuple) and isinstance(v, ast.Tuple) and len(tg.elts) == len(v.elts) and all(isinstance(t, ast.Subscript) and not isinstance(t.slice, ast.Slice) and isinstance(t.value, ast.Name) and t.value.id in self.arrs for t in tg.elts):
                vals = [self.iexpr(x) for x in v.elts]
                gs = [g for _, gg in vals for g in gg]
                txt = self.block(rest)
                stores = []
                for i, t in enumerate(tg.elts):
                    ix, g = self.iexpr(t.slice)
                    stores.append((t.value.id, ix, g, "rhs%d_" % i))
                for a, ix, g, nm in reversed(stores):
                    txt = self.guard(g, "(if idx_ok v_%s %s then (let v_%s := list_set v_%s %s %s in %s) else FRaised EIndex)" % (a, ix, a, a, ix, nm, txt))
                for i, (c, _) in reversed(list(enumerate(vals))):
                    txt = "(let rhs%d_ := %s in %s)" % (i, c, txt)
                return self.guard(gs, txt)
            if isinstance(tg, ast.Subscript) and isinstance(tg.slice, ast.Slice) and tg.slice.step is None and tg.slice.lower is not None and tg.slice.upper is not None \
               and isinstance(tg.value, ast.Name) and tg.value.id in self.arrs:
                a = tg.value.id
                c, g = self.aexpr(v)
                lo, g1 = self.iexpr(tg.slice.lower); hi, g2 = self.iexpr(tg.slice.upper)
                return self.guard(g + g1 + g2, "(let rhs_ := %s in if Nat.eqb (length rhs_) (length (slice_range v_%s %s %s)) then (let v_%s := slice_assign v_%s %s %s rhs_ in %s) else %s)" % (
                    c, a, lo, hi, a, a, lo, hi, self.block(rest), VE))
        bad(s, "statement %s" % ast.unparse(s).split("\n")[0])

    def emit(self):
        PROCS[self.name] = self
        body = self.block(self.node.body)
        if self.kind == "proc":
            ps = " ".join("(v_%s : list Z)" % a for a in self.aparams) + " (v_%s : Z)" % self.iparam
        elif self.kind == "tab":
            ps = " ".join("(v_%s : Z)" % a for a in self.iparams)
            return "Definition %s %s : fres %s :=\n  %s." % (self.coq, ps, self.ret, body)
        else:
            ps = "(v_%s_shape0 : Z) (v_%s_flat : list num)" % (self.mat, self.mat)
        rec = (self.coq + " fuel") in body
        return "%s %s (fuel : nat) %s%s : fres %s :=\n  match fuel with O => FOutOfFuel | S fuel =>\n  %s\n  end." % ("Fixpoint" if rec else "Definition", self.coq, ps, " {struct fuel}" if rec else "", self.ret, body)

PROCS = {}
def pat_(names):
    names = list(names)
    return names[0] if len(names) == 1 else "(" + ", ".join(names) + ")"


class NumpyTranslator:
    WANT = ["matrix_decomposition_diagonal", "matrix_decomposition"]
    def __init__(self, repo):
        self.repo = repo
        path = os.path.join(repo, "src", "paulie", "application", "matrix_decomposition.py")
        self.tree = ast.parse(open(path, newline=None, encoding="utf-8-sig").read())
        self.fns = {}
        self.defs = {n.name: n for n in self.tree.body if isinstance(n, ast.FunctionDef)}
        if "import numpy as np" not in [ast.unparse(n) for n in self.tree.body if isinstance(n, ast.Import)]: raise Unsupported("numpy is no longer imported as np")

    HEADER = """(* GENERATED by tools/py2coq.py (py2coq_numpy.py) from src/paulie/application/matrix_decomposition.py — do not edit *)
From PauLieRefine Require Import PySem.
From PauLie Require Import Pauli.
Open Scope Z_scope.

(* exact dyadic Gaussian rationals: (numerator, exponent), value = numerator / 2^exponent *)
Definition num := (gi * nat)%type.
Definition gscale2 (k : nat) (z : gi) : gi := (fst z * 2 ^ Z.of_nat k, snd z * 2 ^ Z.of_nat k).
Definition nalign (f : gi -> gi -> gi) (a b : num) : num :=
  let e := Nat.max (snd a) (snd b) in (f (gscale2 (e - snd a) (fst a)) (gscale2 (e - snd b) (fst b)), e).
Definition vnadd (x y : list num) : list num := map (fun p => nalign gadd (fst p) (snd p)) (combine x y).
Definition vnsub (x y : list num) : list num := map (fun p => nalign gsub (fst p) (snd p)) (combine x y).
Definition vnhalf (x : list num) : list num := map (fun a => (fst a, S (snd a))) x.
Definition vnimul (x : list num) : list num := map (fun a => (gmul gI (fst a), snd a)) x.
(* b[a:c] = v *)
Definition slice_assign {A} (l : list A) (a c : Z) (v : list A) : list A := firstn (clamp l a) l ++ v ++ skipn (Nat.max (clamp l a) (clamp l c)) l.
(* range(a, b, s), s > 0 *)
Definition pyrange_step (a b s : Z) : list Z := map (fun i => a + Z.of_nat i * s) (seq 0 (Z.to_nat ((b - a + s - 1) / s))).
Definition bit_lengthZ (k : Z) : Z := match k with Z0 => 0 | Zpos p | Zneg p => Z.log2 (Zpos p) + 1 end.
Definition popcountZ (k : Z) : Z := match k with Zpos p => (fix pc (q : positive) : Z := match q with xH => 1 | xO r => pc r | xI r => 1 + pc r end) p | _ => 0 end.
"""
    def run(self):
        out = [self.HEADER]
        PROCS.clear()
        for name, kind in (("_pauli_ord", "proc"), ("_mat_to_vec", "fn")):
            node = self.defs.get(name)
            if node is None: raise Unsupported("%s not found in the source" % name)
            out.append(IProc(node, "py_N_" + name, kind).emit()); out.append("")
        wpath = os.path.join(self.repo, "src", "paulie", "application", "average_pauli_weight.py")
        wtree = ast.parse(open(wpath, newline=None, encoding="utf-8-sig").read())
        wdefs = {n.name: n for n in wtree.body if isinstance(n, ast.FunctionDef)}
        if "get_pauli_weights" not in wdefs: raise Unsupported("get_pauli_weights not found in average_pauli_weight.py")
        out.append("(* get_pauli_weights (average_pauli_weight.py), lines %d-%d *)" % (wdefs["get_pauli_weights"].lineno, wdefs["get_pauli_weights"].end_lineno))
        out.append(IProc(wdefs["get_pauli_weights"], "py_N_get_pauli_weights", "tab").emit()); out.append("")
        for name in self.WANT:
            node = self.defs.get(name)
            if node is None: raise Unsupported("%s not found in the source" % name)
            f = NFn(self, node, "py_N_" + name)
            out.append(f.emit()); out.append("")
            self.fns[name] = f
        return "\n".join(out)
