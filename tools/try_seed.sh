#!/bin/bash
# tools/try_seed.sh <Cxx> <seed_dir> [tier] : confirm a seeded change independently, then run the check against it.
# Uses a scratch worktree (removed afterwards) and PAULIE_REPO, so /repo itself is never touched and other runs are
# not disturbed; `git -C /repo apply patch.diff; ./check Cxx; git -C /repo checkout -- .` is equivalent.
set -u
id=$1; seed=$2; tier=${3:-quick}
wt=/tmp/confirm_$id
git -C /repo worktree remove --force $wt >/dev/null 2>&1
git -C /repo worktree add -q --detach $wt HEAD || exit 2
PAULIE_SRC=$wt/src /venv/bin/python $seed/demo.py >/dev/null 2>&1; echo "demo on clean tree: exit $?"
( cd $wt && git apply $seed/patch.diff ) || { echo "patch does not apply"; git -C /repo worktree remove --force $wt; exit 2; }
PAULIE_SRC=$wt/src /venv/bin/python $seed/demo.py >/tmp/confirm_$id.demo 2>&1; echo "demo on changed tree: exit $? ($(tail -1 /tmp/confirm_$id.demo | cut -c1-150))"
( cd $wt && /venv/bin/python -m pytest -q -p no:cacheprovider --timeout=900 -x 2>&1 | tail -1 )
cd /verif
cp evidence/$id.json /tmp/confirm_$id.evidence.bak 2>/dev/null
PAULIE_REPO=$wt ./check $id --tier $tier > /tmp/confirm_$id.check 2>&1; rc=$?
cp /tmp/confirm_$id.evidence.bak evidence/$id.json 2>/dev/null
git -C /repo worktree remove --force $wt
echo "check $id --tier $tier on changed tree: exit $rc"; grep -c '^VIOLATION' /tmp/confirm_$id.check; grep '^#' /tmp/confirm_$id.check | head -3 | cut -c1-300; tail -1 /tmp/confirm_$id.check
