#!/bin/bash
# tools/try_seed.sh <Cxx> <seed_dir> [tier] : confirm a seeded change independently, then run the check against it
# 1. fresh scratch worktree: patch applies, demo fails with it / passes without it, test-suite green with it
# 2. apply to /repo, run ./check, revert
set -u
id=$1; seed=$2; tier=${3:-quick}
wt=/tmp/confirm_$id
git -C /repo worktree remove --force $wt >/dev/null 2>&1
git -C /repo worktree add -q --detach $wt HEAD || exit 2
PAULIE_SRC=$wt/src /venv/bin/python $seed/demo.py >/dev/null 2>&1; echo "demo on clean tree: exit $?"
( cd $wt && git apply $seed/patch.diff ) || { echo "patch does not apply"; git -C /repo worktree remove --force $wt; exit 2; }
PAULIE_SRC=$wt/src /venv/bin/python $seed/demo.py >/tmp/confirm_$id.demo 2>&1; echo "demo on changed tree: exit $? ($(tail -1 /tmp/confirm_$id.demo | cut -c1-150))"
( cd $wt && /venv/bin/python -m pytest -q -p no:cacheprovider --timeout=900 -x 2>&1 | tail -1 )
git -C /repo worktree remove --force $wt
cd /verif
git -C /repo apply $seed/patch.diff || { echo "cannot apply to /repo"; exit 2; }
./check $id --tier $tier > /tmp/confirm_$id.check 2>&1; rc=$?
git -C /repo checkout -- .
echo "check $id --tier $tier on changed tree: exit $rc"; grep -c '^VIOLATION' /tmp/confirm_$id.check; grep '^#' /tmp/confirm_$id.check | head -3 | cut -c1-300; tail -1 /tmp/confirm_$id.check
git -C /repo status --short | head -3
