#!/usr/bin/env python3
"""gen_seed_table.py: rewrite the table in DESIGN.md section 12 from seeded/*/meta.json"""
import glob, json, os, re
root = os.path.dirname(os.path.dirname(os.path.abspath(__file__)))
rows = []
for m in sorted(glob.glob(os.path.join(root, "seeded", "*", "meta.json"))):
    d = json.load(open(m))
    cell = lambda s, k=170: re.sub(r"\s+", " ", str(s)).replace("|", "/")[:k]  # noqa: E731
    rows.append("| `%s` | %s | %s | %s | %s | %s |" % (os.path.basename(os.path.dirname(m)), d["property"], cell(d.get("summary", "")),
                                                   cell(d.get("needs", "")), d.get("caught_by_check"), cell(d.get("notes", ""), 260)))
p = os.path.join(root, "DESIGN.md")
s = open(p).read()
head = "| Seed | Property | Change | Needs | Caught by `./check` | What was strengthened |\n|---|---|---|---|---|---|\n"
i = s.index(head)
j = i + len(head)
while s[j:j + 1] == "|":
    j = s.index("\n", j) + 1
s = s[:i] + head + "\n".join(rows) + "\n" + s[j:]
open(p, "w").write(s)
print(len(rows), "seeds")
