#!/bin/bash
# tools/translate_all.sh : regenerate every translation target from /repo's working tree and re-check every Refine file
# (what the checks do piecewise); run after every change of tools/py2coq.py or coq/Refine.
cd "$(dirname "$0")/../coq"
gen=$(mktemp -d /tmp/trall.XXXX); rc=0
q="-Q Model PauLie -Q Theory PauLie -Q Refine PauLieRefine -Q $gen PauLieGen -w -notation-overridden,-deprecated"
for k in classification:Class compiler:Comp pstring:PS collection:Coll parser:Parser table:Table apps:App linear:Lin optimiser:Opt search:Search factory:Factory numpy:Numpy queue:Queue; do
  ( /venv/bin/python ../tools/py2coq.py /repo $gen/${k#*:}Gen.v ${k%%:*} > $gen/${k#*:}.log 2>&1 \
    && timeout 300 coqc $q $gen/${k#*:}Gen.v >> $gen/${k#*:}.log 2>&1 \
    && timeout 600 coqc $q -o $gen/${k#*:}Refine.vo Refine/${k#*:}Refine.v >> $gen/${k#*:}.log 2>&1 \
    && echo "${k%%:*}: ok ($(grep -c 'Closed under the global context' $gen/${k#*:}.log) closed)" || { echo "${k%%:*}: FAILED"; tail -5 $gen/${k#*:}.log; } ) &
done
wait
rm -rf $gen
