#!/usr/bin/env python3
"""py2coq_search.py — tenth translation target of tools/py2coq.py: the self-checking search of application/pauli_compiler.py.

Translated structurally (Python ast -> Gallina, same semantic kit Refine/PySem.v, fail-closed): the module functions _tensor, _multiply,
_commutes, _left_part, _right_part, _ad_apply, _nested_commutator_result, _sequence_to_paulie_orientation and the methods
OptimalPauliCompiler.extend_left, _left_factor_from_sequence, _case3_best_reordering, _bfs_case3, compile, and compile_target.

NOT translated, and nothing is assumed about them: SubsystemCompiler.subsystem_compiler, left_map_over_a,
OptimalPauliCompiler._candidate_decompositions, _all_interleavings_preserving, _all_interleavings_preserving4.  Every call of one of
these reads the next answer of an INPUT STREAM (parameter orc_ : list oans): a list of strings, a list of lists, a list of pairs, or
an exception.  An answer of the wrong shape leaves the model (NonInt); an exhausted stream is the exception 'helper answers exhausted' (so that OutOfFuel means one thing only: a while loop of the translated code ran longer than its fuel).  A translated callee that itself
consults the stream (_case3_best_reordering) is handed a sub-stream (answer OSub).  The refinement theorems quantify over all streams:
whatever those five functions return or raise, a sequence that compile returns has passed the source's own nested-commutator check.
(A generator answer is a list: an exception in the middle of an iteration is an exception of compile and returns nothing.)

Contracts (each a theorem of Refine/PSRefine.v about the source, or pinned source text): a | b = commutes_code, a @ b = multiply_code
(ValueError on unequal lengths), a.tensor(b) = a ++ b, p.get_substring(s, l) = firstn l (skipn s p) for s, l >= 0 (negative arguments leave
the model), str(p) = p, p.is_identity() = Pauli.is_identity p, len; get_identity(n) = identity n (ValueError for n < 0),
get_single(n, i, L) = identity with L at site i for 0 <= i < n (IndexError otherwise; factory source pinned by the compiler target);
left_a_minimal(k) = Compiler.left_a_minimal k (Refine/CompRefine.gen_left_a_minimal, checked by the compiler target in the same run);
"I" * k = identity k; itertools.permutations(range(3)) = the six triples in lexicographic order; list / tuple / slice semantics of Python;
self.k, self.n_right, self.n_total, self.fallback_depth, self.fallback_nodes are the integers the pinned constructor stores
(n_right = n_total - k); self.sub is a SubsystemCompiler; `assert c` raises AssertionError when c is false."""
import ast, os
from py2coq import Unsupported, bad, tup, pat

Z, B, PS, PL, NONE = "Z", "bool", "pstr", "pl", "none"
def T_opt(t): return ("opt", t)
def T_list(t): return ("list", t)
def T_tup(ts): return ("tuple", tuple(ts))
LPS = T_list(PS)
VERR = 'Raised (EUser "ValueError"%string)'

def ctype(t):
    if t in (Z, B, PS, PL): return {Z: "Z", B: "bool", PS: "pstr", PL: "pl"}[t]
    if t[0] == "opt": return "(option %s)" % ctype(t[1])
    if t[0] in ("list", "set"): return "(list %s)" % ctype(t[1])
    if t[0] == "dict": return "(list (%s * %s))" % (ctype(t[1]), ctype(t[2]))
    if t[0] == "tuple": return "(" + " * ".join(ctype(x) for x in t[1]) + ")"
    raise Unsupported("no Coq type for %r" % (t,))

def dflt(t):
    if t == Z: return "0"
    if t == B: return "false"
    if t == PS: return "[]"
    if t == PL: return "PI"
    if t[0] == "opt": return "None"
    if t[0] in ("list", "set", "dict"): return "[]"
    if t[0] == "tuple": return "(" + ", ".join(dflt(x) for x in t[1]) + ")"
    raise Unsupported("no default for %r" % (t,))

def eqb(t):
    if t == Z: return "Z.eqb"
    if t == PS: return "pstr_eqb"
    if t == PL: return "pl_eqb"
    if t[0] == "opt": return "(opt_eqb %s)" % eqb(t[1])
    if t[0] == "tuple" and len(t[1]) == 2: return "(pair_eqb %s %s)" % (eqb(t[1][0]), eqb(t[1][1]))
    raise Unsupported("no equality for %r" % (t,))

ORACLES = {  # callee text (method / function name) -> (answer constructor, result type)
    "self.sub.subsystem_compiler": ("OLps", LPS),
    "self._candidate_decompositions": ("OPairs", T_list(T_tup([PS, PS]))),
    "self._all_interleavings_preserving": ("OLLps", T_list(LPS)),
    "self._all_interleavings_preserving4": ("OLLps", T_list(LPS)),
}
FIELDS = ["k", "n_right", "n_total", "fallback_depth", "fallback_nodes"]
NEXT_SHAPE = "next((i for i, ch in enumerate(%s) if ch != 'I'))"


class SFn:
    def __init__(self, tr, node, coq, method):
        self.tr, self.node, self.coq, self.method = tr, node, coq, method
        self.name = node.name
        if node.args.vararg or node.args.kwarg or node.args.kwonlyargs or node.decorator_list or node.args.defaults: bad(node, "signature")
        self.params = {}
        for a in node.args.args:
            if a.arg == "self":
                if not method: bad(node, "self in a module function")
                continue
            self.params[a.arg] = self.ann(a.annotation, a)
        self.ret = self.ann(node.returns, node) if node.returns is not None else None
        self.vars = {}            # alias -> type (locals, in order of first assignment)
        self.aliases = {}         # base name -> [aliases]
        self.fields = [f for f in FIELDS if any(isinstance(x, ast.Attribute) and ast.unparse(x) == "self." + f for x in ast.walk(node))] if method else []
        self.uses_orc = False
        self.fuel = False
        self.valok = None         # (value text, ok text, outcome) for single-return functions
        self.listalias = set()    # names bound to the builtin `list`
        self.hc = 0
        self.objs = {}            # local name -> {field: coq text} for an OptimalPauliCompiler built by the pinned constructor call
        self.has_key_of = any(isinstance(x, ast.FunctionDef) and x.name == "key_of" and [ast.unparse(y) for y in x.body] == ["return None if p is None else str(p)"] for x in node.body)
        # A local is part of the threaded state only when one of its values crosses a control-flow boundary: it is assigned inside a loop body
        # while being live at the loop's entry, or assigned inside a branch of an `if` and visible after it.  Every other local is a plain `let`
        # (all its reads are lexically inside the continuation of the assignment that reaches them).  Computed by a first pass (self.mark).
        for n in ast.walk(node):
            if isinstance(n, (ast.Global, ast.Nonlocal)): bad(n, "global / nonlocal")
        self.stateful = set()
        self.mark = set()
        self.imm = {}

    @staticmethod
    def assigned_in(stmts):
        """base names assigned or mutated anywhere inside stmts"""
        out = set()
        for st_ in stmts:
            for n in ast.walk(st_):
                if isinstance(n, ast.Name) and isinstance(n.ctx, ast.Store): out.add(n.id)
                if isinstance(n, ast.Call) and isinstance(n.func, ast.Attribute) and isinstance(n.func.value, ast.Name) and \
                   n.func.attr in ("append", "extend", "add", "pop", "popleft", "insert", "remove", "clear", "sort", "reverse", "update", "setdefault", "discard"): out.add(n.func.value.id)
                if isinstance(n, ast.Subscript) and isinstance(n.ctx, (ast.Store, ast.Del)) and isinstance(n.value, ast.Name): out.add(n.value.id)
                if isinstance(n, ast.AugAssign):
                    for m in ast.walk(n.target):
                        if isinstance(m, ast.Name): out.add(m.id)
        return out

    def tv(self, al):
        return self.imm[al] if al in self.imm else self.vars[al]

    # ----- types from annotations -----
    def ann(self, a, node):
        txt = ast.unparse(a) if a is not None else None
        tbl = {"int": Z, "bool": B, "PauliString": PS, "list[PauliString]": LPS, "PauliString | None": T_opt(PS), "list[PauliString] | None": T_opt(LPS),
               "list[tuple[PauliString, PauliString]]": T_list(T_tup([PS, PS])), "str | None": T_opt(PS), "str": PS,
               "list[tuple[PauliString | None, list[int]]]": T_list(T_tup([T_opt(PS), T_list(Z)])), "dict[tuple[int, str], bool]": ("dict", T_tup([Z, T_opt(PS)]), B),
               "deque[PauliString]": LPS, "dict[str, tuple[str, str, PauliString]]": ("dict", PS, T_tup([PS, PS, PS]))}
        if txt not in tbl: bad(node, "annotation %r" % txt)
        return tbl[txt]

    # ----- variables -----
    def state(self): return ["v_" + v for v in self.vars]
    def stype(self): return "(" + " * ".join(ctype(t) for t in self.vars.values()) + ")" if self.vars else "unit"
    def st(self): return tup(self.state())
    def sp(self): return pat(self.state())

    def assign_alias(self, name, t, node, env):
        """alias of `name` that has type t (a variable assigned values of several types is split); updates env"""
        tbl = self.vars if name in self.stateful else self.imm
        for al in self.aliases.get(name, []):
            if tbl[al] == t:
                break
        else:
            al = name if name not in self.aliases else "%s__%d" % (name, len(self.aliases[name]) + 1)
            self.aliases.setdefault(name, []).append(al)
            tbl[al] = t
        env = dict(env); env[name] = al
        return al, env

    def coerce(self, c, t, want, node):
        if t == want: return c
        if t == "nil" and want[0] == "list": return "[]"
        if want[0] == "opt" and t == NONE: return "None"
        if want[0] == "opt" and t == want[1]: return "(Some %s)" % c
        bad(node, "a value of type %r where %r is expected" % (t, want))

    def expr_want(self, e, want, env, nar=frozenset()):
        """expression of a declared type: literals are coerced component by component -> (coq, guards)"""
        if isinstance(e, ast.List) and want[0] == "list":
            ps = [self.expr_want(v, want[1], env, nar) for v in e.elts]
            return "[" + "; ".join(c for c, _ in ps) + "]", [x for _, g in ps for x in g]
        if isinstance(e, ast.Tuple) and want[0] == "tuple" and len(e.elts) == len(want[1]):
            ps = [self.expr_want(v, w, env, nar) for v, w in zip(e.elts, want[1])]
            return tup(c for c, _ in ps), [x for _, g in ps for x in g]
        c, t, g = self.expr(e, env, nar)
        return self.coerce(c, t, want, e), g

    # ----- expressions -> (coq, type, guards) -----
    def expr(self, e, env, nar=frozenset()):
        E = lambda x: self.expr(x, env, nar)
        if isinstance(e, ast.Constant):
            if e.value is None: return "None", NONE, []
            if isinstance(e.value, bool): return ("true" if e.value else "false"), B, []
            if isinstance(e.value, int): return "(%d)" % e.value, Z, []
            if isinstance(e.value, str) and e.value in ("I", "X", "Y", "Z"): return "P" + e.value, PL, []
            bad(e, "constant %r" % (e.value,))
        if isinstance(e, ast.Name):
            if e.id in env and env[e.id] is not None:
                al = env[e.id]; t = self.tv(al)
                if e.id in nar and t[0] == "opt": return "(unopt %s v_%s)" % (dflt(t[1]), al), t[1], []
                return "v_" + al, t, []
            if e.id in self.params and e.id not in self.aliases:
                t = self.params[e.id]
                if e.id in nar and t[0] == "opt": return "(unopt %s v_%s)" % (dflt(t[1]), e.id), t[1], []
                return "v_" + e.id, t, []
            bad(e, "name %s is not definitely assigned here (or is ambiguous after a branch)" % e.id)
        if isinstance(e, ast.Attribute):
            src = ast.unparse(e)
            if self.method and src.startswith("self.") and src[5:] in FIELDS: return "v_self_" + src[5:], Z, []
            bad(e, "attribute %s" % src)
        if isinstance(e, ast.UnaryOp) and isinstance(e.op, ast.Not):
            c, g = self.truth(e.operand, env, nar)
            return "(negb %s)" % c, B, g
        if isinstance(e, ast.BoolOp):
            parts, nar2 = [], set(nar)
            for v in e.values:
                c, g = self.truth(v, env, frozenset(nar2))
                parts.append((c, g))
                if isinstance(e.op, ast.And): nar2 |= self.narrowed_by(v, True)
                else: nar2 |= self.narrowed_by(v, False)
            op = " && " if isinstance(e.op, ast.And) else " || "
            gs = list(parts[0][1])
            for i in range(1, len(parts)):
                reach = "(" + op.join(c for c, _ in parts[:i]) + ")"
                skip = ("(negb %s)" % reach) if isinstance(e.op, ast.And) else reach
                gs += [("(%s || %s)" % (skip, gb), o) for gb, o in parts[i][1]]
            return "(" + op.join(c for c, _ in parts) + ")", B, gs
        if isinstance(e, ast.IfExp):
            c, gc = self.truth(e.test, env, nar)
            a, ta, ga = self.expr(e.body, env, frozenset(set(nar) | self.narrowed_by(e.test, True)))
            b, tb, gb = self.expr(e.orelse, env, frozenset(set(nar) | self.narrowed_by(e.test, False)))
            if ta != tb:
                if ta == NONE and tb[0] != "opt": ta = T_opt(tb); b = "(Some %s)" % b; tb = ta
                elif tb == NONE and ta[0] != "opt": tb = T_opt(ta); a = "(Some %s)" % a; ta = tb
                elif ta[0] == "opt" and tb in (ta[1], NONE): b, tb = self.coerce(b, tb, ta, e), ta
                elif tb[0] == "opt" and ta in (tb[1], NONE): a, ta = self.coerce(a, ta, tb, e), tb
                else: bad(e, "conditional expression of %r and %r" % (ta, tb))
            g = gc + [("(negb %s || %s)" % (c, x), o) for x, o in ga] + [("(%s || %s)" % (c, x), o) for x, o in gb]
            return "(if %s then %s else %s)" % (c, a, b), ta, g
        if isinstance(e, ast.Compare):
            if len(e.ops) == 2 and all(isinstance(o, (ast.Lt, ast.LtE)) for o in e.ops):
                ps = [E(v) for v in [e.left] + e.comparators]
                if any(t != Z for _, t, _ in ps) or any(g for _, _, g in ps): bad(e, "chained comparison")
                sym = lambda o: "<?" if isinstance(o, ast.Lt) else "<=?"
                return "((%s %s %s) && (%s %s %s))" % (ps[0][0], sym(e.ops[0]), ps[1][0], ps[1][0], sym(e.ops[1]), ps[2][0]), B, []
            if len(e.ops) != 1: bad(e, "chained comparison")
            op, r = e.ops[0], e.comparators[0]
            if isinstance(op, (ast.Is, ast.IsNot)) and isinstance(r, ast.Constant) and r.value is None:
                a, ta, ga = self.expr(e.left, env)        # un-narrowed read
                if ta[0] != "opt": bad(e, "`is None` on a value that is never None (%r)" % (ta,))
                c = "(opt_is_some %s)" % a
                return (c if isinstance(op, ast.IsNot) else "(negb %s)" % c), B, ga
            a, ta, ga = E(e.left); b, tb, gb = E(r)
            if isinstance(op, (ast.In, ast.NotIn)):
                if tb[0] not in ("set", "list") or tb[1] != ta: bad(e, "membership test of %r in %r" % (ta, tb))
                c = "(mem_b %s %s %s)" % (eqb(ta), a, b)
                return (c if isinstance(op, ast.In) else "(negb %s)" % c), B, ga + gb
            if isinstance(op, (ast.Eq, ast.NotEq)):
                if ta != tb: bad(e, "== of %r and %r" % (ta, tb))
                c = "(%s %s %s)" % (eqb(ta), a, b)
                return (c if isinstance(op, ast.Eq) else "(negb %s)" % c), B, ga + gb
            if ta == Z and tb == Z:
                tbl = {ast.Lt: "<?", ast.LtE: "<=?", ast.Gt: ">?", ast.GtE: ">=?"}
                if type(op) in tbl: return "(%s %s %s)" % (a, tbl[type(op)], b), B, ga + gb
            bad(e, "comparison")
        if isinstance(e, ast.BinOp):
            if isinstance(e.op, ast.Mult) and isinstance(e.left, ast.Constant) and e.left.value == "I":
                c, t, g = E(e.right)
                if t != Z: bad(e, "string repetition count")
                return "(identity (Z.to_nat %s))" % c, PS, g
            a, ta, ga = E(e.left); b, tb, gb = E(e.right)
            if isinstance(e.op, ast.BitOr) and ta == PS and tb == PS:
                return "(res_val false (commutes_code %s %s))" % (a, b), B, ga + gb + [("(res_ok (commutes_code %s %s))" % (a, b), VERR)]
            if isinstance(e.op, ast.MatMult) and ta == PS and tb == PS:
                return "(res_val [] (multiply_code %s %s))" % (a, b), PS, ga + gb + [("(res_ok (multiply_code %s %s))" % (a, b), VERR)]
            if ta == Z and tb == Z and isinstance(e.op, (ast.Add, ast.Sub, ast.Mult)):
                return "(%s %s %s)" % (a, {ast.Add: "+", ast.Sub: "-", ast.Mult: "*"}[type(e.op)], b), Z, ga + gb
            if isinstance(e.op, ast.Add) and ta[0] == "list" and ta == tb: return "(%s ++ %s)" % (a, b), ta, ga + gb
            bad(e, "binary operator on %r, %r" % (ta, tb))
        if isinstance(e, ast.List):
            if not e.elts: return "[]", "nil", []
            ps = [E(v) for v in e.elts]
            if any(t != ps[0][1] for _, t, _ in ps): bad(e, "list literal of mixed types")
            return "[" + "; ".join(c for c, _, _ in ps) + "]", T_list(ps[0][1]), [x for _, _, g in ps for x in g]
        if isinstance(e, ast.Set):
            ps = [E(v) for v in e.elts]
            if not ps or any(t != PS for _, t, _ in ps): bad(e, "set literal (only a set of strings)")
            out = "[]"
            for c, _, _ in ps: out = "(set_add_b pstr_eqb %s %s)" % (c, out)
            return out, ("set", PS), [x for _, _, g in ps for x in g]
        if isinstance(e, ast.Tuple):
            ps = [E(v) for v in e.elts]
            return tup(c for c, _, _ in ps), T_tup([t for _, t, _ in ps]), [x for _, _, g in ps for x in g]
        if isinstance(e, ast.Subscript):
            c, t, g = E(e.value)
            if isinstance(e.slice, ast.Slice):
                s = e.slice
                if t[0] != "list" or s.step is not None or s.upper is not None or s.lower is None: bad(e, "slice shape (only l[a:])")
                lc, lt, lg = E(s.lower)
                if lt != Z: bad(e, "slice bound")
                return "(slice_from %s %s)" % (c, lc), t, g + lg
            if t[0] == "dict":
                kc, kg = self.expr_want(e.slice, t[1], env, nar)
                return "(unopt %s (kdict_get %s %s %s))" % (dflt(t[2]), eqb(t[1]), c, kc), t[2], g + kg + [("(opt_is_some (kdict_get %s %s %s))" % (eqb(t[1]), c, kc), "Raised EKey")]
            ic, it, ig = E(e.slice)
            if it != Z: bad(e, "index must be int")
            if t == PS: return "(list_get PI %s %s)" % (c, ic), PL, g + ig + [("(idx_ok %s %s)" % (c, ic), "Raised EIndex")]
            if t[0] == "list": return "(list_get %s %s %s)" % (dflt(t[1]), c, ic), t[1], g + ig + [("(idx_ok %s %s)" % (c, ic), "Raised EIndex")]
            bad(e, "subscript of %r" % (t,))
        if isinstance(e, ast.ListComp):
            if len(e.generators) != 1 or e.generators[0].is_async or e.generators[0].ifs or not isinstance(e.generators[0].target, ast.Name): bad(e, "list comprehension shape")
            gen = e.generators[0]; x = gen.target.id
            it, tit, git = E(gen.iter)
            if tit[0] != "list": bad(e, "comprehension over %r" % (tit,))
            if x in self.aliases or x in self.params or ("c_" + x) in self.vars: bad(e, "comprehension variable %s shadows a local" % x)
            self.vars["c_" + x] = tit[1]
            try:
                env2 = dict(env); env2[x] = "c_" + x
                c, t, g = self.expr(e.elt, env2, nar)
            finally:
                del self.vars["c_" + x]
            gs = git + [("(forallb (fun v_c_%s => %s) %s)" % (x, gb, it), o) for gb, o in g]
            return "(map (fun v_c_%s => %s) %s)" % (x, c, it), T_list(t), gs
        if isinstance(e, ast.Call):
            return self.call(e, env, nar)
        bad(e, "expression")

    def call(self, e, env, nar):
        E = lambda x: self.expr(x, env, nar)
        f, src = e.func, ast.unparse(e.func)
        if e.keywords: bad(e, "keyword arguments")
        if isinstance(f, ast.Name) and (f.id == "list" or f.id in self.listalias) and len(e.args) == 1:
            a = e.args[0]
            if isinstance(a, ast.Call) and ast.unparse(a.func) == "reversed" and len(a.args) == 1:
                c, t, g = E(a.args[0])
                if t[0] != "list": bad(e, "reversed of %r" % (t,))
                return "(rev %s)" % c, t, g
            c, t, g = E(a)
            if t[0] != "list": bad(e, "list of %r" % (t,))
            return c, t, g
        if src == "deque" and len(e.args) == 1:
            c, t, g = E(e.args[0])
            if t[0] != "list": bad(e, "deque of %r" % (t,))
            return c, t, g
        if src == "str" and len(e.args) == 1:
            c, t, g = E(e.args[0])
            if t != PS: bad(e, "str of %r" % (t,))
            return c, PS, g
        if src == "len" and len(e.args) == 1:
            c, t, g = E(e.args[0])
            if t != PS and t[0] != "list": bad(e, "len of %r" % (t,))
            return "(Z.of_nat (length %s))" % c, Z, g
        if src == "get_identity" and len(e.args) == 1:
            c, t, g = E(e.args[0])
            if t != Z: bad(e, "get_identity of non-int")
            return "(identity (Z.to_nat %s))" % c, PS, g + [("(0 <=? %s)" % c, VERR)]
        if src == "construct_universal_set" and len(e.args) == 2:      # Refine/CompRefine.gen_universal: for all integers N, k
            n, tn, gn = E(e.args[0]); k_, tk, gk = E(e.args[1])
            if (tn, tk) != (Z, Z): bad(e, "construct_universal_set arguments")
            u = "(universal (Z.to_nat %s) (Z.to_nat %s))" % (n, k_)
            return "(res_val [] %s)" % u, LPS, gn + gk + [("(res_ok %s)" % u, VERR)]
        if src == "key_of" and len(e.args) == 1 and self.has_key_of:      # pinned: return None if p is None else str(p)
            c, t, g = self.expr(e.args[0], env)
            return self.coerce(c, t, T_opt(PS), e), T_opt(PS), g
        if isinstance(f, ast.Attribute) and f.attr == "get" and isinstance(f.value, ast.Name) and len(e.args) == 2:
            al = env.get(f.value.id)
            if al is None or self.tv(al)[0] != "dict": bad(e, "get on a non-dict")
            dt = self.tv(al)
            kc, kg = self.expr_want(e.args[0], dt[1], env, nar)
            dc, dg = self.expr_want(e.args[1], dt[2], env, nar)
            return "(unopt %s (kdict_get %s v_%s %s))" % (dc, eqb(dt[1]), al, kc), dt[2], kg + dg
        if src == "left_a_minimal" and len(e.args) == 1:      # Refine/CompRefine.gen_left_a_minimal: for every integer k, never raises
            c, t, g = E(e.args[0])
            if t != Z: bad(e, "left_a_minimal of non-int")
            return "(left_a_minimal (Z.to_nat %s))" % c, LPS, g
        if src == "get_single" and len(e.args) == 3:
            n, tn, gn = E(e.args[0]); i, ti, gi_ = E(e.args[1]); l, tl, gl = E(e.args[2])
            if (tn, ti, tl) != (Z, Z, PL): bad(e, "get_single arguments")
            return "(get_single (Z.to_nat %s) (Z.to_nat %s) %s)" % (n, i, l), PS, gn + gi_ + gl + [("((0 <=? %s) && (%s <? %s))" % (i, i, n), "Raised EIndex")]
        if isinstance(f, ast.Attribute) and f.attr == "tensor" and len(e.args) == 1:
            a, ta, ga = E(f.value); b, tb, gb = E(e.args[0])
            if ta != PS or tb != PS: bad(e, "tensor of non-PauliStrings")
            return "(%s ++ %s)" % (a, b), PS, ga + gb
        if isinstance(f, ast.Attribute) and f.attr == "is_identity" and not e.args:
            a, ta, ga = E(f.value)
            if ta != PS: bad(e, "is_identity of %r" % (ta,))
            return "(is_identity %s)" % a, B, ga
        if isinstance(f, ast.Attribute) and f.attr == "get_substring" and len(e.args) == 2:
            a, ta, ga = E(f.value); s, ts, gs = E(e.args[0]); l, tl, gl = E(e.args[1])
            if (ta, ts, tl) != (PS, Z, Z): bad(e, "get_substring arguments")
            return "(firstn (Z.to_nat %s) (skipn (Z.to_nat %s) %s))" % (l, s, a), PS, ga + gs + gl + [("((0 <=? %s) && (0 <=? %s))" % (s, l), "NonInt")]
        if src == "next" and len(e.args) == 1 and isinstance(e.args[0], ast.GeneratorExp):
            ge = e.args[0]
            it = ge.generators[0].iter
            if not (isinstance(it, ast.Call) and ast.unparse(it.func) == "enumerate" and len(it.args) == 1) or ast.unparse(e) != NEXT_SHAPE % ast.unparse(it.args[0]):
                bad(e, "next(...) other than the pinned `next(i for i, ch in enumerate(s) if ch != 'I')`")
            c, t, g = E(it.args[0])
            if t != PS: bad(e, "next over %r" % (t,))
            return "(unopt 0 (first_non_I %s))" % c, Z, g + [("(opt_is_some (first_non_I %s))" % c, 'Raised (EUser "StopIteration"%string)')]
        # a translated function with a single return: value and no-raise condition
        fn, args = self.resolve(e, env, nar)
        if fn is not None:
            if fn.valok is None: bad(e, "call of %s inside an expression" % fn.name)
            cs, gs = args
            a = " ".join(cs)
            return "(%s_val %s)" % (fn.coq, a), fn.ret, gs + ([] if fn.always_ok else [("(%s_ok %s)" % (fn.coq, a), fn.valok)])
        bad(e, "call of %s" % src)

    def resolve(self, e, env, nar=frozenset()):
        """a call of an already translated function -> (SFn, ([coq args], guards)) or (None, None)"""
        if not isinstance(e, ast.Call) or e.keywords: return None, None
        src = ast.unparse(e.func)
        obj = None
        if isinstance(e.func, ast.Attribute) and isinstance(e.func.value, ast.Name) and e.func.value.id in self.objs:
            obj = self.objs[e.func.value.id]; src = "self." + e.func.attr
        fn = self.tr.fns.get(src)
        if fn is None: return None, None
        if len(e.args) != len(fn.params): bad(e, "arity of %s" % src)
        cs, gs = [], []
        if fn.fuel:
            self.fuel = True
            cs.append("fuel")
        for fld in fn.fields:
            if obj is not None:
                cs.append(obj[fld]); continue
            if not self.method: bad(e, "a method called from a module function")
            if fld not in self.fields: self.fields.append(fld)
            cs.append("v_self_" + fld)
        for a, (pn, pt) in zip(e.args, fn.params.items()):
            c, t, g = self.expr(a, env, nar)
            cs.append(self.coerce(c, t, pt, a)); gs += g
        return fn, (cs, gs)

    def truth(self, e, env, nar):
        c, t, g = self.expr(e, env, nar)
        if t == B: return c, g
        if t[0] == "list": return "(negb (is_nil %s))" % c, g
        bad(e, "truth value of %r" % (t,))

    def narrowed_by(self, e, when):
        """names known not to be None when test e evaluates to `when`"""
        if isinstance(e, ast.Compare) and len(e.ops) == 1 and isinstance(e.comparators[0], ast.Constant) and e.comparators[0].value is None and isinstance(e.left, ast.Name):
            if isinstance(e.ops[0], ast.IsNot) and when: return {e.left.id}
            if isinstance(e.ops[0], ast.Is) and not when: return {e.left.id}
        if isinstance(e, ast.BoolOp) and isinstance(e.op, ast.And) and when: return set().union(*[self.narrowed_by(v, True) for v in e.values])
        if isinstance(e, ast.BoolOp) and isinstance(e.op, ast.Or) and not when: return set().union(*[self.narrowed_by(v, False) for v in e.values])
        if isinstance(e, ast.UnaryOp) and isinstance(e.op, ast.Not): return self.narrowed_by(e.operand, not when)
        return set()

    def guard(self, gs, body):
        for g, o in reversed(gs):
            body = "(if %s then %s else %s)" % (g, body, o)
        return body

    # ----- statements -----
    def leaves(self, stmts):
        """control never falls through the end of stmts"""
        for s in stmts:
            if isinstance(s, (ast.Return, ast.Raise, ast.Continue, ast.Break)): return True
            if isinstance(s, ast.If) and s.orelse and self.leaves(s.body) and self.leaves(s.orelse): return True
        return False

    def merge(self, env, envs):
        """environment after a statement whose branches end in envs (branches that leave are not in envs)"""
        if not envs: return env
        out = {}
        for k in set().union(*[set(x) for x in envs]):
            vals = {x.get(k) for x in envs}
            out[k] = vals.pop() if len(vals) == 1 else None
        return {k: v for k, v in out.items() if v is not None or k in env}

    def oracle_of(self, v):
        if isinstance(v, ast.Call):
            src = ast.unparse(v.func)
            if src in ORACLES: return ORACLES[src]
        return None

    def oracle_bind(self, v, env, nar, on_value, on_raise=None):
        """read the next answer of the stream for the call v; on_value(coq) -> outcome text"""
        cons, t = self.oracle_of(v)
        self.uses_orc = True
        gs = []
        for a in v.args:
            _, _, g = self.expr(a, env, nar); gs += g
        if v.keywords: bad(v, "keyword arguments")
        rz = "Raised e_" if on_raise is None else on_raise
        return self.guard(gs, "(match v_orc_ with [] => Raised (EUser \"helper answers exhausted\"%%string) | a_ :: tl_ => let v_orc_ := tl_ in match a_ with %s r_ => %s | ORaise e_ => %s | _ => NonInt end end)" % (cons, on_value("r_"), rz)), t

    def block(self, stmts, env, nar, k):
        """-> (coq outcome text, env after) ; k = continuation text or None"""
        if not stmts:
            return ("Next %s" % self.st() if k is None else k), env
        s, rest = stmts[0], stmts[1:]
        R = lambda env2, nar2=nar: self.block(rest, env2, nar2, k)
        if isinstance(s, ast.Expr) and isinstance(s.value, ast.Constant): return R(env)
        if isinstance(s, ast.Pass): return R(env)
        if isinstance(s, ast.FunctionDef):
            if s.name == "key_of" and [ast.unparse(x) for x in s.body] == ["return None if p is None else str(p)"]: return R(env)
            bad(s, "nested function")
        if isinstance(s, ast.AnnAssign):
            if not isinstance(s.target, ast.Name) or s.value is None: bad(s, "annotated assignment shape")
            t = self.ann(s.annotation, s)
            if isinstance(s.value, (ast.List, ast.Dict)) and not (s.value.elts if isinstance(s.value, ast.List) else s.value.keys):
                al, env2 = self.assign_alias(s.target.id, t, s, env)
                body, e3 = R(env2)
                return "(let v_%s : %s := [] in %s)" % (al, ctype(t) if t[0] != "dict" else self.dict_ctype(t), body), e3
            return self.assign(s.target, s.value, s, rest, env, nar, k, want=t)
        if isinstance(s, ast.Assign):
            if len(s.targets) != 1: bad(s, "multiple targets")
            tg = s.targets[0]
            if isinstance(tg, ast.Subscript) and isinstance(tg.value, ast.Name) and not isinstance(tg.slice, ast.Slice):
                al = env.get(tg.value.id)
                if al is None or self.tv(al)[0] != "dict": bad(s, "store into a non-dict")
                dt = self.tv(al)
                kc, kg = self.expr_want(tg.slice, dt[1], env, nar)
                vc, vg = self.expr_want(s.value, dt[2], env, nar)
                body, e3 = R(env)
                return self.guard(kg + vg, "(let v_%s := kdict_set %s v_%s %s %s in %s)" % (al, eqb(dt[1]), al, kc, vc, body)), e3
            v = s.value
            if isinstance(tg, ast.Name) and isinstance(v, ast.Call) and ast.unparse(v.func) == "OptimalPauliCompiler":
                # opc = OptimalPauliCompiler(PauliCompilerConfig(k_left=K, n_total=N)): the pinned constructor and dataclass defaults
                a = v.args[0] if len(v.args) == 1 and not v.keywords else None
                if not (isinstance(a, ast.Call) and ast.unparse(a.func) == "PauliCompilerConfig" and not a.args and [k_.arg for k_ in a.keywords] == ["k_left", "n_total"]):
                    bad(s, "constructor call other than OptimalPauliCompiler(PauliCompilerConfig(k_left=..., n_total=...))")
                if tg.id in self.stateful: bad(s, "the compiler object is reassigned")
                kc, kt, kg = self.expr(a.keywords[0].value, env, nar); nc, nt, ng = self.expr(a.keywords[1].value, env, nar)
                if (kt, nt) != (Z, Z): bad(s, "constructor arguments")
                self.objs[tg.id] = {"k": kc, "n_total": nc, "n_right": "(%s - %s)" % (nc, kc), "fallback_depth": "(%d)" % self.tr.cfg_defaults["fallback_depth"],
                                    "fallback_nodes": "(%d)" % self.tr.cfg_defaults["fallback_nodes"]}
                body, e3 = R(env)
                return self.guard(kg + ng, "(if (%s <? 2) then %s else %s)" % (kc, VERR, body)), e3
            if isinstance(tg, ast.Name) and isinstance(v, ast.IfExp) and getattr(s, "_want", None) is None:
                calls = [b for b in (v.body, v.orelse) if self.resolve(b, env, nar)[0] is not None and self.resolve(b, env, nar)[0].valok is None]
                if calls:
                    # x = A if c else F(...)  with F a translated function that can raise: the same as an if statement
                    ts = []
                    for b, when in ((v.body, True), (v.orelse, False)):
                        fn, _ = self.resolve(b, env, frozenset(set(nar) | self.narrowed_by(v.test, when)))
                        ts.append(fn.ret if fn is not None and fn.valok is None else self.expr(b, env, frozenset(set(nar) | self.narrowed_by(v.test, when)))[1])
                    ta, tb = ts
                    want = ta if ta == tb else (ta if ta[0] == "opt" and tb in (ta[1], NONE) else (tb if tb[0] == "opt" and ta in (tb[1], NONE) else None))
                    if want is None: bad(s, "conditional expression of %r and %r" % (ta, tb))
                    mk = lambda val: ast.copy_location(ast.Assign(targets=[tg], value=val), s)
                    a1, a2 = mk(v.body), mk(v.orelse); a1._want = want; a2._want = want
                    return self.block([ast.copy_location(ast.If(test=v.test, body=[a1], orelse=[a2]), s)] + rest, env, nar, k)
            return self.assign(tg, v, s, rest, env, nar, k, want=getattr(s, "_want", None))
        if isinstance(s, ast.AugAssign) and isinstance(s.op, ast.Add) and isinstance(s.target, ast.Name):
            al = env.get(s.target.id)
            if al is None or self.tv(al) != Z: bad(s, "+= on %s" % s.target.id)
            c, t, g = self.expr(s.value, env, nar)
            if t != Z: bad(s, "+= of non-int")
            body, e3 = R(env)
            return self.guard(g, "(let v_%s := (v_%s + %s) in %s)" % (al, al, c, body)), e3
        if isinstance(s, ast.Assert):
            c, g = self.truth(s.test, env, nar)
            body, e3 = R(env)
            return self.guard(g, '(if %s then %s else Raised (EUser "AssertionError"%%string))' % (c, body)), e3
        if isinstance(s, ast.If):
            c, g = self.truth(s.test, env, nar)
            a, ea = self.block(s.body, env, frozenset(set(nar) | self.narrowed_by(s.test, True)), None)
            b, eb = self.block(s.orelse, env, frozenset(set(nar) | self.narrowed_by(s.test, False)), None)
            envs = ([] if self.leaves(s.body) else [ea]) + ([] if (s.orelse and self.leaves(s.orelse)) else [eb])
            env2 = self.merge(env, envs)
            for nm in self.assigned_in(s.body + s.orelse):
                if env.get(nm) is not None or env2.get(nm) is not None: self.mark.add(nm)
            nar2 = set(nar)
            if self.leaves(s.body): nar2 |= self.narrowed_by(s.test, False)
            if s.orelse and self.leaves(s.orelse): nar2 |= self.narrowed_by(s.test, True)
            stored = {n.id for x in s.body + s.orelse for n in ast.walk(x) if isinstance(n, ast.Name) and isinstance(n.ctx, ast.Store)}
            nar2 -= (stored - set(nar)) if False else set()
            cont, e3 = self.block(rest, env2, frozenset(nar2), k)
            return self.guard(g, "(seqo (if %s then %s else %s) (fun %s => %s))" % (c, a, b, self.sp(), cont)), e3
        if isinstance(s, ast.For):
            if s.orelse: bad(s, "for-else")
            orc = self.oracle_of(s.iter)
            if orc is not None:
                self.hc += 1; nm = "h%d_" % self.hc
                first = ast.copy_location(ast.Assign(targets=[ast.Name(id=nm, ctx=ast.Store())], value=s.iter), s)
                s2 = ast.copy_location(ast.For(target=s.target, iter=ast.Name(id=nm, ctx=ast.Load()), body=s.body, orelse=[]), s)
                return self.block([first, s2] + rest, env, nar, k)
            it = s.iter
            if isinstance(it, ast.Call) and ast.unparse(it.func) == "permutations" and ast.unparse(it) == "permutations(range(3))":
                c, t, g = "perms3", T_list(T_tup([Z, Z, Z])), []
            elif isinstance(it, ast.Call) and ast.unparse(it.func) == "range" and 1 <= len(it.args) <= 2 and not it.keywords:
                ps = [self.expr(a, env, nar) for a in it.args]
                if any(t != Z for _, t, _ in ps): bad(s, "range of non-int")
                g = [x for _, _, gg in ps for x in gg]
                c = "(pyrange %s)" % ps[0][0] if len(ps) == 1 else "(map (fun i_ => %s + i_) (pyrange (%s - %s)))" % (ps[0][0], ps[1][0], ps[0][0])
                t = T_list(Z)
            elif isinstance(it, ast.Call) and ast.unparse(it.func) == "enumerate" and len(it.args) == 1 and not it.keywords:
                c0, t0, g = self.expr(it.args[0], env, nar)
                if t0[0] != "list": bad(s, "enumerate of %r" % (t0,))
                c, t = "(enumerate %s)" % c0, T_list(T_tup([Z, t0[1]]))
            else:
                c, t, g = self.expr(it, env, nar)
                if t[0] == "tuple" and len(set(t[1])) == 1:      # a tuple of values of one type, iterated
                    n = len(t[1])
                    c = "(let %s := %s in [%s])" % (pat("t%d_" % i for i in range(n)), c, "; ".join("t%d_" % i for i in range(n)))
                    t = T_list(t[1][0])
            if t[0] != "list": bad(s, "loop over %r" % (t,))
            if isinstance(s.target, ast.Name):
                names, types = [s.target.id], [t[1]]
            elif isinstance(s.target, ast.Tuple) and all(isinstance(x, ast.Name) for x in s.target.elts) and t[1][0] == "tuple" and len(t[1][1]) == len(s.target.elts):
                names, types = [x.id for x in s.target.elts], list(t[1][1])
            else:
                bad(s, "loop target shape")
            benv, als = dict(env), []
            for n_, t_ in zip(names, types):
                al, benv = self.assign_alias(n_, t_, s, benv); als.append(al)
            stored = self.assigned_in(s.body)
            for nm in stored | set(names):
                if env.get(nm) is not None: self.mark.add(nm)
            body, eb = self.block(s.body, benv, frozenset(set(nar) - stored - set(names)), None)
            env2 = self.merge(env, [env, eb])
            env2 = {k_: v for k_, v in env2.items() if k_ in env}          # nothing first assigned in the body is definitely assigned after it
            cont, e3 = self.block(rest, env2, frozenset(set(nar) - stored - set(names)), k)
            binds = ("let %s := it_ in " % pat("it%d_" % i for i in range(len(als)))) + "".join("let v_%s := it%d_ in " % (al, i) for i, al in enumerate(als))
            return self.guard(g, "(seqo (unloop (fold_left (fun (o_ : outcome %s %s) (it_ : %s) => seqo o_ (fun %s => %suncont %s)) %s (Next %s))) (fun %s => %s))" % (
                self.stype2(), ctype(self.ret), ctype(t[1]), self.sp(), binds, body, c, self.st(), self.sp(), cont)), e3
        if isinstance(s, ast.While):
            # while c: body — on fuel (Refine/PySem.while_loop): OutOfFuel when the fuel does not suffice
            if s.orelse: bad(s, "while-else")
            self.fuel = True
            stored = self.assigned_in(s.body)
            for nm in stored:
                if env.get(nm) is not None: self.mark.add(nm)
            nar_l = frozenset(set(nar) - stored)
            c, g = self.truth(s.test, env, nar_l)
            if g: bad(s, "loop condition must be unguarded")
            body, eb = self.block(s.body, env, nar_l, None)
            cont, e3 = self.block(rest, env, nar_l, k)
            return "(seqo (while_loop fuel (fun %s => %s) (fun %s => %s) %s) (fun %s => %s))" % (self.sp(), c, self.sp(), body, self.st(), self.sp(), cont), e3
        if isinstance(s, ast.Continue): return "Cont %s" % self.st(), env
        if isinstance(s, ast.Break): return "Brk %s" % self.st(), env
        if isinstance(s, ast.Raise):
            if isinstance(s.exc, ast.Call) and isinstance(s.exc.func, ast.Name) and s.exc.func.id in ("RuntimeError", "ValueError"):
                return 'Raised (EUser "%s"%%string)' % s.exc.func.id, env
            bad(s, "raise")
        if isinstance(s, ast.Return):
            if self.ret is None: bad(s, "return in a function without a return annotation")
            v = s.value if s.value is not None else ast.Constant(value=None)
            fn, args = self.resolve(v, env, nar)
            if fn is not None and fn.valok is None:
                cs, gs = args
                if fn.ret != self.ret: bad(s, "return of a call of another type")
                return self.guard(gs, self.subcall(fn, cs, lambda r: "Ret %s" % r)), env
            c, t, g = self.expr(v, env, nar)
            return self.guard(g, "Ret %s" % self.coerce(c, t, self.ret, s)), env
        if isinstance(s, ast.Try):
            if len(s.body) != 1 or len(s.handlers) != 1 or s.orelse or s.finalbody or not isinstance(s.body[0], ast.Assign) \
               or not (isinstance(s.handlers[0].type, ast.Name) and s.handlers[0].name is None):
                bad(s, "try shape (only: one assignment from a call, one handler)")
            if self.oracle_of(s.body[0].value) is None:
                # try: x = F(...) except E: handler   with F a translated function: the handler runs when F raised E
                a = s.body[0]
                fn, args = self.resolve(a.value, env, nar)
                if fn is None or fn.valok is not None or fn.uses_orc or len(a.targets) != 1 or not isinstance(a.targets[0], ast.Name): bad(s, "try body")
                exn = s.handlers[0].type.id
                h, eh = self.block(s.handlers[0].body, env, nar, None)
                if not self.leaves(s.handlers[0].body): bad(s, "an exception handler that falls through")
                cs, gs = args
                al, env2 = self.assign_alias(a.targets[0].id, fn.ret, s, env)
                body, e3 = R(env2)
                return self.guard(gs, "(match (%s %s) with FRet r_ => (let v_%s := r_ in %s) | FRaised e_ => (if exn_is e_ \"%s\" then %s else Raised e_) | FNone => Raised EType | FNonInt => NonInt | FOutOfFuel => OutOfFuel end)" % (
                    fn.coq, " ".join(cs), al, body, exn, h)), e3
            exn = s.handlers[0].type.id
            h, eh = self.block(s.handlers[0].body, env, nar, None)
            if not self.leaves(s.handlers[0].body): bad(s, "an exception handler that falls through")
            a = s.body[0]
            if len(a.targets) != 1 or not isinstance(a.targets[0], ast.Name): bad(s, "try body target")
            _, t = self.oracle_of(a.value)
            al, env2 = self.assign_alias(a.targets[0].id, t, s, env)
            body, e3 = R(env2)
            txt, _ = self.oracle_bind(a.value, env, nar, lambda r: "(let v_%s := %s in %s)" % (al, r, body),
                                      on_raise='(if exn_is e_ "%s" then %s else Raised e_)' % (exn, h))
            return txt, e3
        if isinstance(s, ast.Expr) and isinstance(s.value, ast.Call) and isinstance(s.value.func, ast.Attribute) and isinstance(s.value.func.value, ast.Name) \
           and s.value.func.attr in ("add", "reverse") and not s.value.keywords:
            x = s.value.func.value.id
            al = env.get(x)
            if al is None: bad(s, "method of an unassigned container")
            t = self.tv(al)
            if s.value.func.attr == "reverse":
                if t[0] != "list" or s.value.args: bad(s, "reverse")
                body, e3 = R(env)
                return "(let v_%s := (rev v_%s) in %s)" % (al, al, body), e3
            if t[0] != "set" or len(s.value.args) != 1: bad(s, "add")
            c, g = self.expr_want(s.value.args[0], t[1], env, nar)
            body, e3 = R(env)
            return self.guard(g, "(let v_%s := (set_add_b %s %s v_%s) in %s)" % (al, eqb(t[1]), c, al, body)), e3
        if isinstance(s, ast.Expr) and isinstance(s.value, ast.Call) and isinstance(s.value.func, ast.Attribute) and s.value.func.attr == "append" \
           and isinstance(s.value.func.value, ast.Name) and len(s.value.args) == 1 and not s.value.keywords:
            x = s.value.func.value.id
            al = env.get(x)
            if al is None or self.tv(al)[0] != "list": bad(s, "append to a non-list")
            c, g = self.expr_want(s.value.args[0], self.tv(al)[1], env, nar)
            body, e3 = R(env)
            return self.guard(g, "(let v_%s := (v_%s ++ [%s]) in %s)" % (al, al, c, body)), e3
        bad(s, "statement")

    def subcall(self, fn, cs, kont):
        """bind the result of a translated callee; a callee that consults the stream gets a sub-stream"""
        a = " ".join(cs)
        if fn.uses_orc:
            self.uses_orc = True
            return "(match v_orc_ with [] => Raised (EUser \"helper answers exhausted\"%%string) | a_ :: tl_ => let v_orc_ := tl_ in match a_ with OSub sub_ => (bindr (%s %s sub_) (fun r_ => %s)) | _ => NonInt end end)" % (fn.coq, a, kont("r_"))
        return "(bindr (%s %s) (fun r_ => %s))" % (fn.coq, a, kont("r_"))

    def dict_ctype(self, t): return "(list (%s * %s))" % (ctype(t[1]), ctype(t[2]))

    def assign(self, tg, v, s, rest, env, nar, k, want=None):
        R = lambda env2, nar2=nar: self.block(rest, env2, nar2, k)
        if isinstance(tg, ast.Name):
            x = tg.id
            if isinstance(v, ast.Name) and v.id == "list" and want is None:       # R = list
                self.listalias.add(x)
                return R(env)
            nar2 = frozenset(set(nar) - {x})
            if isinstance(v, ast.Call) and isinstance(v.func, ast.Attribute) and v.func.attr == "popleft" and isinstance(v.func.value, ast.Name) and not v.args and not v.keywords:
                qa = env.get(v.func.value.id)
                if qa is None or self.tv(qa)[0] != "list": bad(s, "popleft of a non-deque")
                al, env2 = self.assign_alias(x, self.tv(qa)[1], s, env)
                body, e3 = self.block(rest, env2, nar2, k)
                return "(match v_%s with [] => Raised EIndex | hd_ :: tl_ => let v_%s := hd_ in let v_%s := tl_ in %s end)" % (qa, al, qa, body), e3
            if self.oracle_of(v) is not None:
                _, t = self.oracle_of(v)
                al, env2 = self.assign_alias(x, want or t, s, env)
                body, e3 = self.block(rest, env2, nar2, k)
                txt, _ = self.oracle_bind(v, env, nar, lambda r: "(let v_%s := %s in %s)" % (al, r, body))
                return txt, e3
            fn, args = self.resolve(v, env, nar)
            if fn is not None and fn.valok is None:
                cs, gs = args
                al, env2 = self.assign_alias(x, want or fn.ret, s, env)
                body, e3 = self.block(rest, env2, nar2, k)
                return self.guard(gs, self.subcall(fn, cs, lambda r: "(let v_%s := %s in %s)" % (al, self.coerce(r, fn.ret, self.tv(al), s), body))), e3
            if want is not None:
                c, g = self.expr_want(v, want, env, nar)
                al, env2 = self.assign_alias(x, want, s, env)
                body, e3 = self.block(rest, env2, nar2, k)
                return self.guard(g, "(let v_%s := %s in %s)" % (al, c, body)), e3
            c, t, g = self.expr(v, env, nar)
            if t in (NONE, "nil"): bad(s, "None / [] assigned to a variable of unknown type")
            al, env2 = self.assign_alias(x, t, s, env)
            body, e3 = self.block(rest, env2, nar2, k)
            return self.guard(g, "(let v_%s := %s in %s)" % (al, self.coerce(c, t, self.tv(al), s), body)), e3
        if isinstance(tg, ast.Tuple) and all(isinstance(x, ast.Name) for x in tg.elts):
            names = [x.id for x in tg.elts]
            nar2 = frozenset(set(nar) - set(names))
            # B0, B1, B2 = [blocks[i] for i in perm]   (perm a tuple of the same arity)
            if isinstance(v, ast.ListComp) and len(v.generators) == 1 and isinstance(v.generators[0].iter, ast.Name) and isinstance(v.generators[0].target, ast.Name) and not v.generators[0].ifs:
                pc, pt, pg = self.expr(v.generators[0].iter, env, nar)
                if pt[0] != "tuple" or len(pt[1]) != len(names) or pg: bad(s, "unpacking a comprehension over %r" % (pt,))
                x = v.generators[0].target.id
                if x in self.aliases or x in self.params: bad(s, "comprehension variable shadows a local")
                parts = []
                n = len(names)
                for i in range(n):
                    self.vars["c_" + x] = pt[1][i]
                    try:
                        env2 = dict(env); env2[x] = "c_" + x
                        c, t, g = self.expr(v.elt, env2, nar)
                    finally:
                        del self.vars["c_" + x]
                    proj = "(let %s := %s in p%d_)" % (pat("p%d_" % j for j in range(n)), pc, i)
                    sub = lambda txt: "(let v_c_%s := %s in %s)" % (x, proj, txt)
                    parts.append((sub(c), t, [(sub(gb), o) for gb, o in g]))
                envc, als = dict(env), []
                for n_, (c, t, g) in zip(names, parts):
                    al, envc = self.assign_alias(n_, t, s, envc); als.append(al)
                body, e3 = self.block(rest, envc, nar2, k)
                txt = body
                for al, (c, t, g) in reversed(list(zip(als, parts))):
                    txt = "(let v_%s := %s in %s)" % (al, c, txt)
                return self.guard([x_ for _, _, g in parts for x_ in g], txt), e3
            c, t, g = self.expr(v, env, nar)
            if t[0] != "tuple" or len(t[1]) != len(names): bad(s, "unpacking %r into %d names" % (t, len(names)))
            envc, als = dict(env), []
            for n_, t_ in zip(names, t[1]):
                al, envc = self.assign_alias(n_, t_, s, envc); als.append(al)
            body, e3 = self.block(rest, envc, nar2, k)
            return self.guard(g, "(let %s := %s in %s)" % (pat("u%d_" % i for i in range(len(als))), c, "".join("let v_%s := u%d_ in " % (al, i) for i, al in enumerate(als)) + body)), e3
        bad(s, "assignment target")

    # ----- whole function -----
    def emit(self):
        body = [s for s in self.node.body if not (isinstance(s, ast.Expr) and isinstance(s.value, ast.Constant))]
        ps = "".join("(v_self_%s : Z) " % f for f in self.fields) + " ".join("(v_%s : %s)" % (n, ctype(t)) for n, t in self.params.items())
        head = "(* %s, lines %d-%d *)\n" % (self.name, self.node.lineno, self.node.end_lineno)
        single = None
        if len(body) == 1 and isinstance(body[0], ast.Return) and self.oracle_of(body[0].value) is None:
            try:
                single = self.expr(body[0].value, {})
            except Unsupported:
                single = None
        if single is not None:
            c, t, g = single
            outs = {o for _, o in g}
            if len(outs) <= 1:
                if self.ret is None: self.ret = t
                c = self.coerce(c, t, self.ret, body[0])
                o = outs.pop() if outs else "Raised EType"
                self.valok = o
                self.always_ok = not g
                args = " ".join(["v_self_%s" % f for f in self.fields] + ["v_" + n for n in self.params])
                ok = " && ".join(gb for gb, _ in g) if g else "true"
                return head + ("Definition %s_val %s : %s := %s.\nDefinition %s_ok %s : bool := %s.\nDefinition %s %s : fres %s := if %s_ok %s then FRet (%s_val %s) else finish (S := unit) (R := %s) (%s)." % (
                    self.coq, ps, ctype(self.ret), c, self.coq, ps, ok, self.coq, ps, ctype(self.ret), self.coq, args, self.coq, args, ctype(self.ret), o))
        # parameters that are assigned again become state
        stored = {n.id for n in ast.walk(self.node) if isinstance(n, ast.Name) and isinstance(n.ctx, ast.Store)}
        env0 = {}
        if stored & set(self.params): bad(self.node, "a parameter is assigned again")
        self.block(body, env0, frozenset(), None)         # first pass: which locals are state
        self.stateful = set(self.mark)
        self.vars, self.imm, self.aliases, self.hc, self.objs = {}, {}, {}, 0, {}
        self.block(body, env0, frozenset(), None)         # second pass: variables and their types
        if self.uses_orc and "orc_" not in self.vars: self.vars["orc_"] = ("list", "oans")
        self.hc = 0
        term, _ = self.block(body, env0, frozenset(), None)
        if not self.leaves(body) and self.ret is not None and self.ret[0] != "opt": bad(self.node, "control can fall off the end of a function that returns a value")
        inits = "".join("let v_%s : %s := %s in " % (v, self.vtype(t), "[]" if t == ("list", "oans") else dflt(t) if t[0] != "dict" else "[]") for v, t in self.vars.items() if v != "orc_")
        ps = "".join("(v_self_%s : Z) " % f for f in self.fields) + " ".join("(v_%s : %s)" % (n, ctype(t)) for n, t in self.params.items())
        ps2 = ("(fuel : nat) " if self.fuel else "") + ps + (" (v_orc_ : list oans)" if self.uses_orc else "")
        return head + "Definition %s %s : fres %s :=\n  %s@finish %s _ (%s)." % (self.coq, ps2, ctype(self.ret), inits, self.stype2(), term)

    def vtype(self, t):
        if t == ("list", "oans"): return "(list oans)"
        if t[0] == "dict": return self.dict_ctype(t)
        return ctype(t)
    def stype2(self):
        return "(" + " * ".join(self.vtype(t) for t in self.vars.values()) + ")" if self.vars else "unit"


class SearchTranslator:
    WANT = [("_tensor", None), ("_multiply", None), ("_commutes", None), ("_left_part", None), ("_right_part", None), ("_ad_apply", None),
            ("_nested_commutator_result", None), ("_sequence_to_paulie_orientation", None), ("_key", None), ("left_map_over_a", None),
            ("extend_left", "OptimalPauliCompiler"), ("_left_factor_from_sequence", "OptimalPauliCompiler"),
            ("_case3_best_reordering", "OptimalPauliCompiler"), ("_bfs_case3", "OptimalPauliCompiler"), ("compile", "OptimalPauliCompiler"), ("compile_target", None)]
    def __init__(self, repo):
        path = os.path.join(repo, "src", "paulie", "application", "pauli_compiler.py")
        self.tree = ast.parse(open(path, newline=None, encoding="utf-8-sig").read())
        self.fns = {}
        self.defs = {n.name: n for n in self.tree.body if isinstance(n, ast.FunctionDef)}
        self.cls = {c.name: {f.name: f for f in c.body if isinstance(f, ast.FunctionDef)} for c in self.tree.body if isinstance(c, ast.ClassDef)}
        imp = [ast.unparse(n) for n in self.tree.body if isinstance(n, (ast.ImportFrom, ast.Import))]
        for want in ("from itertools import permutations", "from paulie.common.pauli_string_factory import get_identity, get_pauli_string, get_single"):
            if want not in imp: raise Unsupported("pauli_compiler.py no longer has `%s`" % want)
        def body_of(n):
            return [ast.unparse(x) for x in n.body if not (isinstance(x, ast.Expr) and isinstance(x.value, ast.Constant))]
        opc = self.cls.get("OptimalPauliCompiler", {})
        init = body_of(opc["__init__"]) if "__init__" in opc else None
        want = ["if cfg.k_left < 2:\n    raise ValueError('k_left must be >= 2 for the Pauli Compiler algorithm')", "self.k = cfg.k_left", "self.n_total = cfg.n_total",
                "self.n_right = self.n_total - self.k", "self.A_left = left_a_minimal(self.k)", "self.U_tag = choose_u_for_b(self.k)",
                "self.sub = SubsystemCompiler(SubsystemCompilerConfig(k_left=self.k, n_total=self.n_total))", "self.fallback_depth = cfg.fallback_depth",
                "self.fallback_nodes = cfg.fallback_nodes"]
        if init != want: raise Unsupported("pinned source of OptimalPauliCompiler.__init__ changed: %r" % (init,))
        # no other method may assign the fields
        for nm, f in opc.items():
            if nm == "__init__": continue
            for x in ast.walk(f):
                if isinstance(x, ast.Attribute) and isinstance(x.ctx, ast.Store) and isinstance(x.value, ast.Name) and x.value.id == "self":
                    raise Unsupported("OptimalPauliCompiler.%s assigns self.%s" % (nm, x.attr))
        # the configuration dataclass and the sub-compiler's constructor (which the pinned __init__ above runs: it must not raise for k >= 2)
        cfgs = [c for c in self.tree.body if isinstance(c, ast.ClassDef) and c.name == "PauliCompilerConfig"]
        if len(cfgs) != 1 or [ast.unparse(d) for d in cfgs[0].decorator_list] != ["dataclass"]: raise Unsupported("PauliCompilerConfig is no longer a plain dataclass")
        flds = [ast.unparse(x) for x in cfgs[0].body if isinstance(x, ast.AnnAssign)]
        if flds != ["k_left: int", "n_total: int", "fallback_depth: int = 8", "fallback_nodes: int = 200000"] or any(isinstance(x, ast.FunctionDef) for x in cfgs[0].body):
            raise Unsupported("pinned fields of PauliCompilerConfig changed: %r" % (flds,))
        self.cfg_defaults = {"fallback_depth": 8, "fallback_nodes": 200000}
        sub = self.cls.get("SubsystemCompiler", {})
        want = ["if cfg.k_left < 2:\n    raise ValueError('k_left must be >= 2 for the Pauli Compiler algorithm')", "self.k = cfg.k_left", "self.n_total = cfg.n_total",
                "self.n_right = self.n_total - self.k", "self.U_tag = choose_u_for_b(self.k)", "self.left_pool = _all_left_paulis(self.k)"]
        if "__init__" not in sub or body_of(sub["__init__"]) != want: raise Unsupported("pinned source of SubsystemCompiler.__init__ changed")
        for nm in ("subsystem_compiler",):
            if nm not in self.cls.get("SubsystemCompiler", {}): raise Unsupported("SubsystemCompiler.%s not found" % nm)
        for nm in ("_candidate_decompositions", "_all_interleavings_preserving", "_all_interleavings_preserving4"):
            if nm not in opc: raise Unsupported("OptimalPauliCompiler.%s not found" % nm)
        if "left_map_over_a" not in self.defs: raise Unsupported("left_map_over_a not found")

    HEADER = """(* GENERATED by tools/py2coq.py (py2coq_search.py) from src/paulie/application/pauli_compiler.py — do not edit *)
From PauLieRefine Require Import PySem.
From PauLie Require Import Pauli Compiler.
Open Scope Z_scope.

Definition res_ok {A} (r : res A) : bool := match r with Ok _ => true | ValueError => false end.
Definition res_val {A} (d : A) (r : res A) : A := match r with Ok a => a | ValueError => d end.
Definition opt_is_some {A} (o : option A) : bool := match o with Some _ => true | None => false end.
Definition unopt {A} (d : A) (o : option A) : A := match o with Some a => a | None => d end.
Definition is_nil {A} (l : list A) : bool := match l with [] => true | _ => false end.
Definition opt_eqb {A} (f : A -> A -> bool) (a b : option A) : bool := match a, b with Some x, Some y => f x y | None, None => true | _, _ => false end.
Definition pair_eqb {A C} (f : A -> A -> bool) (g : C -> C -> bool) (a b : A * C) : bool := f (fst a) (fst b) && g (snd a) (snd b).
Definition exn_is (e : exn) (n : String.string) : bool := match e with EUser m => String.eqb m n | _ => false end.
(* next(i for i, ch in enumerate(s) if ch != "I") *)
Fixpoint first_non_I_from (k : Z) (p : pstr) : option Z := match p with [] => None | a :: t => if pl_eqb a PI then first_non_I_from (k + 1) t else Some k end.
Definition first_non_I (p : pstr) : option Z := first_non_I_from 0 p.
Fixpoint kdict_get {K A} (eqb : K -> K -> bool) (d : list (K * A)) (k : K) : option A :=
  match d with [] => None | (k', v) :: t => if eqb k' k then Some v else kdict_get eqb t k end.
Definition mem_b {A} (eqb : A -> A -> bool) (x : A) (l : list A) : bool := existsb (eqb x) l.
Definition set_add_b {A} (eqb : A -> A -> bool) (x : A) (l : list A) : list A := if mem_b eqb x l then l else l ++ [x].
(* itertools.permutations(range(3)) *)
Definition perms3 : list (Z * Z * Z) := [(0, 1, 2); (0, 2, 1); (1, 0, 2); (1, 2, 0); (2, 0, 1); (2, 1, 0)].
(* answers of the untranslated helpers (subsystem_compiler, left_map_over_a, _candidate_decompositions, _all_interleavings_preserving[4]):
   an input stream about which nothing is assumed *)
Inductive oans := OLps (l : list pstr) | OLLps (l : list (list pstr)) | OPairs (l : list (pstr * pstr)) | ORaise (e : exn) | OSub (l : list oans).
"""
    def run(self):
        out = [self.HEADER]
        for name, cls in self.WANT:
            node = self.defs.get(name) if cls is None else self.cls.get(cls, {}).get(name)
            if node is None: raise Unsupported("%s%s not found in the source" % ((cls + "." if cls else ""), name))
            f = SFn(self, node, "py_S_" + name.lstrip("_"), cls is not None)
            out.append(f.emit()); out.append("")
            self.fns[("self." if cls else "") + name] = f
        return "\n".join(out)


# ------------------------------------------------------------------------------------------------------------------------------
# Eleventh target: the k-local expansion of common/pauli_string_factory.py (gen_k_local, gen_k_local_generators): generators (yield /
# yield from) that share a `Used` object.
class FFn(SFn):
    """a generator function of pauli_string_factory.py.  The `Used` helper (pinned source: a set of Pauli strings with append / is_used; no
    __len__ / __bool__, so an instance is always truthy) is the list of the strings it holds; a parameter `used: Used | None = None` is that list
    (None = a fresh, empty Used: `used = used or Used()` is the identity on it) and, since the callee mutates the caller's object, every such
    function RETURNS the pair (list of the yielded strings in order, used afterwards).  `a + b` on Pauli strings is the tensor product
    (Refine/PSRefine.gen_add); get_identity(k) = identity k (ValueError for k < 0); isinstance(g, str) is False for the Pauli strings the
    collection hands over (get_pauli_string builds PauliStringCollection(...).get() first: pinned); max(l, key=len) raises ValueError on an
    empty list."""
    def __init__(self, tr, node, coq):
        self.used_param = any(a.arg == "used" for a in node.args.args)
        import copy
        node = copy.deepcopy(node)
        if self.used_param:
            i = [a.arg for a in node.args.args].index("used")
            di = i - (len(node.args.args) - len(node.args.defaults))
            if di < 0 or not (isinstance(node.args.defaults[di], ast.Constant) and node.args.defaults[di].value is None) or ast.unparse(node.args.args[i].annotation) != "Used | None":
                bad(node, "parameter used must be `used: Used | None = None`")
            del node.args.defaults[di]
        if node.args.defaults: bad(node, "defaults")
        node.returns = None
        SFn.__init__(self, tr, node, coq, False)
        self.ret = T_tup([LPS, ("set", PS)]) if self.used_param else LPS

    def ann(self, a, node):
        txt = ast.unparse(a) if a is not None else None
        if txt == "Used | None": return ("set", PS)
        if txt == "'Union[list[str], list[PauliString], PauliStringCollection]'": return LPS
        return SFn.ann(self, a, node)

    def expr(self, e, env, nar=frozenset()):
        if isinstance(e, ast.BinOp) and isinstance(e.op, ast.Add):
            a, ta, ga = self.expr(e.left, env, nar); b, tb, gb = self.expr(e.right, env, nar)
            if ta == PS and tb == PS: return "(%s ++ %s)" % (a, b), PS, ga + gb
        if isinstance(e, ast.Call):
            src = ast.unparse(e.func)
            if src == "used.is_used" and len(e.args) == 1 and not e.keywords:
                c, t, g = self.expr(e.args[0], env, nar)
                if t != PS: bad(e, "is_used of %r" % (t,))
                return "(mem_b pstr_eqb %s %s)" % (c, self.rd("used", env)), B, g
            if src == "isinstance" and len(e.args) == 2 and ast.unparse(e.args[1]) == "str":
                c, t, g = self.expr(e.args[0], env, nar)
                if t != PS: bad(e, "isinstance(_, str) of %r" % (t,))
                return "false", B, g
            if src == "max" and len(e.args) == 1 and [k_.arg for k_ in e.keywords] == ["key"] and ast.unparse(e.keywords[0].value) == "len":
                c, t, g = self.expr(e.args[0], env, nar)
                if t != LPS: bad(e, "max of %r" % (t,))
                return "(max_by_len %s)" % c, PS, g + [("(negb (is_nil %s))" % c, VERR)]
        return SFn.expr(self, e, env, nar)

    def rd(self, name, env):
        al = env.get(name)
        return "v_" + (al if al is not None else name)

    def assigned_in(self, stmts):
        out = SFn.assigned_in(stmts)
        for st_ in stmts:
            for n in ast.walk(st_):
                if isinstance(n, (ast.Yield, ast.YieldFrom)): out.add("out_")
                if isinstance(n, ast.YieldFrom): out.add("used")
        return out

    def block(self, stmts, env, nar, k):
        if stmts:
            s, rest = stmts[0], stmts[1:]
            R = lambda env2: self.block(rest, env2, nar, k)
            if isinstance(s, ast.Assign) and ast.unparse(s) == "used = used or Used()" and self.used_param:
                return R(env)
            if isinstance(s, ast.If) and isinstance(s.test, ast.Call) and ast.unparse(s.test.func) == "isinstance" and not s.orelse:
                c, t, g = self.expr(s.test, env, nar)
                if c == "false" and not g:       # a branch that is never taken for the strings handed over: not translated
                    return R(env)
            if isinstance(s, ast.Raise) and isinstance(s.exc, ast.Call) and ast.unparse(s.exc.func) == "ValueError":
                return VERR, env
            if isinstance(s, ast.Expr) and isinstance(s.value, ast.Yield) and s.value.value is not None:
                c, t, g = self.expr(s.value.value, env, nar)
                if t != PS: bad(s, "yield of %r" % (t,))
                al, env2 = self.assign_alias("out_", LPS, s, env)
                body, e3 = R(env2)
                return self.guard(g, "(let v_%s := (%s ++ [%s]) in %s)" % (al, self.rd("out_", env), c, body)), e3
            if isinstance(s, ast.Expr) and isinstance(s.value, ast.Call) and ast.unparse(s.value.func) == "used.append" and len(s.value.args) == 1 and self.used_param:
                c, t, g = self.expr(s.value.args[0], env, nar)
                if t != PS: bad(s, "used.append of %r" % (t,))
                al, env2 = self.assign_alias("used", ("set", PS), s, env)
                body, e3 = R(env2)
                return self.guard(g, "(let v_%s := (%s :: %s) in %s)" % (al, c, self.rd("used", env), body)), e3
            if isinstance(s, ast.Expr) and isinstance(s.value, ast.YieldFrom):
                v = s.value.value
                fn = self.tr.fns.get(ast.unparse(v.func)) if isinstance(v, ast.Call) else None
                if fn is None or not getattr(fn, "used_param", False): bad(s, "yield from something that is not a translated generator with a used parameter")
                names = list(fn.params)
                given = dict(zip(names, v.args))
                for kw in v.keywords:
                    if kw.arg not in names or kw.arg in given: bad(s, "keyword argument %s" % kw.arg)
                    given[kw.arg] = kw.value
                cs, gs = [], []
                for pn in names:
                    if pn not in given: bad(s, "missing argument %s" % pn)
                    if pn == "used":
                        if not (isinstance(given[pn], ast.Name) and given[pn].id == "used"): bad(s, "the Used object handed on must be `used`")
                        cs.append(self.rd("used", env)); continue
                    c, t, g = self.expr(given[pn], env, nar)
                    cs.append(self.coerce(c, t, fn.params[pn], s)); gs += g
                al_o, env2 = self.assign_alias("out_", LPS, s, env)
                al_u, env2 = self.assign_alias("used", ("set", PS), s, env2)
                body, e3 = R(env2)
                return self.guard(gs, "(bindr (%s %s) (fun r_ => let v_%s := (%s ++ fst r_) in let v_%s := snd r_ in %s))" % (fn.coq, " ".join(cs), al_o, self.rd("out_", env), al_u, body)), e3
        return SFn.block(self, stmts, env, nar, k)

    def leaves(self, stmts):
        return False      # a generator falls off its end: that is its normal return

    def emit(self):
        body = [s for s in self.node.body if not (isinstance(s, ast.Expr) and isinstance(s.value, ast.Constant))]
        fin = "Ret %s" % ("(v_out_, v_used)" if self.used_param else "v_out_")
        env0 = {"out_": "out_"}
        if self.used_param: env0["used"] = "used"
        def run():
            self.aliases = {"out_": ["out_"]}
            self.vars, self.imm = {}, {}
            if "out_" in self.stateful: self.vars["out_"] = LPS
            else: self.imm["out_"] = LPS
            if self.used_param:
                self.aliases["used"] = ["used"]
                if "used" in self.stateful: self.vars["used"] = ("set", PS)
                else: self.imm["used"] = ("set", PS)
            return self.block(body, dict(env0), frozenset(), None)
        self.stateful = set(); run()
        self.stateful = set(self.mark)
        # the final return reads out_ and used wherever the body ends: they are state whenever they are assigned inside a loop or a branch
        run(); term, _ = run()
        ps = " ".join("(v_%s : %s)" % (n, ctype(t)) for n, t in self.params.items())
        inits = "let v_out_ : (list pstr) := [] in " + "".join("let v_%s : %s := %s in " % (v, ctype(t), dflt(t)) for v, t in self.vars.items() if v not in ("out_", "used"))
        head = "(* %s, lines %d-%d: a generator; returns %s *)\n" % (self.name, self.node.lineno, self.node.end_lineno, "(the strings yielded, the Used set afterwards)" if self.used_param else "the strings yielded")
        return head + "Definition %s %s : fres %s :=\n  %s@finish %s _ (seqo (%s) (fun %s => %s))." % (self.coq, ps, ctype(self.ret), inits, self.stype2(), term, self.sp(), fin)


class FactoryTranslator:
    WANT = ["gen_k_local", "gen_k_local_generators"]
    def __init__(self, repo):
        path = os.path.join(repo, "src", "paulie", "common", "pauli_string_factory.py")
        self.tree = ast.parse(open(path, newline=None, encoding="utf-8-sig").read())
        self.fns = {}
        self.defs = {n.name: n for n in self.tree.body if isinstance(n, ast.FunctionDef)}
        def body_of(n):
            return [ast.unparse(x) for x in n.body if not (isinstance(x, ast.Expr) and isinstance(x.value, ast.Constant))]
        used = [c for c in self.tree.body if isinstance(c, ast.ClassDef) and c.name == "Used"]
        if len(used) != 1: raise Unsupported("class Used not found")
        meths = {f.name: body_of(f) for f in used[0].body if isinstance(f, ast.FunctionDef)}
        want = {"__init__": ["self.clear()"], "clear": ["self.used = set()"], "append": ["self.used.add(p)"], "is_used": ["return p in self.used"]}
        if meths != want: raise Unsupported("pinned source of class Used changed: %r" % (meths,))
        if body_of(self.defs.get("get_identity", ast.parse("def f(): pass").body[0])) != ["return PauliString(n=n)"]:
            raise Unsupported("factory.get_identity is no longer `return PauliString(n=n)`")
        gps = self.defs.get("get_pauli_string")
        tail = ["generators = PauliStringCollection([PauliString(pauli_str=p) if isinstance(p, str) else PauliString(pauli_str=str(p)) for p in o])",
                "if n is not None:\n    return PauliStringCollection(list(gen_k_local_generators(n, generators.get())))", "return generators"]
        if gps is None or body_of(gps)[-3:] != tail: raise Unsupported("the collection branch of get_pauli_string changed")

    HEADER = """(* GENERATED by tools/py2coq.py (py2coq_search.py, FactoryTranslator) from src/paulie/common/pauli_string_factory.py — do not edit *)
From PauLieRefine Require Import PySem.
From PauLie Require Import Pauli.
Open Scope Z_scope.

Definition is_nil {A} (l : list A) : bool := match l with [] => true | _ => false end.
Definition mem_b {A} (eqb : A -> A -> bool) (x : A) (l : list A) : bool := existsb (eqb x) l.
(* max(l, key=len): the first string of maximal length *)
Definition max_by_len (l : list pstr) : pstr := match l with [] => [] | h :: t => fold_left (fun m g => if Nat.ltb (length m) (length g) then g else m) t h end.
"""
    def run(self):
        out = [self.HEADER]
        for name in self.WANT:
            node = self.defs.get(name)
            if node is None: raise Unsupported("%s not found in the source" % name)
            f = FFn(self, node, "py_F_" + name)
            out.append(f.emit()); out.append("")
            self.fns[name] = f
        return "\n".join(out)
