"""C06 — every non-identity target can be compiled for every admissible block size."""
import json
import os
import sys
from harness.common import Check, run_check, VERIF
from harness import comp
from harness.comp import impl  # noqa: F401

DATA = os.path.join(VERIF, "known", "C06_targets.json")


def finding_key(c, r, table):
    """known-finding key of a failing (N,k,target): exact target sets for N<=5, raise site above"""
    slug = comp.site_slug(r) if r.get("out") == "RuntimeError" else r.get("out", "?")
    if c.get("enumerated"):      # completely enumerated classes: exact target sets
        key = "N%dk%d:%s" % (c["N"], c["k"], slug)
        return key if c["target"] in table.get(key, ()) else None
    return "N>=6:%s" % slug


def main():
    ck = Check("C06")
    record = "--record" in sys.argv
    if ck.replay:
        rp = json.load(open(ck.replay)); ck.build()
        print("implementation:", ck.impl("c06", [{"op": "compile", "N": rp["N"], "k": rp["k"], "target": rp["target"]}], per_case_s=300)[0])
        print("target in closure of the universal set:", rp["target"] in ck.oracle(["closure %d %s" % (rp["N"], " ".join(ck.oracle(["universal %d %d" % (rp["N"], rp["k"])])[0].split()))])[0].split())
        return
    if not ck.build():
        ck.finish()
    ck.check_props()
    ck.check_translation("compiler")
    # the search itself: Refine/SearchRefine.v proves on the translation of the current source that left_map_over_a terminates and is a
    # correct and complete breadth-first search, and that compile_target returns a valid sequence for every target with identity right
    # block when k is even (C06 on that class, every N) and terminates on it for every k
    ck.check_translation("search")
    table = {k: set(v) for k, v in json.load(open(DATA)).items()} if os.path.exists(DATA) else {}
    cases = comp.compile_cases(ck, ck.quick and not record)
    res = ck.impl("c06", cases, per_case_s=120 if ck.quick else 300, procs=15)
    stats = {}
    rec = {}
    nt = set()
    # reachability of the targets (is raising forced by the generating set or by the search?)
    closures = {}
    for N, k in sorted({(c["N"], c["k"]) for c in cases if c["N"] <= 6}):
        U = ck.oracle(["universal %d %d" % (N, k)])[0].split()
        closures[(N, k)] = set(ck.oracle(["closure %d %s" % (N, " ".join(U))])[0].split())
    for c, r in zip(cases, res):
        key0 = "N=%d,k=%d" % (c["N"], c["k"])
        st = stats.setdefault(key0, {"compiled": 0, "failed": 0, "failed_but_reachable": 0})
        if r.get("out") == "seq":
            st["compiled"] += 1
            nt.add((c["N"], c["k"], c["target"]))
            continue
        st["failed"] += 1
        reach = c["target"] in closures.get((c["N"], c["k"]), ())
        st["failed_but_reachable"] += reach
        if r.get("exc") == "Timeout":
            r = {"out": "timeout"}
        slug = comp.site_slug(r) if r.get("out") == "RuntimeError" else r.get("out", "?")
        if c.get("enumerated"):
            rec.setdefault("N%dk%d:%s" % (c["N"], c["k"], slug), []).append(c["target"])
        key = finding_key(c, r, table)
        ck.fail(key, "compile_target(%s, k=%d) does not return a sequence: %s %s (target %s the closure of the universal set)" % (
            c["target"], c["k"], r.get("out"), r.get("msg", r.get("type", "")), "is in" if reach else "is not in / not checked against"),
            {"N": c["N"], "k": c["k"], "target": c["target"], "outcome": r, "target_in_closure": reach})
    if record:
        os.makedirs(os.path.dirname(DATA), exist_ok=True)
        json.dump({k: sorted(v) for k, v in sorted(rec.items())}, open(DATA, "w"), indent=0)
        print("recorded", {k: len(v) for k, v in rec.items()})
    ck.cov["evaluations"] = len(cases)
    ck.cov["distinct_nontrivial"] = len(nt)
    ck.cov["rule"] = ("compile_target on all 4^N-1 targets and all 2<=k<N for N<=%d, sampled N up to %d, per-target watchdog; outcome in {sequence, RuntimeError at site, other exception, timeout}; "
                      "non-trivial = target compiled; failing targets are matched against the committed known-finding table (exact target sets per (N,k,raise site) for N<=5, per raise site above)"
                      % ((5, 7) if ck.quick else (5, 8)))
    ck.cov["samples"] = [[c["N"], c["k"], c["target"], r.get("out")] for c, r in list(zip(cases, res))[:: max(1, len(cases) // 6)]][:6]
    ck.cov["distribution"] = stats
    ck.cov["exhaustive"] = True
    ck.cov["traces_validated_against_impl"] = len(cases)
    ck.finish(assumptions=["termination is observed by a watchdog (120 s / 300 s per target), not proved: the search loops are bounded by explicit caps in the source"])


if __name__ == "__main__":
    run_check("C06", main)
