"""Worker: imports paulie from /repo's working tree and answers JSON cases with harness.<module>.impl."""
import importlib
import json
import os
import signal
import sys

REPO = os.environ.get("PAULIE_REPO", "/repo")
sys.path.insert(0, os.path.join(REPO, "src"))
sys.path.insert(1, os.path.dirname(os.path.dirname(os.path.abspath(__file__))))


class CaseTimeout(BaseException):
    pass


def _alarm(signum, frame):
    raise CaseTimeout()


def main():
    module, per_case = sys.argv[1], float(sys.argv[2])
    out = sys.stdout
    try:
        import paulie
        src = os.path.realpath(paulie.__file__)
        if not src.startswith(os.path.realpath(os.path.join(REPO, "src")) + os.sep):
            raise RuntimeError("paulie imported from %s, not from %s/src" % (src, REPO))
        mod = importlib.import_module("harness." + module)
    except BaseException as e:  # noqa
        out.write(json.dumps({"worker_error": "%s: %s" % (type(e).__name__, e)}) + "\n")
        return
    signal.signal(signal.SIGALRM, _alarm)
    devnull = open(os.devnull, "w")
    for line in sys.stdin:
        line = line.strip()
        if not line:
            continue
        case = json.loads(line)
        signal.setitimer(signal.ITIMER_REAL, per_case)
        real_stdout = sys.stdout
        sys.stdout = devnull  # the library prints in places
        try:
            res = mod.impl(case)
        except CaseTimeout:
            res = {"exc": "Timeout"}
        except RecursionError as e:
            res = {"exc": "RecursionError", "msg": str(e)[:200]}
        except Exception as e:  # noqa
            res = {"exc": type(e).__name__, "msg": str(e)[:200]}
        finally:
            signal.setitimer(signal.ITIMER_REAL, 0)
            sys.stdout = real_stdout
        out.write(json.dumps(res, default=str) + "\n")
        out.flush()


if __name__ == "__main__":
    main()
