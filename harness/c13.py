"""C13 — Pauli decomposition reconstructs the matrix, with one index convention."""
import json
import math
from harness.common import Check, run_check, all_pstr
from harness import gens as G


def impl(case):
    import numpy as np
    from paulie import (matrix_decomposition, matrix_decomposition_diagonal, get_pauli_weights, PauliString,
                        quantum_fourier_entropy, average_pauli_weight)
    op = case["op"]
    if op == "reject":
        out = []
        for kind, shape in case["shapes"]:
            a = np.zeros(shape, dtype=complex)
            try:
                (matrix_decomposition if kind == "full" else matrix_decomposition_diagonal)(a)
                out.append("accepted")
            except ValueError:
                out.append("ValueError")
            except Exception as e:  # noqa
                out.append("other:" + type(e).__name__)
        return {"res": out}
    if op == "weights":
        return {"w": [[int(x) for x in get_pauli_weights(n, pos)] for n, pos in case["items"]]}
    n = case["n"]
    A = np.array([[complex(a, b) for a, b in row] for row in case["matrix"]], dtype=complex)
    # the same matrix in different memory layouts / dtypes: a matrix is a matrix however numpy stores it
    layout = case.get("layout", "c")
    if layout == "fortran":
        Ain = np.asfortranarray(A)
    elif layout == "transposed-view":
        Ain = np.ascontiguousarray(A.T).T
    elif layout == "strided-view":
        big = np.zeros((2 * A.shape[0], 2 * A.shape[1]), dtype=complex); big[::2, ::2] = A; Ain = big[::2, ::2]
    elif layout == "reversed-view":
        Ain = np.ascontiguousarray(A[::-1, ::-1])[::-1, ::-1]
    elif layout == "real-dtype" and not np.iscomplexobj(A.real + 0) and not A.imag.any():
        Ain = A.real.astype(np.int64) if case.get("int_dtype") else A.real.copy()
    else:
        Ain = A.copy()
    # the decomposition is linear: the same matrix scaled by an exact power of two must give the same weights scaled
    # (no magnitude is "small enough to be zero"), and a tiny admixture must survive next to entries of order one
    k2 = case.get("scale_exp", 0)
    if k2:
        A = A * 2.0 ** (-k2)
        Ain = (Ain.astype(complex) if not np.iscomplexobj(Ain) and Ain.dtype.kind in "iu" else Ain) * 2.0 ** (-k2)
    w = matrix_decomposition(Ain)
    if k2:
        w = np.asarray(w) * 2.0 ** k2
        A = A * 2.0 ** k2
    if case.get("mixed"):
        B = np.array([[complex(a, b) for a, b in row] for row in case["mixed"][0]], dtype=complex)
        eps = 2.0 ** (-case["mixed"][1])
        lhs = np.asarray(matrix_decomposition(A + eps * B))
        rhs = np.asarray(matrix_decomposition(A.copy())) + eps * np.asarray(matrix_decomposition(B.copy()))
        mixed_ok = bool(np.array_equal(lhs, rhs))
    scale = 2 ** n
    def ex(z):
        z = complex(z) * scale
        return [z.real, z.imag]
    out = {"W": [ex(z) for z in w], "mixed_ok": (mixed_ok if case.get("mixed") else True), "input_untouched": bool(np.array_equal(A, np.array([[complex(a, b) for a, b in row] for row in case["matrix"]])))}
    if n <= 3:
        # the property on the implementation's own objects: lookup by string, reconstruction, trace formula
        rec = np.zeros_like(A)
        ok_tr = True
        for s in case["strings"]:
            P = PauliString(pauli_str=s)
            wp = P.get_weight_in_matrix(w)
            MP = P.get_matrix()
            rec = rec + wp * MP
            if complex(wp) != complex(np.trace(MP @ A) / scale):
                ok_tr = False
        out["reconstructs"] = bool(np.array_equal(rec, A))
        out["trace_formula"] = ok_tr
    if case.get("diag"):
        d = np.array([complex(a, b) for a, b in case["diag"]], dtype=complex)
        # the same diagonal in every representation numpy offers for it (a seeded change computed the butterfly in the input's
        # integer dtype): complex, float, several integer widths, bool, strided and reversed views
        dl = case.get("diag_layout", "complex")
        if dl == "float": din = d.real.copy()
        elif dl in ("int64", "int32", "int8"): din = d.real.astype(dl)
        elif dl == "bool": din = d.real.astype(bool)
        elif dl == "strided":
            big = np.zeros(2 * len(d), dtype=complex); big[::2] = d; din = big[::2]
        elif dl == "reversed": din = np.ascontiguousarray(d[::-1])[::-1]
        else: din = d.copy()
        keep = din.copy()
        wd = matrix_decomposition_diagonal(din)
        out["diag_input_untouched"] = bool(np.array_equal(din, keep))
        out["Wd"] = [ex(z) for z in wd]
        full = matrix_decomposition(np.diag(d))
        agree = True
        for s in case["strings"]:
            P = PauliString(pauli_str=s)
            if complex(P.get_weight_in_matrix(wd)) != complex(P.get_weight_in_matrix(full)):
                agree = False
        out["diag_agrees"] = agree
        try:
            PauliString(pauli_str="X" * n).get_weight_in_matrix(np.zeros(3))
            out["bad_length"] = "accepted"
        except ValueError:
            out["bad_length"] = "ValueError"
    if case.get("unitary_like"):
        wts = get_pauli_weights(n)
        # entropy and influence read the same operator through the same representation the decomposition got
        rep = (lambda: A.copy()) if k2 else (lambda: Ain.copy() if case.get("layout") in ("c", "real-dtype") else Ain)
        out["entropy"] = float(quantum_fourier_entropy(rep()))
        out["influence"] = float(average_pauli_weight(rep(), wts))
    return out


def mat_wire(m):
    return ";".join("|".join("%d,%d" % (a, b) for a, b in row) for row in m)


def pauli_matrix(s):
    """dense Gaussian-integer matrix of a Pauli string (harness side, for inputs only)"""
    one = {"I": [[(1, 0), (0, 0)], [(0, 0), (1, 0)]], "X": [[(0, 0), (1, 0)], [(1, 0), (0, 0)]],
           "Y": [[(0, 0), (0, -1)], [(0, 1), (0, 0)]], "Z": [[(1, 0), (0, 0)], [(0, 0), (-1, 0)]]}
    m = [[(1, 0)]]
    for ch in s:
        k = one[ch]
        m = [[((a * c - b * d), (a * d + b * c)) for (a, b) in row for (c, d) in krow] for row in m for krow in k]
    return m


def gen_matrix(rng, n):
    N = 2 ** n
    kind = rng.choice(["dense", "sparse", "hermitian", "pauli", "diagonal", "real"])
    Z = lambda: [rng.randint(-4, 4), rng.randint(-4, 4)]  # noqa: E731
    if kind == "dense":
        m = [[Z() for _ in range(N)] for _ in range(N)]
    elif kind == "real":
        m = [[[rng.randint(-4, 4), 0] for _ in range(N)] for _ in range(N)]
    elif kind == "sparse":
        m = [[[0, 0] for _ in range(N)] for _ in range(N)]
        for _ in range(rng.randint(1, 2 * N)):
            m[rng.randrange(N)][rng.randrange(N)] = Z()
    elif kind == "hermitian":
        m = [[[0, 0] for _ in range(N)] for _ in range(N)]
        for i in range(N):
            m[i][i] = [rng.randint(-4, 4), 0]
            for j in range(i + 1, N):
                a, b = Z(); m[i][j] = [a, b]; m[j][i] = [a, -b]
    elif kind == "pauli":
        m = [[list(x) for x in row] for row in pauli_matrix(G.uniform(rng, n))]
    else:
        m = [[[0, 0] for _ in range(N)] for _ in range(N)]
        for i in range(N):
            m[i][i] = Z()
    return kind, m


def main():
    ck = Check("C13")
    if ck.replay:
        rp = json.load(open(ck.replay)); ck.build()
        print(json.dumps(ck.impl("c13", [rp["case"]])[0])[:3000]); print(ck.oracle(["decomp %d %s" % (rp["case"]["n"], mat_wire(rp["case"]["matrix"]))]))
        return
    if not ck.build():
        ck.finish()
    ck.check_props()
    ck.check_translation("pstring")
    ck.check_translation("numpy")      # the in-place butterfly of matrix_decomposition_diagonal = Model/Decomp.dbfly_iter (every n >= 1)
    nmax = 4 if ck.quick else 6
    cases = []
    for _ in range(400 if ck.quick else 3000):
        n = ck.rng.choice([1, 2, 3] + ([4] if ck.rng.random() < 0.5 else []) + ([5] if ck.rng.random() < 0.06 else []) + ([5, 6] if (nmax == 6 and ck.rng.random() < 0.1) else []))
        kind, m = gen_matrix(ck.rng, n)
        c = {"op": "decomp", "n": n, "matrix": m, "kind": kind, "strings": all_pstr(n) if n <= 3 else [],
             "layout": ck.rng.choice(["c", "c", "fortran", "transposed-view", "strided-view", "reversed-view", "real-dtype"]), "int_dtype": ck.rng.random() < 0.5,
             "scale_exp": ck.rng.choice([0, 0, 0, 20, 40, 70])}
        if ck.rng.random() < 0.3:
            gm = gen_matrix(ck.rng, n)
            c["mixed"] = [gm[1] if isinstance(gm, tuple) else gm, ck.rng.choice([30, 40, 45])]
        if kind in ("diagonal",) or ck.rng.random() < 0.2:
            c["diag"] = [m[i][i] for i in range(2 ** n)] if kind == "diagonal" else [[ck.rng.randint(-4, 4), ck.rng.randint(-4, 4)] for _ in range(2 ** n)]
            c["diag_layout"] = ck.rng.choice(["complex", "complex", "strided", "reversed", "float", "int64", "int32", "int8", "bool"])
            if c["diag_layout"] in ("float", "int64", "int32", "int8"):
                c["diag"] = [[a, 0] for a, _ in c["diag"]]
            elif c["diag_layout"] == "bool":
                c["diag"] = [[1 if (a + b) % 2 else 0, 0] for a, b in c["diag"]]
        c["unitary_like"] = True   # entropy and influence are defined for every operator (misnomer kept): always compared
        cases.append(c)
    res = ck.impl("c13", cases, per_case_s=120)
    req = []
    for c in cases:
        req.append("decomp %d %s" % (c["n"], mat_wire(c["matrix"])))
        req.append("decompdiag %d %s" % (c["n"], "|".join("%d,%d" % (a, b) for a, b in c["diag"])) if c.get("diag") else "pindex I")
    ans = ck.oracle(req, procs=8)
    nt = set()
    stats = {"kinds": {}}
    for i, (c, r) in enumerate(zip(cases, res)):
        stats["kinds"][c["kind"]] = stats["kinds"].get(c["kind"], 0) + 1
        stats.setdefault("layouts", {})[c["layout"]] = stats.setdefault("layouts", {}).get(c["layout"], 0) + 1
        if c.get("diag"): stats.setdefault("diag_layouts", {})[c["diag_layout"]] = stats.setdefault("diag_layouts", {}).get(c["diag_layout"], 0) + 1
        if "exc" in r:
            ck.fail(None, "matrix_decomposition raised %s on a %s %dx%d matrix" % (r["exc"], c["kind"], 2 ** c["n"], 2 ** c["n"]), {"case": c, "result": r}); continue
        bad = []
        W = [[float(x) for x in t.split(",")] for t in ans[2 * i].split()]
        if ans[2 * i].startswith("ERR"):
            ck.correspondence_broken("model: " + ans[2 * i], {"case": c}); continue
        if r["W"] != W:
            k = next(j for j in range(len(W)) if j >= len(r["W"]) or r["W"][j] != W[j])
            bad.append("weight vector differs from the model at index %d: implementation 2^n*w = %s, model %s" % (k, r["W"][k] if k < len(r["W"]) else None, W[k]))
        for key in ("reconstructs", "trace_formula", "diag_agrees", "input_untouched", "mixed_ok", "diag_input_untouched"):
            if key in r and r[key] is not True:
                bad.append("%s is %s" % (key, r[key]))
        if c.get("diag"):
            Wd = [[float(x) for x in t.split(",")] for t in ans[2 * i + 1].split()]
            if r.get("Wd") != Wd:
                bad.append("diagonal decomposition differs from the model")
            if r.get("bad_length") != "ValueError":
                bad.append("get_weight_in_matrix with a vector of wrong length: %s" % r.get("bad_length"))
        if c.get("unitary_like"):
            probs = [(a * a + b * b) / 4 ** c["n"] for a, b in W]
            ent = -sum(p * math.log2(p) for p in probs if p > 1e-12)
            if abs(r["entropy"] - ent) > 1e-9 * max(1.0, abs(ent)):
                bad.append("quantum_fourier_entropy %r, defining sum %r" % (r["entropy"], ent))
            # influence = sum over strings P of (number of non-identity letters of P) * |c_P|^2, P at the index of its base-4 digits
            nn = c["n"]
            wt = [sum(1 for k in range(nn) if (i // 4 ** k) % 4 != 0) for i in range(4 ** nn)]
            infl = sum(w * p for w, p in zip(wt, probs))
            if abs(r["influence"] - infl) > 1e-9 * max(1.0, abs(infl)):
                bad.append("average_pauli_weight %r, defining sum %r" % (r["influence"], infl))
        if sum(1 for a, b in W if (a, b) != (0.0, 0.0)) >= 2:
            nt.add(mat_wire(c["matrix"]))
        if bad:
            ck.fail(None, "%s matrix n=%d (array layout %s): %s" % (c["kind"], c["n"], c["layout"], "; ".join(bad)), {"case": {k: v for k, v in c.items() if k != "strings"}, "differences": bad})
    # Pauli-weight table and index convention
    items = [[n, pos] for n in range(0, (5 if ck.quick else 7)) for pos in (0, 1, 2, 3)]
    wr = ck.impl("c13", [{"op": "weights", "items": items}])[0]["w"]
    wm = ck.oracle(["pweights %d %d" % (n, pos) for n, pos in items])
    for (n, pos), a, b in zip(items, wr, wm):
        if a != [int(x) for x in b.split()]:
            ck.fail(None, "get_pauli_weights(%d, identity_pos=%d) differs from the base-4 digit count" % (n, pos), {"case": {"op": "weights", "n": n, "pos": pos}})
    for n in (1, 2, 3):
        S = all_pstr(n)
        idx = ck.oracle(["pindex " + s for s in S])
        table = wr[items.index([n, 0])]
        for s, ix in zip(S, idx):
            k = int(ix.split()[0])
            if table[k] != sum(ch != "I" for ch in s):
                ck.fail(None, "weight table at the index of %s is %d" % (s, table[k]), {"case": {"op": "weights", "n": n, "string": s}})
    # rejections
    shapes = [["full", [3, 3]], ["full", [2, 4]], ["full", [4, 2]], ["full", [1, 1]], ["full", [6, 6]], ["full", [4]], ["full", [2, 2, 2]], ["full", [5, 5]], ["full", [12, 12]],
              ["diag", [1]], ["diag", [3]], ["diag", [6]], ["diag", [2, 2]], ["diag", [12]]]
    # every 2-D shape r x c with r, c in a grid that holds powers of two and of four, their neighbours and 1 (non-square shapes whose entry count
    # happens to be a power of four included), and every 1-D length of that grid
    # (sizes up to 16: the model's shape predicate computes powers of two in unary)
    grid = [1, 2, 3, 4, 5, 8, 16]
    shapes += [["full", [r, c]] for r in grid for c in grid if r != c] + [["full", [0, 0]], ["full", [0, 4]], ["full", [2, 0]]]
    shapes += [["diag", [k]] for k in (0, 5, 7, 9, 10, 14)] + [["diag", [2, 1]], ["diag", [1, 2]], ["diag", [4, 1]]]
    rj = ck.impl("c13", [{"op": "reject", "shapes": shapes}])[0]["res"]
    mj = ck.oracle(["shapeok %d %d %d" % (len(s), s[0], s[1] if len(s) > 1 else 0) if k == "full" else "dshapeok %d %d" % (len(s), s[0]) for k, s in shapes])
    for (k, s), a, b in zip(shapes, rj, mj):
        want = "accepted" if b == "1" else "ValueError"
        if a != want:
            ck.fail(None, "%s decomposition of an array of shape %s: %s, expected %s" % (k, s, a, want), {"case": {"op": "reject", "shapes": [[k, s]]}})
    ck.cov["evaluations"] = len(cases) + len(items) + len(shapes)
    ck.cov["distinct_nontrivial"] = len(nt)
    ck.cov["rule"] = ("matrices with Gaussian-integer entries in [-4,4]^2 (dense, real, sparse, Hermitian, single Pauli, diagonal), n<=%d: 2^n * weight vector vs Model/Decomp.v exactly; "
                      "for n<=3 every string as lookup key: reconstruction and the trace formula on the implementation's own matrices; diagonal variant; weight table for all identity positions; "
                      "entropy vs its defining sum; rejection table; non-trivial = at least two non-zero weights" % nmax)
    ck.cov["samples"] = [{"n": c["n"], "kind": c["kind"], "matrix": c["matrix"]} for c in cases if c["n"] == 1][:3]
    ck.cov["distribution"] = stats
    ck.cov["traces_validated_against_impl"] = len(cases)
    ck.finish(assumptions=["results are dyadic with denominator 2^n: exact in binary64 for the entry range used", "log2 and float rounding in entropy/influence are not modelled (tolerance 1e-9)"])


if __name__ == "__main__":
    run_check("C13", main)
