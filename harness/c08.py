"""C08 — membership queries (get_space, select_dependents, is_in, is_eq) agree with the commutator closure."""
import json
from harness.common import Check
from harness import gens as G


def impl(case):
    from harness import cls
    g, x = case["gens"], case["query"]
    out = {}
    from paulie import PauliStringCollection
    for nz in case.get("noise", []):
        # unrelated work in the same process before the question is asked: other collections classified and queried
        try:
            c = cls._coll(nz["gens"])
            c.get_algebra()
            for pr in nz["probes"]:
                try:
                    c.is_in(cls._coll([pr])); c.select_dependents(cls._coll([pr]))
                except Exception:  # noqa
                    pass
        except Exception:  # noqa
            pass
    routes = case.get("routes", ["parse"])
    live = None
    if case.get("history"):
        # one collection object: queried, edited in place through the public interface, then asked every question of this case
        h = case["history"]
        live = cls._coll(h["gens"])
        def warm():
            for name in h.get("warm", []):
                cur0 = [str(x) for x in live.get()]
                try:
                    {"in": lambda: live.is_in(cls._coll(cur0[:1])), "space": lambda: live.get_space(),
                     "sel": lambda: live.select_dependents(cls._coll(cur0[:1])), "eq": lambda: live.is_eq(cls._coll(cur0))}[name]()
                except Exception:  # noqa
                    pass
        for st in h["steps"]:
            warm()      # the object has answered a query immediately before every edit
            cls.apply_step(live, st)
        if [str(s) for s in live.get()] != g:
            return {"skip": "the edited collection does not hold the expected strings (C10)"}
    def fresh():
        return live if live is not None else cls._coll(g)
    def X():   # the query collection holds objects reached through different public routes
        return PauliStringCollection([cls.mk_string(s, routes[i % len(routes)]) for i, s in enumerate(x)]) if x else cls._coll(x)
    for name, f in (("sel", lambda: sorted(str(v) for v in fresh().select_dependents(X()))),
                    ("in", lambda: bool(fresh().is_in(X()))),
                    ("eq", lambda: bool(fresh().is_eq(X())))):
        try:
            out[name] = f()
        except Exception as e:  # noqa
            out[name] = "!" + type(e).__name__ + ": " + str(e)[:80]
    try:
        out["single_legs"] = max([sum(1 for leg in m.get_legs()[1:] if len(leg) == 1) for m in fresh().get_class().get_morphs()] or [0])
    except Exception:  # noqa
        out["single_legs"] = -1
    if case.get("space"):
        try:
            out["space"] = sorted(str(v) for v in fresh().get_space())
        except Exception as e:  # noqa
            out["space"] = "!" + type(e).__name__
    return out


def queries(rng, n, g, closure):
    """query collections: members, near-misses, commuting strings, identity, foreign members, duplicates"""
    cl = [c for c in closure if c != "-"]
    out = []
    r = rng.random()
    k = rng.randint(1, 4)
    if r < 0.3 and cl:
        x = [rng.choice(cl) for _ in range(k)]
    elif r < 0.5 and cl:
        x = [rng.choice(cl) for _ in range(k)]
        s = list(rng.choice(cl)); i = rng.randrange(n); s[i] = rng.choice([c for c in "IXYZ" if c != s[i]])
        x.insert(rng.randrange(len(x) + 1), "".join(s))
    elif r < 0.62:
        x = [G.commuting_with_all(rng, n, g) for _ in range(k)]
    elif r < 0.7:
        x = ["I" * n] + ([rng.choice(cl)] if cl and rng.random() < 0.5 else [])
    elif r < 0.8 and cl:
        x = [rng.choice(cl)] * 2 + [rng.choice(cl)]
    elif r < 0.9:
        x = list(g)
        rng.shuffle(x)
        if rng.random() < 0.5 and len(x) > 1:
            x = x[:-1]
    else:
        x = [G.uniform(rng, n) for _ in range(k)]
    return x


def main():
    ck = Check("C08")
    if ck.replay:
        rp = json.load(open(ck.replay)); ck.build()
        r = ck.impl("c08", [{"gens": rp["gens"], "query": rp["query"], "space": rp["n"] <= 4, "history": rp.get("history"), "routes": rp.get("routes", ["parse"])}])[0]
        print("implementation:", r)
        print("model:", ck.oracle(["member %d %s %s" % (rp["n"], ",".join(rp["gens"]), ",".join(rp["query"]))]))
        return
    if not ck.build():
        ck.finish()
    ck.check_props()
    from harness.cls import STRING_ROUTES as cls_routes
    base = G.exhaustive_small()[::7] + G.collections(ck.rng, 500 if ck.quick else 5000, 2, 4) + G.collections(ck.rng, 200 if ck.quick else 2500, 5, 5 if ck.quick else 7)
    clos = ck.oracle(["closure %d %s" % (n, " ".join(g)) for _, n, g in base])
    cases = []
    for (kind, n, g), c in zip(base, clos):
        g = [s for s in g]
        x = queries(ck.rng, n, g, c.split())
        cases.append({"n": n, "gens": g, "query": x, "space": n <= (3 if ck.quick else 4) and ck.rng.random() < 0.5,
                      "routes": [ck.rng.choice(cls_routes) for _ in range(3)]})
    # in-place histories: the generators are reached by editing a collection object that has already answered queries
    from harness import cls
    hbase = G.collections(ck.rng, 150 if ck.quick else 1500, 2, 5)
    hfinal = []
    for kind, n, g0 in hbase:
        steps, cur = cls.gen_steps(ck.rng, n, g0, 1, 3, expand=0.3 if n <= 4 else 0.0)
        if cur:
            hfinal.append((len(cur[0]), g0, steps, cur))
    hclos = ck.oracle(["closure %d %s" % (n, " ".join(cur)) for n, _, _, cur in hfinal])
    for (n, g0, steps, cur), c in zip(hfinal, hclos):
        cases.append({"n": n, "gens": cur, "query": queries(ck.rng, n, cur, c.split()), "space": n <= 3 and ck.rng.random() < 0.5,
                      "routes": [ck.rng.choice(cls_routes)],
                      "history": {"gens": g0, "steps": steps, "warm": ck.rng.sample(["in", "space", "sel", "eq"], ck.rng.randint(1, 2)) if n <= 4 else ck.rng.sample(["in", "sel", "eq"], 1)}})
    # corpus: the recorded witness of the known finding (a member of the closure not recognised on a graph with 5 single legs)
    cases.append({"n": 6, "gens": ["ZIXYIZ", "XIIXXY", "IIZYXI", "IIYXZI", "YXIYYY", "ZIYYII"], "query": ["ZXYIXZ"], "space": False})
    # every fifth case is asked after unrelated collections (two-local chains, random ones) were classified and queried in the same process
    for i, c in enumerate(cases):
        if i % 5 == 4 and not c.get("history"):
            n = c["n"]
            noise = []
            for _k in range(ck.rng.randint(1, 2)):
                ng = G.long_chain_cases(ck.rng, 1, n)[0][2] if (n >= 2 and ck.rng.random() < 0.6) else [G.uniform(ck.rng, n) for _ in range(ck.rng.randint(2, 7))]
                probes = []
                for _j in range(ck.rng.randint(2, 6)):
                    j = ck.rng.randrange(n)
                    probes.append("I" * j + ck.rng.choice("XYZ") + "I" * (n - j - 1) if ck.rng.random() < 0.6 else G.uniform(ck.rng, n))
                noise.append({"gens": ng, "probes": probes})
            c["noise"] = noise
    res = ck.impl("c08", cases, per_case_s=120)
    ans = ck.oracle(["member %d %s %s" % (c["n"], ",".join(c["gens"]), ",".join(c["query"])) for c in cases])
    sp = ck.oracle(["space %d %s" % (c["n"], ",".join(c["gens"])) for c in cases])
    nt = set()
    stats = {"space_compared": 0, "in_true": 0, "in_false": 0, "eq_true": 0, "history_cases": sum(1 for c in cases if c.get("history"))}
    for c, r, a, s in zip(cases, res, ans, sp):
        if "skip" in r:
            stats["skipped"] = stats.get("skipped", 0) + 1; continue
        if "exc" in r:
            ck.fail(None, "membership query raised %s" % r["exc"], dict(c, result=r)); continue
        f = dict(kv.split("=", 1) for kv in a.split(" "))
        want_sel = sorted(set(x for x in f["sel"].split(",") if x))
        want_in, want_eq = f["in"] == "1", f["eq"] == "1"
        stats["in_true" if want_in else "in_false"] += 1
        stats["eq_true"] += want_eq
        bad = []
        if not isinstance(r["sel"], list) or sorted(set(r["sel"])) != want_sel:
            bad.append("select_dependents: implementation %s, closure says %s" % (r["sel"], want_sel))
        if r["in"] != want_in:
            bad.append("is_in: implementation %s, closure says %s" % (r["in"], want_in))
        if r["eq"] != want_eq:
            bad.append("is_eq: implementation %s, closure says %s" % (r["eq"], want_eq))
        if "space" in r:
            stats["space_compared"] += 1
            want = sorted(x for x in s.split() if x != "-")
            if not isinstance(r["space"], list) or sorted(set(r["space"])) != want or len(set(r["space"])) != len(r["space"]):
                bad.append("get_space: implementation has %s strings, closure (minus identity) %d" % (len(r["space"]) if isinstance(r["space"], list) else r["space"], len(want)))
        if len(want_sel) not in (0, len(c["query"])) or want_in:
            nt.add((tuple(c["gens"]), tuple(c["query"])))
        if bad:
            # known finding: dependency detection is incomplete on canonical graphs with >= 4 single legs
            key = "membership-on-graph-with-4-or-more-single-legs" if r.get("single_legs", 0) >= 4 else None
            ck.fail(key, "G=%s X=%s: %s" % (c["gens"], c["query"], "; ".join(bad)), dict(c, implementation=r, model=a, differences=bad))
    ck.cov["evaluations"] = len(cases)
    ck.cov["distinct_nontrivial"] = len(nt)
    ck.cov["rule"] = ("(G, X): G from exhaustive/structured/uniform streams n<=%d, X from members of the closure, one-letter near misses, strings commuting with all of G, "
                      "identity, duplicates, sub-/permuted generator lists, uniform; each query on a fresh collection; non-trivial = the query mixes members and non-members or is a true containment; "
                      "expected answers from Model/Member.v (proved equal to Cl-membership)" % (5 if ck.quick else 7))
    ck.cov["samples"] = cases[:4]
    ck.cov["distribution"] = stats
    ck.cov["traces_validated_against_impl"] = len(cases)
    ck.finish(assumptions=["get_space is compared with the closure minus the identity string (the implementation enumerates non-identity strings only)"])


if __name__ == "__main__":
    from harness.common import run_check
    run_check("C08", main)
