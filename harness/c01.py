"""C01 — the reported Lie algebra is isomorphic to the true dynamical Lie algebra."""
import itertools
import json
from harness.common import Check
from harness import gens as G
from harness import lie


def impl(case):
    if case["op"] == "classify":
        from harness import cls
        out, _, _ = cls.classify(case["gens"], trace=True)
        return out
    if case["op"] == "history":
        from harness import cls
        return {"stages": cls.classify_history(case["gens"], case["steps"], case.get("orders"))}
    if case["op"] == "legs":
        # synthetic Morph objects: the census only looks at leg lengths
        from paulie import Morph, Classification, PauliString
        res = []
        for morphs in case["morph_lists"]:
            cl = Classification()
            props = []
            for legs in morphs:
                m = Morph([[PauliString(n=1) for _ in range(k)] for k in legs], [])
                cl.add(m)
                try:
                    t, nc, size = m.get_algebra_properties()
                    props.append("%s %d %d" % (t.name.lower(), nc, size))
                except Exception as e:  # noqa
                    props.append("!" + type(e).__name__)
            r = {"props": props}
            for name, f in (("algebra", cl.get_algebra), ("dim", cl.get_dla_dim)):
                try:
                    r[name] = f()
                except Exception as e:  # noqa
                    r[name] = "!" + type(e).__name__
            res.append(r)
        return {"res": res}
    raise ValueError(case["op"])


def leg_vectors(quick):
    """all leg-length vectors (centre first, centre has one vertex) with <=5 legs of length <=5"""
    out = [[1]]
    mx_legs, mx_len = (4, 5) if quick else (6, 6)
    for k in range(1, mx_legs + 1):
        for c in itertools.combinations_with_replacement(range(1, mx_len + 1), k):
            out.append([1] + list(c))
    return out


def ltxt(legs):
    return ",".join(map(str, legs)) if legs else "e"


# the steps of the unchanged pipeline that attach a vertex to the centre WITHOUT running check_dependency_one_leg first
# (morph_factory.py: append_to_two_center, and the centre branch of step VI); a dependent single leg that comes in
# through any other step is not the known defect
UNCHECKED_SITES = {"append_to_two_center", "_append_long_leg_only_last_lit",
                   # a vertex replaced by an equivalent one (no step re-tests dependence after a replacement)
                   "replace@_append_one_legs_in_different_state", "replace@_append_long_leg_only_last_lit"}


def signature(morphs, attach_sites=None):
    """known-finding signature: a canonical single leg is the product of other single legs of its graph, AND the unchanged
    library could not have seen it: either every such relation needs at least five other legs (check_dependency_one_leg only
    searches three-term relations), or the relation has three other legs and the event that completed it (the last attachment or replacement of one
    of its four legs) happened in a step that does not run the check (UNCHECKED_SITES; call sites observed by cls.attach_trace).  A three-leg relation that
    came in through a checked step (e.g. _append_fast) is a different defect."""
    import itertools
    found = False
    for m in morphs:
        singles = [leg[0] for leg in m["legs"][1:] if len(leg) == 1]
        vecs = [G.vec(s) for s in singles]
        for i, v in enumerate(vecs):
            others = [(j, w) for j, w in enumerate(vecs) if j != i]
            if not G.in_span(v, [w for _, w in others]):
                continue
            # a smallest set of other single legs whose product is this leg
            best = None
            for k in range(1, len(others) + 1):
                for sub in itertools.combinations(others, k):
                    x = 0
                    for _, w in sub:
                        x ^= w
                    if x == v:
                        best = [singles[i]] + [singles[j] for j, _ in sub]; break
                if best:
                    break
            if best is None:
                continue
            if len(best) - 1 >= 5:
                found = True
                continue
            # the event (attachment or replacement of one of the legs of the relation) that happened last is the one that
            # completed the relation: a dependency test would have had to run there
            events = [ev.split(":", 1) for x in best for ev in str((attach_sites or {}).get(x, "-1:?")).split(">")]
            last_site = max(events, key=lambda t: int(t[0]))[1] if events else "?"
            if last_site in UNCHECKED_SITES:
                found = True
                continue
            return None
    return "single-leg-in-span-of-single-legs" if found else None


def history_cases(ck, count, nmax=5):
    """one collection object queried, edited in place through the public interface and queried again (queries in a
    random order): -> (cases, results) of every stage, in the shape judge_collections / the C09 judge expect"""
    from harness import cls
    hist = []
    for kind, n, g in G.collections(ck.rng, count, 2, nmax):
        steps, _ = cls.gen_steps(ck.rng, n, g, 1, 3, expand=0.25)
        hist.append({"op": "history", "gens": g, "steps": steps, "n": n, "orders": cls.gen_orders(ck.rng, len(steps) + 1)})
    hres = ck.impl("c01", hist, per_case_s=300)
    cases, res = [], []
    for c, r in zip(hist, hres):
        if "exc" in r:
            continue   # an edit the library rejects is C10's business
        for si, stage in enumerate(r["stages"]):
            if stage["gens"]:
                cases.append(("history:" + json.dumps({"gens": c["gens"], "steps": c["steps"][:si], "orders": c["orders"][:si + 1]}), len(stage["gens"][0]), stage["gens"]))
                res.append(stage)
    return cases, res


def check_star_tie(ck, dist, with_dim=False):
    """model classify == implementation get_algebra_properties / get_algebra / get_dla_dim on synthetic graphs"""
    vecs = leg_vectors(ck.quick)
    lists = [[v] for v in vecs]
    good = [v for v in vecs if len(v) <= 4]
    for _ in range(300 if ck.quick else 3000):
        lists.append([ck.rng.choice(good) for _ in range(ck.rng.randint(2, 3))])
    lists.append([])
    B = 200
    cases = [{"op": "legs", "morph_lists": lists[i:i + B]} for i in range(0, len(lists), B)]
    res = [r for rr in ck.impl("c01", cases) for r in rr["res"]]
    req = []
    for ml in lists:
        for legs in ml:
            req.append("algprops " + ltxt(legs))
        mtxt = "/".join(ltxt(l) for l in ml) if ml else "none"
        req += ["algebra " + mtxt, "dladim " + mtxt]
    ans = ck.oracle(req)
    k = 0
    bad = 0
    for ml, r in zip(lists, res):
        props = ans[k:k + len(ml)]; k += len(ml)
        alg, dim = ans[k], ans[k + 1]; k += 2
        diffs = []
        for legs, a, b in zip(ml, r["props"], props):
            want = "!ClassificatonException" if b == "ClassErr" else b
            if a != want:
                diffs.append("get_algebra_properties(%s): implementation %s, model %s" % (legs, a, want))
        if alg == "ClassErr":
            if not str(r["algebra"]).startswith("!"):
                diffs.append("get_algebra: implementation %r, model raises" % (r["algebra"],))
        else:
            want = sorted((t.split(",")[0], int(t.split(",")[1]), int(t.split(",")[2]) / 2) for t in alg.split(";") if t)
            agg = {}
            for f, s, m in want:
                agg[(f, s)] = agg.get((f, s), 0) + m
            try:
                got = {}
                for term in str(r["algebra"]).split("+"):
                    if not term:
                        continue
                    mult, name = (term.split("*") + [None])[:2] if "*" in term else ("1", term)
                    f, s = name[:name.index("(")], int(name[name.index("(") + 1:-1])
                    got[(f, s)] = got.get((f, s), 0) + float(mult)
            except Exception:  # noqa
                got = None
            if got != agg:
                diffs.append("get_algebra: implementation %r, model %r" % (r["algebra"], agg))
            if any(m != int(m) for m in agg.values()):
                pass  # half-integral multiplicity: nc = 0, not a Lie algebra name; never produced by the builder
            wantdim = "!ClassificatonException" if dim == "ClassErr" else int(dim)
            if with_dim and r["dim"] != wantdim and all(int(l.split()[1]) >= 1 for l in props if " " in l):
                diffs.append("get_dla_dim: implementation %r, model %r" % (r["dim"], wantdim))
        if diffs:
            bad += 1
            ck.correspondence_broken("census/name arithmetic differs from Model/Star.v: " + "; ".join(diffs[:3]), {"morph_leg_lengths": ml, "differences": diffs})
    dist["synthetic_graph_lists"] = len(lists)
    return bad


def judge_collections(ck, cases, res):
    """name vs invariants of the verified closure"""
    req = ["lieinv %d %s" % (n, " ".join(g)) for _, n, g in cases]
    ans = ck.oracle(req)
    nt = set()
    kinds = {}
    for (kind, n, g), r, a in zip(cases, res, ans):
        kinds[kind.split(":")[0]] = kinds.get(kind.split(":")[0], 0) + 1
        if "exc" in r:
            ck.fail(None, "classification raised %s on %s" % (r["exc"], g), {"n": n, "gens": g, "result": r})
            continue
        why = lie.compare_name_with_inv(r["algebra"], a)
        c, comps = lie.parse_lieinv(a)
        if any(s > 3 for s, _, _ in comps):
            nt.add((n, tuple(sorted(set(g)))))
        if why:
            key = signature(r["morphs"], r.get("attach_sites"))
            ck.fail(key, "n=%d generators %s: %s" % (n, g, why),
                    {"n": n, "gens": g, "reported": r["algebra"], "closure_invariants": a, "why": why, "kind": kind,
                     "legs": [m["legs"] for m in r["morphs"]]})
    return nt, kinds


def main():
    ck = Check("C01")
    if ck.replay:
        rp = json.load(open(ck.replay)); ck.build()
        if str(rp.get("kind", "")).startswith("history:"):
            h = json.loads(rp["kind"][len("history:"):]); print("history:", h)
            r = ck.impl("c01", [dict(h, op="history")])[0]["stages"][-1]
        else:
            r = ck.impl("c01", [{"op": "classify", "gens": rp["gens"]}])[0]
        a = ck.oracle(["lieinv %d %s" % (rp["n"], " ".join(rp["gens"]))])[0]
        print("implementation:", r.get("algebra"), "| closure invariants:", a, "|", lie.compare_name_with_inv(r["algebra"], a))
        return
    if not ck.build():
        ck.finish()
    ck.check_props()
    ck.check_translation()
    dist = {}
    check_star_tie(ck, dist)
    cases = G.exhaustive_small()
    if ck.quick:
        cases += G.collections(ck.rng, 1500, 3, 5) + G.collections(ck.rng, 250, 6, 6) + G.long_chain_cases(ck.rng, 28, 7) + G.dense_collections(ck.rng, 800, 4, 5) + G.sparse_collections(ck.rng, 500, 4, 6, 9, 18)
    else:
        cases += G.collections(ck.rng, 12000, 3, 5) + G.collections(ck.rng, 3000, 6, 7) + G.collections(ck.rng, 200, 8, 8) + G.long_chain_cases(ck.rng, 28, 7) + G.long_chain_cases(ck.rng, 12, 8) + G.dense_collections(ck.rng, 8000, 4, 6) + G.sparse_collections(ck.rng, 5000, 4, 6, 9, 18)
    # the constructed family of the known finding is always present
    cases.append(("star", 5, ["XIIII", "ZIIII", "ZZIII", "ZIZII", "ZIIZI", "ZIIIZ", "ZZZZZ"]))
    # ... and the witness of Refine/QueueRefine.gen_q_check_dependency_refuted (check_dependency_one_leg accepts the product of five single legs)
    cases.append(("star", 5, ["XXXXX", "ZIIII", "IZIII", "IIZII", "IIIZI", "IIIIZ", "ZZZZZ"]))
    res = ck.impl("c01", [{"op": "classify", "gens": g} for _, _, g in cases], per_case_s=120)
    hc, hr = history_cases(ck, 200 if ck.quick else 2000)
    cases += hc; res += hr
    dist["history_stages"] = len(hc)
    nt, kinds = judge_collections(ck, cases, res)
    dist["collections_by_kind"] = kinds
    dist["by_n"] = {}
    for _, n, _g in cases:
        dist["by_n"][n] = dist["by_n"].get(n, 0) + 1
    ck.cov["evaluations"] = len(cases) + dist["synthetic_graph_lists"]
    ck.cov["distinct_nontrivial"] = len(nt)
    ck.cov["rule"] = ("collections: all multisets of <=3 strings at n=2, all sets of <=2 strings at n=3, structured (two-local translates, stars with "
                      "dependent single legs, paths, commuting sets, duplicates+identity, disconnected, dependent) and uniform for n up to %d; "
                      "non-trivial = distinct generator set whose closure has a non-abelian component larger than so(3). "
                      "judge: invariants (centre, per component |C|,|Z_C|,degree) of the Coq-verified closure vs the parsed name; "
                      "plus every leg-length vector up to the stated bound through Morph/Classification vs Model/Star.v" % (6 if ck.quick else 8))
    ck.cov["samples"] = [list(c) for c in cases[::max(1, len(cases) // 6)]][:6]
    ck.cov["distribution"] = dist
    ck.cov["traces_validated_against_impl"] = len(cases)
    ck.finish(assumptions=["equal invariants (dimension, centre, per-component size/|Z_C|/degree) imply isomorphism: classification theorem arXiv:2408.00081, not proved here",
                           "closure enumerated, so n<=%d" % (7 if ck.quick else 8)])


if __name__ == "__main__":
    from harness.common import run_check
    run_check("C01", main)
