"""Shared machinery of the PauLie verification checks (see DESIGN.md section 4, 8).

A check is `harness/cNN.py`; it builds the Coq development and the extracted
oracle, re-checks `coq/Props/CNN.v` (capturing Print Assumptions), runs cases on
the implementation found in /repo's working tree (worker subprocesses) and on
the oracle, judges, and writes evidence/CNN.json.
"""
import fcntl
import json
import os
import random
import re
import subprocess
import sys
import time

VERIF = os.path.dirname(os.path.dirname(os.path.abspath(__file__)))
REPO = os.environ.get("PAULIE_REPO", "/repo")
PY = "/venv/bin/python"
ORACLE = os.path.join(VERIF, "oracle", "pauli_oracle")
WORK = os.path.join(VERIF, ".work")
FORBIDDEN = re.compile(r"\b(Admitted|admit|Axiom|Parameter|Conjecture|Unset Guard|bypass_check|Admit Obligations)\b")
ALLOWED_AXIOMS = ()  # the development is meant to be closed under the global context

TRUSTED_BASE = [
    "Coq 8.16.1 kernel (coqc; vm_compute used, native_compute not used)",
    "axioms: none expected (Print Assumptions output is recorded per theorem)",
    "extraction: Extraction + ExtrOcamlBasic only (bool, option, unit, prod, list, sumbool, sumor mapped to OCaml types); OCaml 4.13.1",
    "oracle/driver.ml: text<->constructor and int<->positive/N/Z/nat conversion, line protocol",
    "harness (Python): generators, canonicalisation, name parser, known-finding matching",
    "modelled, not verified: CPython, bitarray, numpy, networkx, Python int()/dict/set, floats",
]


def env_for_impl(extra=None):
    env = dict(os.environ)
    env["PYTHONPATH"] = os.path.join(REPO, "src") + os.pathsep + VERIF
    env.setdefault("PYTHONHASHSEED", "0")
    env["PAULIE_VERIF"] = "1"
    env["PAULIE_REPO"] = REPO
    for k in ("OMP_NUM_THREADS", "OPENBLAS_NUM_THREADS", "MKL_NUM_THREADS", "NUMEXPR_NUM_THREADS"):
        env[k] = "1"   # many worker processes: no BLAS thread oversubscription
    if extra:
        env.update(extra)
    return env


def run(cmd, **kw):
    kw.setdefault("stdout", subprocess.PIPE)
    kw.setdefault("stderr", subprocess.STDOUT)
    kw.setdefault("text", True)
    return subprocess.run(cmd, **kw)


class Check:
    def __init__(self, pid, argv=None):
        argv = sys.argv[1:] if argv is None else argv
        self.pid = pid
        self.tier = os.environ.get("VERIF_TIER", "quick")
        self.replay = None
        i = 0
        while i < len(argv):
            if argv[i] == "--tier":
                self.tier = argv[i + 1]; i += 2
            elif argv[i] == "--replay":
                self.replay = argv[i + 1]; i += 2
            else:
                i += 1
        if self.tier not in ("quick", "thorough"):
            self.tier = "quick"
        try:
            self.seed = int(os.environ.get("VERIF_SEED", "0"))
        except ValueError:
            self.seed = 0
        self.rng = random.Random(self.seed * 1000003 + int(pid[1:]))
        self.t0 = time.time()
        self.violations = []       # (what, replay_path, no_input)
        self.known_met = {}        # key -> count
        self.cov = {"evaluations": 0, "distinct_nontrivial": 0, "samples": [], "rule": ""}
        self.assumptions = []
        self.proof = {"obligations": 0, "discharged": 0, "theorems": [], "print_assumptions": {}}
        self.known = load_known(pid)
        os.makedirs(WORK, exist_ok=True)
        os.makedirs(os.path.join(VERIF, "evidence"), exist_ok=True)
        os.makedirs(os.path.join(VERIF, "replays"), exist_ok=True)

    @property
    def quick(self):
        return self.tier == "quick"

    # ---------- build & proofs ----------
    def build(self):
        """make the Coq development and the oracle (serialised by a lock)."""
        lock = open(os.path.join(WORK, "build.lock"), "w")
        fcntl.flock(lock, fcntl.LOCK_EX)
        try:
            r = run(["bash", "-c", "cd %s/coq && (test -f Makefile || coq_makefile -f _CoqProject -o Makefile) >/dev/null 2>&1; timeout 1500 make -j12 > %s/make.log 2>&1; rc=$?; tail -40 %s/make.log; exit $rc" % (VERIF, WORK, WORK)])
            ok = True
            if r.returncode != 0:
                ok = False
                self.obligation_broken("coq development does not build", r.stdout[-3000:])
            r3 = run(["bash", "-c", "cd %s/oracle && timeout 600 make 2>&1 | tail -20" % VERIF])
            if not os.path.exists(ORACLE) or r3.returncode != 0:
                ok = False
                self.obligation_broken("oracle does not build", r3.stdout[-3000:])
            return ok
        finally:
            fcntl.flock(lock, fcntl.LOCK_UN)
            lock.close()

    def check_props(self):
        """Re-check coq/Props/<pid>.v from scratch, record Print Assumptions."""
        src = os.path.join(VERIF, "coq", "Props", self.pid + ".v")
        if not os.path.exists(src):
            self.obligation_broken("Props/%s.v missing" % self.pid, "")
            return
        text = open(src).read()
        names = re.findall(r"^\s*(?:Theorem|Lemma|Example|Corollary)\s+(\w+)", text, re.M)
        self.proof["obligations"] = len(names)
        self.proof["theorems"] = names
        # forbidden vernacular anywhere in the development
        bad = []
        for root, _, files in os.walk(os.path.join(VERIF, "coq")):
            for f in files:
                if f.endswith(".v"):
                    body = open(os.path.join(root, f)).read()
                    body = re.sub(r"\(\*.*?\*\)", "", body, flags=re.S)
                    for m in FORBIDDEN.finditer(body):
                        bad.append("%s: %s" % (os.path.join(root, f), m.group(0)))
        if bad:
            self.obligation_broken("forbidden vernacular in development", "\n".join(bad))
            return
        out_dir = os.path.join(WORK, "props_" + self.pid)
        os.makedirs(out_dir, exist_ok=True)
        r = run(["bash", "-c", "cd %s/coq && timeout 900 coqc -Q Model PauLie -Q Theory PauLie -Q Props PauLie -w -notation-overridden,-deprecated Props/%s.v -o %s/%s.vo" % (VERIF, self.pid, out_dir, self.pid)])
        if r.returncode != 0:
            self.obligation_broken("Props/%s.v does not check" % self.pid, r.stdout[-3000:])
            return
        # parse Print Assumptions blocks: either "Closed under the global context" or "Axioms:" + list
        closed = r.stdout.count("Closed under the global context")
        axioms = re.findall(r"^Axioms:\n((?:.+\n)+?)(?=\S|\Z)", r.stdout, re.M)
        pa = len(re.findall(r"^\s*Print Assumptions", text, re.M))
        self.proof["print_assumptions"] = {"blocks": pa, "closed": closed, "with_axioms": len(axioms), "axioms": sorted(set(a.strip() for blk in axioms for a in blk.splitlines() if ":" in a))}
        if axioms:
            self.obligation_broken("theorems depend on axioms", "\n".join(axioms))
            return
        if closed < pa:
            self.obligation_broken("Print Assumptions output incomplete", r.stdout[-2000:])
            return
        self.proof["discharged"] = len(names)

    TRANSLATED = {"classification": ("src/paulie/classifier/classification.py", "ClassGen.v", "ClassRefine.v", "Model/Star.v"),
                  "compiler": ("src/paulie/application/pauli_compiler.py", "CompGen.v", "CompRefine.v", "Model/Compiler.v"),
                  "pstring": ("src/paulie/common/pauli_string_bitarray.py", "PSGen.v", "PSRefine.v", "Model/Pauli.v"),
                  "collection": ("src/paulie/common/pauli_string_collection.py", "CollGen.v", "CollRefine.v", "Model/Collection.v"),
                  "parser": ("src/paulie/common/pauli_string_parser.py", "ParserGen.v", "ParserRefine.v", "Model/Parser.v"),
                  "table": ("src/paulie/common/two_local_generators.py", "TableGen.v", "TableRefine.v", "Model/Families.v"),
                  "linear": ("src/paulie/common/pauli_string_linear.py", "LinGen.v", "LinRefine.v", "Model/Linear.v"),
                  "numpy": ("src/paulie/application/matrix_decomposition.py (_pauli_ord, _mat_to_vec, matrix_decomposition, matrix_decomposition_diagonal: index arrays, gather, in-place butterflies) and average_pauli_weight.py (get_pauli_weights)", "NumpyGen.v", "NumpyRefine.v", "Model/Decomp.v (vec, bfly_iter, dbfly_iter, decompose, decompose_diag, pauli_weights)"),
                  "queue": ("src/paulie/classifier/morph_factory.py (MorphFactory._get_anti_commutates, _get_max_connected, _append_to_queue, _get_queue: the order in which a component is fed to the pipeline; check_dependency_one_leg, get_one_vertices, _gen_one_legs, get_vertices, is_empty_legs: the dependency test of append_to_center; find, append, remove, replace, get_center, append_to_center: the primitive edits of the graph; get_lits, lit, get_pq: the look-ups of the steps; append_delayed, restore_delayed)", "QueueGen.v", "QueueRefine.v", "Model/Collection.v (sort_strs, remove1, find, insert_at), Model/Pauli.v (commutes_code)"),
                  "factory": ("src/paulie/common/pauli_string_factory.py (gen_k_local, gen_k_local_generators, class Used)", "FactoryGen.v", "FactoryRefine.v", "Model/Parser.v (k_local, k_local_generators)"),
                  "search": ("src/paulie/application/pauli_compiler.py (compile_target, OptimalPauliCompiler.compile, _case3_best_reordering, _bfs_case3, _nested_commutator_result, _sequence_to_paulie_orientation)", "SearchGen.v", "SearchRefine.v", "Model/Compiler.v (nested_eval)"),
                  "optimiser": ("src/paulie/common/pauli_string_collection.py (find_generators_with_connection, list_connections, _get_delta)", "OptGen.v", "OptRefine.v", "Model/Optimise.v"),
                  "apps": ("src/paulie/common/get_graph.py, application/otoc.py, fourpoint.py, charges.py and the graph methods of pauli_string_collection.py", "AppGen.v", "AppRefine.v", "Model/Graph.v, Model/Orbit.v")}

    def check_translation(self, kind="classification"):
        """Regenerate the Gallina translation of part of the source from REPO's working tree (tools/py2coq.py) and
        re-check coq/Refine/<..>Refine.v: every generated function equals the hand model."""
        srcf, genf, reff, modelf = self.TRANSLATED[kind]
        gen = os.path.join(WORK, "gen_%s_%s" % (self.pid, kind))
        os.makedirs(gen, exist_ok=True)
        for f in os.listdir(gen):
            os.remove(os.path.join(gen, f))
        info = {"translator": "tools/py2coq.py", "source": srcf, "refinement": "coq/Refine/" + reff}
        self.cov.setdefault("translated_model", {})[kind] = info
        r = run([PY, os.path.join(VERIF, "tools", "py2coq.py"), REPO, os.path.join(gen, genf), kind])
        info["translator_output"] = r.stdout.strip()[-400:]
        text = open(os.path.join(VERIF, "coq", "Refine", reff)).read()
        names = re.findall(r"^\s*(?:Theorem|Example)\s+(\w+)", text, re.M)
        pa = len(re.findall(r"^\s*Print Assumptions", text, re.M))
        info["theorems"] = names
        self.proof["obligations"] += len(names)
        if r.returncode != 0:
            self.obligation_broken("translator tools/py2coq.py cannot read %s any more (fail-closed): the generated model is missing and Refine/%s is not checked" % (srcf, reff), r.stdout[-3000:])
            return False
        q = "-Q Model PauLie -Q Theory PauLie -Q Refine PauLieRefine -Q %s PauLieGen -w -notation-overridden,-deprecated" % gen
        r = run(["bash", "-c", "cd %s/coq && timeout 300 coqc %s %s/%s 2>&1 && timeout 600 coqc %s -o %s/%so Refine/%s 2>&1" % (VERIF, q, gen, genf, q, gen, reff, reff)])
        if r.returncode != 0:
            self.obligation_broken("Refine/%s does not check: the model generated from %s is no longer proved equal to the hand model (%s)" % (reff, srcf, modelf), r.stdout[-3000:])
            return False
        if "Axioms:" in r.stdout or r.stdout.count("Closed under the global context") < pa:
            self.obligation_broken("Refine/%s: theorems depend on axioms" % reff, r.stdout[-2000:])
            return False
        self.proof["discharged"] += len(names)
        self.proof["theorems"] = self.proof["theorems"] + ["Refine." + n for n in names]
        info["closed_under_global_context"] = pa
        return True

    def obligation_broken(self, what, detail):
        path = self.write_replay({"kind": "obligation", "obligation": what, "detail": detail})
        self.violations.append((what, path, True))

    # ---------- oracle ----------
    def oracle(self, lines, procs=8):
        """Answers of the extracted model, one per request line."""
        if not lines:
            return []
        procs = max(1, min(procs, len(lines) // 200 + 1))
        chunks = [lines[i::procs] for i in range(procs)]
        ps = []
        for ch in chunks:
            p = subprocess.Popen(["bash", "-c", "ulimit -s unlimited; exec %s" % ORACLE], stdin=subprocess.PIPE, stdout=subprocess.PIPE, text=True)
            ps.append(p)
        outs = []
        import threading
        res = [None] * procs
        def feed(i):
            res[i] = ps[i].communicate("\n".join(chunks[i]) + "\n")[0].split("\n")
        ths = [threading.Thread(target=feed, args=(i,)) for i in range(procs)]
        [t.start() for t in ths]; [t.join() for t in ths]
        out = [None] * len(lines)
        for i in range(procs):
            got = res[i]
            if got and got[-1] == "":
                got = got[:-1]
            if len(got) != len(chunks[i]):
                raise RuntimeError("oracle answered %d of %d requests" % (len(got), len(chunks[i])))
            out[i::procs] = got
        return out

    # ---------- implementation ----------
    def impl(self, module, cases, procs=14, per_case_s=30, env=None, total_s=None):
        """Run cases (JSON-serialisable dicts) through harness.<module>.impl in worker processes
        importing paulie from REPO's working tree. Returns results in order; a case the worker did
        not answer yields {"exc": "Timeout"}."""
        if not cases:
            return []
        procs = max(1, min(procs, (len(cases) + 3) // 4))
        chunks = [cases[i::procs] for i in range(procs)]
        ps = []
        for ch in chunks:
            p = subprocess.Popen([PY, "-X", "utf8", os.path.join(VERIF, "harness", "impl_worker.py"), module, str(per_case_s)],
                                 stdin=subprocess.PIPE, stdout=subprocess.PIPE, stderr=subprocess.PIPE, text=True,
                                 env=env_for_impl(env), cwd=VERIF)
            ps.append(p)
        import threading
        res = [None] * procs
        errs = [""] * procs
        budget = total_s if total_s else max(120, per_case_s * max(len(c) for c in chunks) + 60)
        def feed(i):
            try:
                o, e = ps[i].communicate("\n".join(json.dumps(c) for c in chunks[i]) + "\n", timeout=budget)
            except subprocess.TimeoutExpired:
                ps[i].kill()
                o, e = ps[i].communicate()
            res[i] = [l for l in o.split("\n") if l.startswith("{")]
            errs[i] = e
        ths = [threading.Thread(target=feed, args=(i,)) for i in range(procs)]
        [t.start() for t in ths]; [t.join() for t in ths]
        out = [None] * len(cases)
        for i in range(procs):
            got = [json.loads(l) for l in res[i]]
            if got and got[0].get("worker_error"):
                raise RuntimeError("worker failed to start: " + got[0]["worker_error"])
            if not got and chunks[i]:
                raise RuntimeError("worker produced no output: " + errs[i][-2000:])
            got = got + [{"exc": "Timeout"}] * (len(chunks[i]) - len(got))
            out[i::procs] = got
        return out

    # ---------- verdicts ----------
    def write_replay(self, obj):
        n = len(os.listdir(os.path.join(VERIF, "replays")))
        path = os.path.join(VERIF, "replays", "%s_%s_%d_%d.json" % (self.pid, self.tier, self.seed, n))
        obj = dict(obj); obj["property"] = self.pid
        with open(path, "w") as f:
            json.dump(obj, f, indent=1, sort_keys=True, default=str)
        return path

    def fail(self, key, what, replay_obj):
        """A case on which the property fails. key identifies it for known-finding matching."""
        if key is not None and key in self.known:
            self.known_met[key] = self.known_met.get(key, 0) + 1
            return False
        if len(self.violations) < 20:
            path = self.write_replay(dict(replay_obj, kind="failing-input", what=what, key=key))
            self.violations.append((what, path, False))
        return True

    def correspondence_broken(self, what, replay_obj):
        """model != implementation but no failing input for the property was found."""
        if len([v for v in self.violations if v[2]]) < 5:
            path = self.write_replay(dict(replay_obj, kind="correspondence", what=what))
            self.violations.append((what, path, True))

    def finish(self, level="proof", extra=None, assumptions=None):
        cov = dict(self.cov)
        cov.update({
            "obligations": self.proof["obligations"],
            "discharged": self.proof["discharged"],
            "checker_cmd": "make -C coq && coqc Props/%s.v (Print Assumptions captured); oracle = extraction of the same definitions" % self.pid,
            "trusted_base": TRUSTED_BASE,
            "theorems": self.proof["theorems"],
            "print_assumptions": self.proof["print_assumptions"],
            "known_findings_met": self.known_met,
        })
        cov["samples"] = cov["samples"][:8] or ["(no case generated)"]
        if extra:
            cov.update(extra)
        ev = {
            "property_id": self.pid, "tier": self.tier, "seed": self.seed, "level": level,
            "coverage": cov, "assumptions": (assumptions or []) + self.assumptions,
            "wall_s": round(time.time() - self.t0, 2), "violations": len(self.violations),
        }
        with open(os.path.join(VERIF, "evidence", self.pid + ".json"), "w") as f:
            json.dump(ev, f, indent=1, sort_keys=True, default=str)
        for key, cnt in sorted(self.known_met.items()):
            print("KNOWN-FINDING: property=%s %s (%s; met %d times)" % (self.pid, key, self.known[key], cnt))
        for what, path, no_input in self.violations:
            print("# %s" % what.replace("\n", " ")[:300])
            print("VIOLATION property=%s replay=%s%s" % (self.pid, path, " no-failing-input-found" if no_input else ""))
        print("%s %s: %d evaluations, %d distinct non-trivial, %d/%d obligations, %d violations, %.1fs" % (
            self.pid, self.tier, cov["evaluations"], cov["distinct_nontrivial"], cov["discharged"], cov["obligations"], len(self.violations), time.time() - self.t0))
        sys.stdout.flush()
        sys.exit(1 if self.violations else 0)


def load_known(pid):
    """known_findings.txt: lines `known: property=Cxx key=<key> <description>`; `fixed:` lines suppress nothing."""
    out = {}
    path = os.path.join(VERIF, "known_findings.txt")
    if os.path.exists(path):
        for line in open(path):
            m = re.match(r"known:\s+property=(\w+)\s+key=(\S+)\s*(.*)", line.strip())
            if m and m.group(1) == pid:
                out[m.group(2)] = m.group(3)
    return out


# ---------- small helpers used by several checks ----------
LET = "IXYZ"

def rand_pstr(rng, n, p_id=0.25):
    return "".join("I" if rng.random() < p_id else rng.choice("XYZ") for _ in range(n))

def uniform_pstr(rng, n):
    return "".join(rng.choice(LET) for _ in range(n))

def all_pstr(n):
    import itertools
    return ["".join(t) for t in itertools.product(LET, repeat=n)]

def otxt(s):
    return s if s else "-"


def run_check(pid, main):
    """entry point wrapper: an internal failure of a check is reported, never a silent pass"""
    import traceback
    try:
        main()
    except SystemExit:
        raise
    except BaseException as e:  # noqa
        tb = traceback.format_exc()
        ck = Check(pid)
        ck.cov["evaluations"] = 0
        ck.obligation_broken("check machinery failed: %s: %s" % (type(e).__name__, e), tb[-3000:])
        ck.finish()
