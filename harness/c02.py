"""C02 — canonical reduction preserves the generated algebra, loses no generator, ends in a star."""
import json
from harness.common import Check
from harness import gens as G


def impl(case):
    from harness import cls
    if "steps" in case:
        return {"stages": cls.classify_history(case["gens"], case["steps"], case.get("orders"))}
    out, _, _ = cls.classify(case["gens"], record=case.get("record", False), trace=not case.get("record", False))
    return out


def morph_txt(morphs):
    if not morphs:
        return "-"
    return "/".join(",".join(".".join(leg) if leg else "-" for leg in m["legs"]) + ":" + (",".join(m["deps"]) if m["deps"] else "-") for m in morphs)


def requests(cases, res):
    req = []
    for (kind, n, g), r in zip(cases, res):
        if "exc" in r:
            req.append("closure_card %d %s" % (n, " ".join(g)))
        elif n <= 8 and kind != "dense":
            req.append("reduction %d %s %s" % (n, ",".join(r["gens"]), morph_txt(r["morphs"])))
        else:
            req.append("shapeacct %s %s" % (",".join(r["gens"]), morph_txt(r["morphs"])))
    return req


def span_necessary(r):
    """for n too large to enumerate: Cl V = Cl G implies V in span G and G in span V (F2)"""
    gv = [G.vec(x) for x in r["gens"]]
    vv = [G.vec(x) for x in r["vertices"]]
    return all(G.in_span(v, gv) for v in vv) and all(G.in_span(g, vv) for g in gv)


def judge(ck, cases, res, ans):
    nt = set()
    for (kind, n, g), r, a in zip(cases, res, ans):
        if "exc" in r:
            ck.fail(None, "classification raised %s: %s on %s" % (r["exc"], r.get("msg"), g), {"n": n, "gens": g, "result": r}); continue
        if a.startswith("ERR"):
            ck.fail(None, "result of the reduction is not even well-formed (%s) on %s" % (a, g), {"n": n, "gens": g, "result": r}); continue
        flags = dict(kv.split("=") for kv in a.split())
        bad = [k for k, v in flags.items() if v != "1"]
        if (n > 8 or kind == "dense") and not span_necessary(r):
            bad.append("span (vertices and generators do not span the same F2-space)")
        # the collection-level accessors are the same reduction read another way
        legv = sorted(v for m in r["morphs"] for leg in m["legs"] for v in leg)
        depv = sorted(d for m in r["morphs"] for d in m["deps"])
        if sorted(r["vertices"]) != legv:
            bad.append("get_canonic_vertices() is not the set of vertices of the canonical graphs")
        if sorted(r["dependents"]) != depv:
            bad.append("get_dependents() is not the dependents of the canonical graphs")
        if r["independents"] != [x for x in r["gens"] if x not in set(depv)]:
            bad.append("get_independents() is not the held strings minus the dependents")
        if len(r["vertices"]) > 1 and len(set(g)) > len(r["vertices"]) or any(len(m["legs"]) > 2 for m in r["morphs"]):
            nt.add((n, tuple(sorted(set(g)))))
        if bad:
            names = {"shape": "some canonical graph is not a star of paths with at most one long leg", "acct": "distinct inputs != vertices + dependents",
                     "deps": "a reported dependent is not in the closure of the canonical vertices", "closure": "canonical vertices generate a different closure",
                     "comps": "not one canonical graph per connected component"}
            # the listed defect (a single leg that is the product of other single legs goes unnoticed, see C01) also misleads
            # the later dependency tests of the same graph: only failures of closure / dependents / span can be its consequence
            key = None
            # (the clause "one canonical graph per component" contains the closure equality per component: when the closure clause fails it fails with it)
            if all(b in ("deps", "closure") or b.startswith("span") or (b == "comps" and "closure" in bad) for b in bad):
                from harness.c01 import signature
                key = signature(r["morphs"], r.get("attach_sites"))
            # second face of the same defect (listed separately): on a graph that already holds such a dependent single leg a later generator lights
            # single legs only, _lit_center indexes an empty list and build() swallows the IndexError — the generator is dropped (accounting fails)
            if key is None and "acct" in bad and all(b in ("acct", "deps", "closure", "comps") or b.startswith("span") for b in bad) \
               and r.get("swallowed") and all(x == "IndexError@_lit_center" for x in r["swallowed"]):
                from harness.c01 import signature
                if signature(r["morphs"], r.get("attach_sites")):
                    key = "generator-dropped-on-graph-with-dependent-single-leg"
            ck.fail(key, "n=%d generators %s: %s" % (n, g, "; ".join(names.get(b, b) for b in bad)),
                    {"n": n, "gens": g, "morphs": r["morphs"], "verdict": a, "failed": bad, "kind": kind})
    return nt


def main():
    ck = Check("C02")
    if ck.replay:
        rp = json.load(open(ck.replay)); ck.build()
        cases = [("replay", rp["n"], rp["gens"])]
        if str(rp.get("kind", "")).startswith("history:"):   # the same object classified, edited in place, classified again
            h = json.loads(rp["kind"][len("history:"):])
            print("history:", h)
            res = [ck.impl("c02", [h])[0]["stages"][-1]]
        else:
            res = ck.impl("c02", [{"gens": rp["gens"]}])
        print("implementation:", res[0]); print("validator:", ck.oracle(requests(cases, res)))
        return
    if not ck.build():
        ck.finish()
    ck.check_props()
    cases = G.exhaustive_small()
    if ck.quick:
        cases += G.collections(ck.rng, 1500, 3, 5) + G.collections(ck.rng, 300, 6, 6) + G.collections(ck.rng, 300, 9, 16) + G.dense_collections(ck.rng, 6000, 4, 6) + G.sparse_collections(ck.rng, 4000, 4, 5) + G.sparse_collections(ck.rng, 300, 6, 6, 13, 18)
    else:
        cases += G.collections(ck.rng, 12000, 3, 5) + G.collections(ck.rng, 3000, 6, 7) + G.collections(ck.rng, 150, 8, 8) + G.collections(ck.rng, 3000, 9, 16) + G.dense_collections(ck.rng, 30000, 4, 6) + G.sparse_collections(ck.rng, 25000, 4, 6)
    # the two 6-qubit witnesses of the listed findings (a dependent single leg: wrong closure; and, on such a graph, a generator dropped after a
    # swallowed IndexError), on every run
    cases += [("sparse", 6, ['IIIZYI', 'IXZIII', 'IYYZII', 'ZZIIII', 'IIIZII', 'IIIYIX', 'XIXYII', 'IIIIIX', 'XYYIII', 'IYIIIX', 'IZXIII', 'XIIYII', 'IIIIYZ', 'IIIXIZ', 'IIYZII', 'YIIIIY', 'ZIXIII']),
              ("sparse", 6, ['IIYIII', 'IIIIIZ', 'IIYIIY', 'IIXIIZ', 'YIIIII', 'IZIIZI', 'IYIIYI', 'IZIIIX', 'IXIXII', 'IXZXII', 'IIIIYY', 'IZIIZI', 'IIZIII', 'IIYIYX', 'XYIIIX', 'IIIXZI', 'IIIIIY', 'IIIXIX'])]
    res = ck.impl("c02", [{"gens": g} for _, _, g in cases], per_case_s=120)
    ans = ck.oracle(requests(cases, res))
    nt = judge(ck, cases, res, ans)
    # in-place histories: the same collection object is classified, edited through the public interface and classified again;
    # every stage must be a valid reduction of the strings the object holds at that stage
    from harness import cls
    hist = []
    for kind, n, g in G.collections(ck.rng, 250 if ck.quick else 2500, 3, 6):
        steps, cur = cls.gen_steps(ck.rng, n, g, 1, 3, expand=0.25)
        hist.append({"gens": g, "steps": steps, "n": n, "expect": cur, "orders": cls.gen_orders(ck.rng, len(steps) + 1)})
    hres = ck.impl("c02", hist, per_case_s=300)
    hc, hr = [], []
    for c, r in zip(hist, hres):
        if "exc" in r:
            continue   # an edit the library rejects is C10's business
        for si, stage in enumerate(r["stages"]):
            if stage["gens"]:
                hc.append(("history:" + json.dumps({"gens": c["gens"], "steps": c["steps"][:si], "orders": c["orders"][:si + 1]}), len(stage["gens"][0]), stage["gens"])); hr.append(stage)
    nt |= judge(ck, hc, hr, ck.oracle(requests(hc, hr)))
    ck.cov["history_stages"] = len(hc)
    byn = {}
    for _, n, _g in cases:
        byn[n] = byn.get(n, 0) + 1
    ck.cov["evaluations"] = len(cases)
    ck.cov["distinct_nontrivial"] = len(nt)
    ck.cov["rule"] = ("collections as in C01 plus 9..16 qubits; non-trivial = the reduction found a dependent or a graph with >=2 legs; "
                      "verdict by the Coq validator reduction_check (shape, accounting, dependents in closure, closure equality, one graph per component) "
                      "for n<=8; for n>8 and for the dense stream (6..16 random strings on 4..6 qubits, long work queues) shape/accounting/components by the validator and the F2-span necessary condition")
    ck.cov["samples"] = [list(c) for c in cases[::max(1, len(cases) // 6)]][:6]
    ck.cov["distribution"] = {"by_n": byn}
    ck.cov["traces_validated_against_impl"] = len(cases)
    ck.finish(assumptions=["closure equality enumerated for n<=8 only; for larger n only necessary conditions"])


if __name__ == "__main__":
    from harness.common import run_check
    run_check("C02", main)
