"""Input generators for collections of Pauli strings (one PRNG, every case reproducible)."""
import itertools

LET = "IXYZ"
# generator families used to build structured inputs (a copy for input generation only;
# C19 reads the library's own table at run time)
FAMILIES = {
    "a0": ["XX"], "a1": ["XY"], "a2": ["XY", "YX"], "a3": ["XX", "YZ"], "a4": ["XX", "YY"],
    "a5": ["XY", "YZ"], "a6": ["XX", "YZ", "ZY"], "a7": ["XX", "YY", "ZZ"], "a8": ["XX", "XZ"],
    "a9": ["XY", "XZ"], "a10": ["XY", "YZ", "ZX"], "a11": ["XY", "YX", "YZ"], "a12": ["XX", "XY", "YZ"],
    "a13": ["XX", "YY", "YZ"], "a14": ["XX", "YY", "XY"], "a15": ["XX", "XY", "XZ"],
    "a16": ["XY", "YX", "YZ", "ZY"], "a17": ["XX", "XY", "ZX"], "a18": ["XX", "XZ", "YY", "ZY"],
    "a19": ["XX", "XY", "ZX", "YZ"], "a20": ["XX", "YY", "ZZ", "ZY"], "a21": ["XX", "YY", "XY", "ZX"],
    "a22": ["XX", "XY", "XZ", "YX"], "b0": ["XI", "IX"], "b1": ["XX", "XI", "IX"], "b2": ["XY", "XI", "IX"],
    "b3": ["XI", "YI", "IX", "IY"], "b4": ["XX", "XY", "XZ", "XI", "IX", "IY", "IZ"],
}


def enc(s):
    x = z = 0
    for ch in s:
        x = (x << 1) | (ch in "XY")
        z = (z << 1) | (ch in "YZ")
    return x, z


def dec(a, n):
    x, z = a
    return "".join("IZXY"[((x >> (n - 1 - i)) & 1) * 2 + ((z >> (n - 1 - i)) & 1)] for i in range(n))


def anti(p, q):
    (a, b), (c, d) = enc(p), enc(q)
    return (bin(a & d).count("1") + bin(b & c).count("1")) & 1


def mul(p, q):
    (a, b), (c, d) = enc(p), enc(q)
    return dec((a ^ c, b ^ d), len(p))


def translates(gens, n):
    """distinct translates of each right-padded generator along an open chain of n qubits, in order"""
    out = []
    for g in gens:
        k = len(g)
        for i in range(n - k + 1):
            t = "I" * i + g + "I" * (n - k - i)
            if t not in out:
                out.append(t)
    return out


def uniform(rng, n):
    return "".join(rng.choice(LET) for _ in range(n))


def exhaustive_small():
    out = []
    S2 = ["".join(t) for t in itertools.product(LET, repeat=2)]
    for k in (1, 2, 3):
        for c in itertools.combinations_with_replacement(S2, k):
            out.append(("exh2", 2, list(c)))
    S3 = ["".join(t) for t in itertools.product(LET, repeat=3)]
    for k in (1, 2):
        for c in itertools.combinations(S3, k):
            out.append(("exh3", 3, list(c)))
    return out


def commuting_with_all(rng, n, others, tries=200):
    for _ in range(tries):
        s = uniform(rng, n)
        if all(not anti(s, o) for o in others):
            return s
    return "I" * n


def star_family(rng, n):
    """a centre, k mutually commuting strings each anticommuting with the centre, plus products of
    odd subsets of them (such a product again anticommutes with the centre and lies in the closure)"""
    for _ in range(50):
        c = uniform(rng, n)
        if c == "I" * n:
            continue
        legs = []
        for _ in range(200):
            s = uniform(rng, n)
            if anti(s, c) and all(not anti(s, l) for l in legs) and s not in legs:
                legs.append(s)
            if len(legs) >= rng.randint(2, 6):
                break
        if len(legs) < 2:
            continue
        gens = [c] + legs
        if len(legs) >= 3 and rng.random() < 0.7:
            for _ in range(rng.randint(1, 2)):
                k = rng.choice([x for x in (3, 5) if x <= len(legs)])
                sub = rng.sample(legs, k)
                p = sub[0]
                for s in sub[1:]:
                    p = mul(p, s)
                gens.append(p)
        rng.shuffle(gens)
        return gens
    return [uniform(rng, n) for _ in range(3)]


def path_family(rng, n):
    m = rng.randint(2, min(2 * n, 7))
    out = []
    for _ in range(400):
        if len(out) == m:
            break
        s = uniform(rng, n)
        if s in out:
            continue
        if not out:
            out.append(s); continue
        if anti(s, out[-1]) and all(not anti(s, o) for o in out[:-1]):
            out.append(s)
    return out


def structured(rng, n):
    """-> (kind, generators)"""
    r = rng.random()
    if r < 0.25:
        name = rng.choice(sorted(FAMILIES))
        g = translates(FAMILIES[name], n)
        if rng.random() < 0.3:
            g = g + [rng.choice(g)]
        return "twolocal:" + name, g
    if r < 0.45:
        return "star", star_family(rng, n)
    if r < 0.55:
        return "path", path_family(rng, n)
    if r < 0.63:
        g = []
        for _ in range(rng.randint(2, 5)):
            g.append(commuting_with_all(rng, n, g))
        return "commuting", g
    if r < 0.78:
        g = [uniform(rng, n) for _ in range(rng.randint(1, 2 * n))]
        g += [rng.choice(g) for _ in range(rng.randint(0, 2))]
        if rng.random() < 0.5:
            g.insert(rng.randrange(len(g) + 1), "I" * n)
        return "dup+identity", g
    if r < 0.9:
        # two blocks on disjoint supports: a disconnected anticommutation graph
        k = rng.randint(1, n - 1) if n > 1 else 1
        g = [uniform(rng, k) + "I" * (n - k) for _ in range(rng.randint(1, 3))]
        g += ["I" * k + uniform(rng, n - k) for _ in range(rng.randint(1, 3))] if n > k else []
        return "disconnected", g
    # dependent generators: a base plus products of anticommuting members
    g = [uniform(rng, n) for _ in range(rng.randint(2, n + 1))]
    for _ in range(rng.randint(1, 3)):
        a, b = rng.choice(g), rng.choice(g)
        if anti(a, b):
            g.append(mul(a, b))
    return "dependent", g


def collections(rng, count, nmin, nmax, mix=(0.6, 0.4)):
    """count cases (kind, n, gens): structured with probability mix[0], uniform otherwise"""
    out = []
    for _ in range(count):
        n = rng.randint(nmin, nmax)
        if rng.random() < mix[0]:
            kind, g = structured(rng, n)
        else:
            kind, g = "uniform", [uniform(rng, n) for _ in range(rng.randint(1, min(2 * n + 1, 10)))]
        if g:
            out.append((kind, n, g))
    return out


# ---- F2 linear algebra on encoded strings (harness side; used for known-finding signatures) ----
def vec(p):
    x, z = enc(p)
    return (x << len(p)) | z


def in_span(v, basis_vecs):
    """is v in the F2-span of basis_vecs (ints)"""
    red = []
    for b in basis_vecs:
        for r in red:
            b = min(b, b ^ r)
        if b:
            red.append(b)
    for r in red:
        v = min(v, v ^ r)
    return v == 0


def long_chain_cases(rng, count, n=7):
    """two-local families translated along n qubits (optionally with one extra random string): the inputs that drive the
    reduction pipeline through its deepest states (long legs of five and more vertices)"""
    names = sorted(FAMILIES)
    rng.shuffle(names)
    out = []
    for name in names[:count]:
        g = translates(FAMILIES[name], n)
        if rng.random() < 0.3:
            g = g + [uniform(rng, n)]
        out.append(("two-local@%d:%s" % (n, name), n, g))
    return out


def dense_collections(rng, count, nmin, nmax, mmin=6, mmax=16):
    """many random strings on few qubits: most are dependent, the work queue of the reduction is long"""
    out = []
    for _ in range(count):
        n = rng.randint(nmin, nmax)
        out.append(("dense", n, [uniform(rng, n) for _ in range(rng.randint(mmin, mmax))]))
    return out


def sparse_collections(rng, count, nmin, nmax, mmin=9, mmax=18):
    """many low-weight strings (weight 1..3) on few qubits: several true dependents per component, long reductions in which later
    strings are tested against strings already reported dependent; small enough for the full closure validator"""
    out = []
    for _ in range(count):
        n = rng.randint(nmin, nmax)
        g = []
        for _ in range(rng.randint(mmin, mmax)):
            s_ = ["I"] * n
            for pos in rng.sample(range(n), rng.choice((1, 2, 2, 2, 3))):
                s_[pos] = rng.choice("XYZ")
            g.append("".join(s_))
        out.append(("sparse", n, g))
    return out
