"""C19 — the two-local reference table names the true algebra for every n >= 3."""
import json
from harness.common import Check, run_check
from harness import gens as G
from harness import lie


def impl(case):
    from paulie import G_LIE, two_local_algebras, get_pauli_string
    if case["op"] == "table":
        n = case["n"]
        t = two_local_algebras(n)
        return {"families": {k: list(v) for k, v in G_LIE.items()}, "table": {k: t.get(k) for k in G_LIE}, "extra": sorted(set(t) - set(G_LIE))}
    if case["op"] == "classify":
        c = get_pauli_string(case["gens"], n=case["n"])
        return {"algebra": c.get_algebra(), "strings": [str(s) for s in c.get()]}
    raise ValueError(case["op"])


def norm(alg):
    try:
        c, ms = lie.name_multiset(alg)
        return (c, tuple(sorted(ms.items())))
    except Exception as e:  # noqa
        return ("bad", str(alg))


def main():
    ck = Check("C19")
    if ck.replay:
        rp = json.load(open(ck.replay)); ck.build()
        t = ck.impl("c19", [{"op": "table", "n": rp["n"]}])[0]
        g = t["families"][rp["family"]]
        r = ck.impl("c19", [{"op": "classify", "gens": g, "n": rp["n"]}])[0]
        print("table:", t["table"][rp["family"]], "| classifier:", r["algebra"], "| closure invariants:", ck.oracle(["lieinv %d %s" % (rp["n"], " ".join(r["strings"]))]) if rp["n"] <= 8 else "n/a")
        return
    if not ck.build():
        ck.finish()
    ck.check_props()
    ck.check_translation("classification")
    ck.check_translation("table")
    cmax = 6 if ck.quick else 8
    nmax = 12 if ck.quick else 16
    ns = list(range(3, nmax + 1))
    tabs = ck.impl("c19", [{"op": "table", "n": n} for n in ns])
    fam = tabs[0]["families"]
    jobs = [(n, name) for n in ns for name in sorted(fam)]
    cls = ck.impl("c19", [{"op": "classify", "gens": fam[name], "n": n} for n, name in jobs], per_case_s=300)
    small = [i for i, (n, name) in enumerate(jobs) if n <= cmax]
    # the translates computed independently (the harness's own translate function) must be what the library expands to
    inv = dict(zip(small, ck.oracle(["lieinv %d %s" % (jobs[i][0], " ".join(G.translates(fam[jobs[i][1]], jobs[i][0]))) for i in small], procs=8)))
    # families proved to be su(2^n) for every n >= n0 (Props/C19.v: C19_su_families): the theorem is about the Coq lists, so they
    # must be the library's generator lists; from n0 on the theorem, not the enumeration, is the judge
    proved = {}
    for item in ck.oracle(["sufamilies"])[0].split(";"):
        name, n0, gl = item.split(" ")
        if sorted(fam.get(name, [])) != sorted(gl.split(",")):
            ck.correspondence_broken("G_LIE[%s] = %s, the proved family is %s" % (name, fam.get(name), gl.split(",")), {"family": name, "library": fam.get(name), "model": gl.split(",")})
        else:
            proved[name] = int(n0)
    stats = {"closure_judged": 0, "classifier_vs_table_only": 0, "judged_by_theorem": 0}
    nt = set()
    for i, ((n, name), r) in enumerate(zip(jobs, cls)):
        tab = tabs[n - 3]["table"].get(name)
        if tab is None:
            ck.fail(None, "reference table has no entry for %s at n=%d" % (name, n), {"family": name, "n": n}); continue
        if "exc" in r:
            ck.fail(None, "classifier raised %s on family %s n=%d" % (r["exc"], name, n), {"family": name, "n": n}); continue
        if sorted(r["strings"]) != sorted(G.translates(fam[name], n)):
            ck.fail(None, "k-local expansion of family %s at n=%d is not the set of translates" % (name, n), {"family": name, "n": n, "strings": r["strings"]}); continue
        key = "%s@%d" % (name, n)
        if i in inv:
            stats["closure_judged"] += 1
            nt.add(key)
            why_t = lie.compare_name_with_inv(tab, inv[i])
            if why_t:
                ck.fail("table:" + key, "table[%s][n=%d] = %s: %s" % (name, n, tab, why_t), {"family": name, "n": n, "table": tab, "closure_invariants": inv[i], "why": why_t})
            why_c = lie.compare_name_with_inv(r["algebra"], inv[i])
            if why_c:
                ck.fail("classifier:" + key, "classifier on %s n=%d says %s: %s" % (name, n, r["algebra"], why_c), {"family": name, "n": n, "classifier": r["algebra"], "closure_invariants": inv[i], "why": why_c})
        elif name in proved and n >= proved[name]:
            stats["judged_by_theorem"] += 1
            nt.add(key)
            truth = "su(%d)" % 2 ** n
            if norm(tab) != norm(truth):
                ck.fail("table:" + key, "table[%s][n=%d] = %s, proved: %s (C19_su_families)" % (name, n, tab, truth), {"family": name, "n": n, "table": tab, "proved": truth})
            if norm(r["algebra"]) != norm(truth):
                ck.fail("classifier:" + key, "classifier on %s n=%d says %s, proved: %s (C19_su_families)" % (name, n, r["algebra"], truth), {"family": name, "n": n, "classifier": r["algebra"], "proved": truth})
        else:
            stats["classifier_vs_table_only"] += 1
            if norm(tab) != norm(r["algebra"]):
                ck.fail("disagree:" + key, "n=%d family %s: table says %s, classifier says %s" % (n, name, tab, r["algebra"]), {"family": name, "n": n, "table": tab, "classifier": r["algebra"]})
    ck.cov["evaluations"] = len(jobs)
    ck.cov["distinct_nontrivial"] = len(nt)
    ck.cov["rule"] = ("all %d family names x n=3..%d; for n<=%d table entry and classifier answer are both compared with the invariants of the verified closure of the translates; "
                      "above that: the six families proved su(2^n) for every n (C19_su_families, generator lists compared with G_LIE) are judged by the theorem, the others classifier vs table (every residue of n mod 8 and n mod 6 occurs); non-trivial = (family, n) judged against the closure" % (len(fam), nmax, cmax))
    ck.cov["samples"] = [[n, name, tabs[n - 3]["table"].get(name), r.get("algebra")] for (n, name), r in list(zip(jobs, cls))[::60]][:6]
    ck.cov["distribution"] = stats
    ck.cov["exhaustive"] = True
    ck.cov["traces_validated_against_impl"] = len(jobs)
    ck.finish(assumptions=["'for every n>=3' beyond the enumerated range is the two-local classification (Wiersema et al.), not proved here",
                           "equal invariants imply isomorphism (as C01)"])


if __name__ == "__main__":
    run_check("C19", main)
