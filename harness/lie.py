"""Lie-type arithmetic shared by the classification checks (C01, C03, C07, C09, C11, C19, C20).

name side: "2*so(3)+u(1)" -> (centre, Counter{label: copies}); invariant side: the oracle's
lie_inv answer "centre;size,zs,deg;..." -> the same shape.  Labels are normalised under
so(3)=su(2)=sp(1) -> A1, so(4)=2*A1, so(5)=sp(2) -> B2, so(6)=su(4) -> A3; u(1)=so(2) -> centre.
"""
import collections
import re

DIM = {"su": lambda k: k * k - 1, "so": lambda k: k * (k - 1) // 2, "sp": lambda k: k * (2 * k + 1)}


class BadName(Exception):
    pass


def normal(f, k):
    if (f, k) in (("so", 3), ("su", 2), ("sp", 1)):
        return ("A", 1)
    if (f, k) in (("so", 5), ("sp", 2)):
        return ("B", 2)
    if (f, k) in (("so", 6), ("su", 4)):
        return ("A", 3)
    return (f, k)


def label_dim(lab):
    f, k = lab
    if f == "A":
        return {1: 3, 3: 15}[k]
    if f == "B":
        return 10
    return DIM[f](k)


def parse_terms(alg):
    """raw terms [(mult, family, size)] of a printed algebra name; raises BadName"""
    out = []
    alg = alg.replace(" ", "")
    if alg == "":
        return out
    for term in alg.split("+"):
        m = re.fullmatch(r"(?:(\d+)\*)?(u|su|so|sp)\((\d+)\)", term)
        if not m:
            raise BadName("unparsable summand %r in %r" % (term, alg))
        out.append((int(m.group(1) or 1), m.group(2), int(m.group(3))))
    return out


def name_multiset(alg):
    centre = 0
    ms = collections.Counter()
    for mult, f, k in parse_terms(alg):
        if mult < 1:
            raise BadName("multiplicity %d" % mult)
        if f == "u":
            if k != 1:
                raise BadName("u(%d)" % k)
            centre += mult
        elif f == "so" and k == 2:
            centre += mult
        elif f == "so" and k == 4:
            ms[("A", 1)] += 2 * mult
        elif (f == "so" and k < 2) or (f in ("su", "sp") and k < 1) or (f == "su" and k == 1):
            raise BadName("degenerate summand %s(%d)" % (f, k))
        else:
            ms[normal(f, k)] += mult
    return centre, ms


def name_dim(alg):
    d = 0
    for mult, f, k in parse_terms(alg):
        d += mult * (1 if f == "u" else DIM[f](k))
    return d


def simple_label(d, c, deg):
    """label of each of the c copies in a component of size d*c (None if the arithmetic cannot decide)"""
    cands = []
    m = 3
    while m * (m - 1) // 2 <= d:
        if m * (m - 1) // 2 == d:
            cands.append(("so", m))
        m += 1
    j = 0
    while (2 ** j) * (2 ** (j + 1) + 1) <= d:
        if (2 ** j) * (2 ** (j + 1) + 1) == d:
            cands.append(("sp", 2 ** j))
        j += 1
    j = 1
    while 4 ** j - 1 <= d:
        if 4 ** j - 1 == d:
            cands.append(("su", 2 ** j))
        j += 1
    norm = set(normal(f, k) for f, k in cands)
    if len(norm) == 1:
        return norm.pop()
    out = set()
    for f, k in cands:
        if f == "so" and deg == c * 2 * (k - 2):
            out.add(normal(f, k))
        if f == "sp" and deg == c * k * (k + 1):
            out.add(normal(f, k))
    if len(out) == 1:
        return out.pop()
    return None


def parse_lieinv(ans):
    """oracle answer -> (centre, [(size, zs, deg)])"""
    if ans == "None" or ans.startswith("ERR"):
        raise RuntimeError("oracle lie_inv failed: " + ans)
    parts = ans.split(";")
    return int(parts[0]), sorted(tuple(int(x) for x in p.split(",")) for p in parts[1:] if p)


def inv_multiset(ans):
    """-> (centre, Counter{label: copies}, total dimension, undecided components)"""
    centre, comps = parse_lieinv(ans)
    ms = collections.Counter()
    und = []
    dim = centre
    for size, c, deg in comps:
        dim += size
        if c == 0 or size % c:
            und.append((size, c, deg)); continue
        lab = simple_label(size // c, c, deg)
        if lab is None:
            und.append((size, c, deg))
        else:
            ms[lab] += c
    return centre, ms, dim, und


def fmt_ms(centre, ms):
    return "centre=%d; " % centre + ", ".join("%d x %s%d" % (v, k[0], k[1]) for k, v in sorted(ms.items()))


def compare_name_with_inv(alg, inv_ans):
    """None if the printed name has the invariants of the closure, else a description"""
    try:
        c1, m1 = name_multiset(alg)
        d1 = name_dim(alg)
    except BadName as e:
        return "reported name is not a Lie algebra name: %s" % e
    c2, m2, d2, und = inv_multiset(inv_ans)
    if d1 != d2:
        return "dimension of the reported algebra %s is %d, the commutator closure has %d elements" % (alg, d1, d2)
    if c1 != c2:
        return "reported centre %d, true centre %d (%s vs %s)" % (c1, c2, alg, inv_ans)
    if not und and m1 != m2:
        return "reported %s = [%s], closure invariants give [%s]" % (alg, fmt_ms(c1, m1), fmt_ms(c2, m2))
    return None
