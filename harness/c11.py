"""C11 — recording the reduction does not change its result."""
import json
from harness.common import Check, run_check
from harness import gens as G
from harness import lie
from harness.c02 import morph_txt


def impl(case):
    from harness import cls
    from paulie.classifier import recording_morph_factory as rmf
    import signal, time, traceback
    t0 = time.time()
    plain, _, _ = cls.classify(case["gens"])
    t_plain = time.time() - t0
    # note where each recording builder stops writing frames (one builder per connected component)
    marks = []
    orig = rmf.RecordingMorphFactory.build
    def build(self, *a, **k):
        r = orig(self, *a, **k)
        try:
            rec = self.record
            marks.append([rec.get_size() - 1, sorted(str(v) for v in r.get_morph().get_vertices())])
        except Exception as e:  # noqa
            marks.append([-2, [type(e).__name__]])
        return r
    rmf.RecordingMorphFactory.build = build
    try:
        # the recorded run gets a budget of its own (at least 20 s, 50 times the plain run): if it is still running then,
        # report where it is instead of losing the case to the worker's time-out
        signal.setitimer(signal.ITIMER_REAL, max(20.0, 50 * t_plain))
        recd, c, rec = cls.classify(case["gens"], record=True)
        signal.setitimer(signal.ITIMER_REAL, 60.0)
    except BaseException as e:  # noqa
        if type(e).__name__ != "CaseTimeout":
            raise
        signal.setitimer(signal.ITIMER_REAL, 60.0)
        fr = [f for f in traceback.extract_tb(e.__traceback__) if f.filename.endswith("recording_morph_factory.py")]
        names = [f.name for f in fr]
        # the step of the pipeline that is running (the frame called by _pipeline), not the helper the signal happened to land in
        site = names[names.index("_pipeline") + 1] if "_pipeline" in names[:-1] else (names[-1] if names else "?")
        return {"plain": plain, "recorded_hang": site, "budget_s": max(20.0, 50 * t_plain), "plain_s": t_plain}
    finally:
        rmf.RecordingMorphFactory.build = orig
    frames = rec.get_size()
    def frame_vertices(i):
        g = rec.get_graph(i) if i >= 0 else None
        return None if g is None else sorted(g[0])
    last = frame_vertices(frames - 1)
    per_builder = [[idx, verts, frame_vertices(idx)] for idx, verts in marks]
    return {"plain": plain, "recorded": recd, "frames": frames, "last_frame": last, "per_builder": per_builder}


def norm(alg):
    try:
        c, ms = lie.name_multiset(alg)
        return (c, tuple(sorted(ms.items())))
    except Exception:  # noqa
        return ("bad", alg)


def main():
    ck = Check("C11")
    if ck.replay:
        rp = json.load(open(ck.replay)); ck.build()
        r = ck.impl("c11", [{"gens": rp["gens"]}])[0]
        print(json.dumps(r, indent=1)[:4000])
        return
    if not ck.build():
        ck.finish()
    ck.check_props()
    cases = G.exhaustive_small()[::5] + G.collections(ck.rng, 1200 if ck.quick else 10000, 2, 5) + G.collections(ck.rng, 150 if ck.quick else 2000, 6, 6 if ck.quick else 7)
    # inputs that drive the pipeline (and its recording twin) through long legs: two-local chains, dense collections
    cases += G.long_chain_cases(ck.rng, 28, 5) + G.long_chain_cases(ck.rng, 28, 6) + (G.long_chain_cases(ck.rng, 28, 7) if not ck.quick else G.long_chain_cases(ck.rng, 8, 7))
    cases += G.dense_collections(ck.rng, 600 if ck.quick else 6000, 4, 5)
    cases.append(("corpus", 3, ["XYI", "XXZ", "IZI", "YXI", "ZII"]))
    if not ck.quick:   # the recorded witness of the non-terminating recorded run (costs its whole budget: thorough tier only)
        cases.append(("corpus", 7, ["XXIIIII", "IXXIIII", "IIXXIII", "IIIXXII", "IIIIXXI", "IIIIIXX", "XZIIIII", "IXZIIII", "IIXZIII", "IIIXZII", "IIIIXZI", "IIIIIXZ", "IZZZZXI"]))
    cases.append(("corpus", 3, ["YZZ", "ZZI", "XYZ", "IXI", "YIZ", "IYY"]))
    res = ck.impl("c11", [{"gens": g} for _, _, g in cases], per_case_s=120)
    # validity of both reductions by the verified validator
    req = []
    for (kind, n, g), r in zip(cases, res):
        for side in ("plain", "recorded"):
            if "exc" in r or "recorded_hang" in r:
                req.append("closure_card 1 X")
            else:
                req.append("reduction %d %s %s" % (n, ",".join(r[side]["gens"]), morph_txt(r[side]["morphs"])))
    val = ck.oracle(req)
    stats = {"multi_component": 0, "diverged": 0, "frames_total": 0}
    nt = set()
    suspects = []
    for i, ((kind, n, g), r) in enumerate(zip(cases, res)):
        if "exc" in r:
            ck.fail(None, "classification with/without recorder raised %s on %s" % (r["exc"], g), {"n": n, "gens": g, "result": r}); continue
        if "recorded_hang" in r:
            ck.fail("recorded-run-does-not-terminate:" + r["recorded_hang"],
                    "classification with a recorder attached is still running after %.0f s (plain run: %.2f s) in %s on %s" % (r["budget_s"], r["plain_s"], r["recorded_hang"], g),
                    {"n": n, "gens": g, "where": r["recorded_hang"]})
            continue
        p, q = r["plain"], r["recorded"]
        vp, vq = val[2 * i], val[2 * i + 1]
        stats["frames_total"] += r["frames"]
        ncomp = len(q["morphs"])
        if ncomp > 1:
            stats["multi_component"] += 1
        if r["frames"] > 2:
            nt.add((n, tuple(sorted(set(g)))))
        diffs = []
        if norm(p["algebra"]) != norm(q["algebra"]):
            diffs.append("algebra %s (plain) vs %s (recorded)" % (p["algebra"], q["algebra"]))
        if sorted(set(p["dependents"])) != sorted(set(q["dependents"])):
            diffs.append("dependents %s (plain) vs %s (recorded)" % (sorted(set(p["dependents"])), sorted(set(q["dependents"]))))
        if "closure=0" in vq or "deps=0" in vq:
            diffs.append("recorded canonical vertices do not generate the closure of the input (%s)" % vq)
        if "shape=0" in vq or "comps=0" in vq:
            diffs.append("recorded reduction is not a valid canonical form (%s)" % vq)
        if diffs:
            stats["diverged"] += 1
            suspects.append((i, n, g, r, diffs))
        # frames: per builder (= per component) the last graph frame shows that component's canonical vertices
        for idx, verts, fv in r["per_builder"]:
            if fv != verts:
                ck.fail(None, "last frame written by a builder shows %s, its canonical vertices are %s (input %s)" % (fv, verts, g), {"n": n, "gens": g, "per_builder": r["per_builder"]})
                break
        # literal reading: the last recorded frame shows exactly the final canonical vertices
        allv = sorted(q["vertices"])
        if r["last_frame"] != allv:
            last_built = r["per_builder"][-1][1] if r["per_builder"] else None
            key = "last-frame-shows-last-component-only" if (ncomp > 1 and r["last_frame"] == last_built) else None
            ck.fail(key, "last recorded frame shows %s, the final canonical vertices are %s (input %s)" % (r["last_frame"], allv, g), {"n": n, "gens": g, "last_frame": r["last_frame"], "vertices": allv})
    # signature of the known divergence: the recording builder attached a vertex that lies in the closure of the others
    if suspects:
        mreq = []
        for i, n, g, r, diffs in suspects:
            vs = r["recorded"]["vertices"]
            for v in vs:
                others = [w for w in vs if w != v]
                mreq.append("member %d %s %s" % (n, ",".join(others) if others else "-", v))
        mans = iter(ck.oracle(mreq))
        for i, n, g, r, diffs in suspects:
            vs = r["recorded"]["vertices"]
            dependent_vertex = [v for v in vs if next(mans).startswith("in=1")]
            fewer = len(set(r["recorded"]["dependents"])) < len(set(r["plain"]["dependents"]))
            plain_valid = all(f in val[2 * i] for f in ("shape=1", "acct=1", "deps=1", "closure=1", "comps=1"))
            vq = val[2 * i + 1]
            if dependent_vertex and plain_valid:
                # root cause: the recording twin has no check_dependency_one_leg; whether the run then reports fewer dependents
                # (first witnesses) or as many but different ones (found later, dense stream) is a symptom, not part of the signature
                key = "recorded-attaches-dependent-vertex"
            elif (plain_valid and all(f in vq for f in ("shape=1", "acct=1", "deps=1", "closure=1", "comps=1")) and len(diffs) == 1 and diffs[0].startswith("dependents ")
                  and len(r["recorded"]["dependents"]) == len(r["plain"]["dependents"])):
                # both runs are valid reductions (same closure, same algebra); the twin reports a dependent input in another reduced form
                key = "recorded-reports-dependent-in-another-reduced-form"
            elif plain_valid and "deps=0" in vq and "closure=0" in vq and "shape=1" in vq and "acct=1" in vq:
                # the recorded run reported as dependent (and dropped) a generator that is independent of what it kept
                key = "recorded-drops-independent-generator"
            else:
                key = None
            ck.fail(key, "recorder changes the result on %s: %s" % (g, "; ".join(diffs)), {"n": n, "gens": g, "differences": diffs, "plain": r["plain"], "recorded": r["recorded"], "dependent_vertices_attached": dependent_vertex})
    ck.cov["evaluations"] = len(cases)
    ck.cov["distinct_nontrivial"] = len(nt)
    ck.cov["rule"] = ("collections n<=%d: classification without and with RecordGraph in the same worker; compared: summand multisets, dependents as sets, validity of both reductions by the Coq validator, "
                      "last graph frame of each builder vs that component's canonical vertices, last frame overall vs all canonical vertices; non-trivial = more than 2 frames recorded" % (6 if ck.quick else 7))
    ck.cov["samples"] = [list(c) for c in cases[:: max(1, len(cases) // 5)]][:5]
    ck.cov["distribution"] = stats
    ck.cov["traces_validated_against_impl"] = len(cases)
    ck.finish(assumptions=["mostly differential exploration of two implementations judged by the proved validator: the proof technique contributes the judge, not the comparison"])


if __name__ == "__main__":
    run_check("C11", main)
