"""C20 — optimising a universal generator set keeps the algebra and the set size."""
import json
from harness.common import Check, run_check
from harness import gens as G

SU_FAMILIES = ["a12", "a17", "a18", "a19", "a21", "a22"]


def impl(case):
    import random
    from paulie import get_pauli_string, get_optimal_su_2_n_generators
    if case.get("op") == "screen":
        return {"dependents": [str(s) for s in get_pauli_string(case["gens"]).get_dependents()]}
    # the classification of the input with the call sites of its attachments (harness-side observation): a failure that comes from the
    # listed classifier defect (a dependent single leg that the reduction does not recognise) is told apart from a defect of the optimiser
    from harness import cls
    tr, _, _ = cls.classify(case["gens"], trace=True)
    random.seed(case["seed"])
    # the generating set as the caller wrote it: some members without their trailing identities (the collection pads them)
    c = get_pauli_string(case.get("present") or case["gens"])
    ind = [str(s) for s in c.copy().get_independents()]
    deps = [str(s) for s in c.copy().get_dependents()]
    out = get_optimal_su_2_n_generators(c)
    return {"out": None if out is None else [str(s) for s in out], "independents": ind, "dependents": deps, "morphs": tr["morphs"], "attach_sites": tr.get("attach_sites"), "algebra": tr["algebra"],
            "pairs": None if out is None else out.get_anticommutation_pair()}


def main():
    ck = Check("C20")
    if ck.replay:
        rp = json.load(open(ck.replay)); ck.build()
        print(ck.impl("c20", [{"gens": rp["gens"], "seed": rp["seed"], "present": rp.get("present")}], per_case_s=120)[0])
        return
    if not ck.build():
        ck.finish()
    ck.check_props()
    ck.check_translation("optimiser")
    nmax = 6
    seeds = 6 if ck.quick else 30
    bases = []
    for n in range(3, nmax + 1):
        for f in SU_FAMILIES:
            bases.append(("twolocal:" + f, n, G.translates(G.FAMILIES[f], n)))
        for k in range(2, n, 2):
            U = ck.oracle(["universal %d %d" % (n, k)])[0].split()
            bases.append(("universal k=%d" % k, n, U))
            extra = U + [G.uniform(ck.rng, n) for _ in range(ck.rng.randint(1, 3))]
            bases.append(("universal+random", n, [s for s in extra if set(s) != {"I"}]))
    # dense random generating sets: here the classifier re-queues cut-off vertices in transformed form, so that reported dependents
    # need not be members of the input — the case in which the optimiser's starting set (get_independents) is easiest to get wrong
    for n, lo, hi, cnt in ((4, 10, 14, 60 if ck.quick else 400), (5, 14, 18, 20 if ck.quick else 150)):
        for _ in range(cnt):
            g = list(dict.fromkeys(G.uniform(ck.rng, n) for _ in range(ck.rng.randint(lo, hi))))
            bases.append(("dense-random", n, [s for s in g if set(s) != {"I"}]))
    # ... and screened ones: among many dense collections (classification only, cheap) those whose reported dependents are not all members
    scr = []
    for _ in range(3000 if ck.quick else 20000):
        n = ck.rng.choice((4, 4, 5))
        g = list(dict.fromkeys(G.uniform(ck.rng, n) for _ in range(ck.rng.randint(10, 14) if n == 4 else ck.rng.randint(14, 18))))
        scr.append({"op": "screen", "gens": [s for s in g if set(s) != {"I"}], "n": n})
    sres = ck.impl("c20", scr, per_case_s=30, procs=15)
    picked = [c for c, r in zip(scr, sres) if "exc" not in r and any(d not in c["gens"] for d in r["dependents"])]
    for c in picked[:25 if ck.quick else 200]:
        bases.append(("dense-random", c["n"], c["gens"]))
    # sparse low-weight sets (one- and two-local strings anywhere on the chain, 2n+1 .. 2n+5 of them): here vertices are cut off the long
    # leg, delayed and restored, and a restored string can be reported dependent although the strings kept do not generate it —
    # the pinned snapshot's optimiser started from get_independents() and lost part of the algebra on such an input (fix: in /repo)
    def low_weight(n):
        w = ck.rng.choice((1, 2, 2))
        pos = ck.rng.sample(range(n), w)
        return "".join(ck.rng.choice("XYZ") if i in pos else "I" for i in range(n))
    for n, cnt in ((3, 40), (4, 60), (5, 60), (6, 80 if ck.quick else 600)):
        for _ in range(cnt if ck.quick else cnt * 5):
            g = list(dict.fromkeys(low_weight(n) for _ in range(ck.rng.randint(2 * n + 1, 2 * n + 5))))
            bases.append(("sparse-low-weight", n, g))
    # the witness of that defect, on every run
    bases.append(("sparse-low-weight", 6, ["IIIIZX", "IIIYYI", "ZIIXII", "IIIIIY", "IIZIII", "IIIIIZ", "IYIIXI", "IIIXII", "ZIIIII", "IIIZII", "XIIIII", "IIIIIX",
                                          "YIXIII", "IZYIII", "IIIIYY", "IIYIXI", "IYIIII"]))
    # ... and an input on which the classifier itself is wrong (listed finding: a dependent single leg it does not recognise), met on every run
    bases.append(("sparse-low-weight", 6, ["IIYIIY", "ZIIIIX", "YZIIII", "IXIXII", "IIIXII", "IIZIZI", "IIIYII", "IIIZIY", "IXIIIZ", "IXIIIY", "XIIIII", "IIIXXI",
                                          "XIIIYI", "IIIIXZ", "IIIIIY", "IIIIIX"]))
    # keep only inputs whose closure really is all of su(2^n)
    cards = ck.oracle(["closure_card %d %s" % (n, " ".join(g)) for _, n, g in bases])
    bases = [b for b, c in zip(bases, cards) if int(c) == 4 ** b[1] - 1]
    cases = [{"gens": g, "seed": ck.rng.randrange(10 ** 6), "n": n, "kind": kind} for kind, n, g in bases for _ in range(1 if kind == "dense-random" else (2 if kind == "sparse-low-weight" else seeds))]
    # every fourth case presents its generating set with mixed lengths: trailing identities dropped from some members, in the order given
    for i, c in enumerate(cases):
        if i % 4 == 3:
            pres = [(g.rstrip("I") or "I") if ck.rng.random() < 0.6 else g for g in c["gens"]]
            if all(len(x) < c["n"] for x in pres):
                j = ck.rng.randrange(len(pres)); pres[j] = c["gens"][j]
            c["present"] = pres
    res = ck.impl("c20", cases, per_case_s=90 if ck.quick else 300, procs=15)
    oc = ck.oracle(["closure_card %d %s" % (c["n"], " ".join(r["out"])) if r.get("out") else "closure_card 1 X" for c, r in zip(cases, res)])
    ic = ck.oracle(["closure_card %d %s" % (c["n"], " ".join(r["independents"])) if r.get("independents") else "closure_card 1 X" for c, r in zip(cases, res)])
    nt = set()
    stats = {"by_n": {}, "changed": 0}
    stats["dependent_not_a_member"] = 0
    for c, r, card, icard in zip(cases, res, oc, ic):
        n = c["n"]
        stats["by_n"][n] = stats["by_n"].get(n, 0) + 1
        if "exc" in r:
            what = "does not terminate within the watchdog" if r["exc"] == "Timeout" else "raises %s %s" % (r["exc"], r.get("msg", ""))
            ck.fail(None, "get_optimal_su_2_n_generators(%s) seed=%d %s" % (c.get("present") or c["gens"], c["seed"], what), dict(c, result=r)); continue
        out = r["out"]
        bad = []
        # the optimiser starts from get_independents(): members of the collection, in order, minus the reported dependents,
        # and still generating everything
        members = list(c["gens"])      # the constructor keeps repeated strings
        if any(d not in members for d in r["dependents"]):
            stats["dependent_not_a_member"] += 1
        if r["independents"] != [x for x in members if x not in set(r["dependents"])]:
            stats["independents_are_not_members_minus_dependents"] = stats.get("independents_are_not_members_minus_dependents", 0) + 1
        # since the fix: in /repo the optimiser starts from the canonical vertices, not from get_independents(); that get_independents()
        # need not generate the algebra is no longer part of what C20 states about the optimiser: counted, not judged
        if int(icard) != 4 ** n - 1:
            stats["independents_do_not_generate_the_algebra"] = stats.get("independents_do_not_generate_the_algebra", 0) + 1
        if out is None:
            bad.append("returned None")
        else:
            if sorted(out) != sorted(set(c["gens"])):
                stats["changed"] += 1
                nt.add((tuple(c["gens"]), c["seed"]))
            if int(card) != 4 ** n - 1:
                bad.append("output generates %s strings, the input generates %d" % (card, 4 ** n - 1))
            if not (2 * n + 1 <= len(out) <= len(c["gens"])):
                bad.append("output has %d strings (allowed %d..%d)" % (len(out), 2 * n + 1, len(c["gens"])))
            if len(set(out)) != len(out):
                bad.append("output strings are not distinct")
            if any(len(s) != n for s in out):
                bad.append("output string of wrong length")
        if bad:
            from harness.c01 import signature
            key = signature(r.get("morphs") or [], r.get("attach_sites")) if r.get("algebra") != "su(%d)" % 2 ** n else None
            ck.fail(key, "get_optimal_su_2_n_generators(%s) seed=%d: %s%s" % (c["gens"], c["seed"], "; ".join(bad),
                    " [the classifier names the input %s]" % r.get("algebra") if key else ""), dict(c, result=r, problems=bad))
    ck.cov["evaluations"] = len(cases)
    ck.cov["distinct_nontrivial"] = len(nt)
    ck.cov["rule"] = ("inputs generating su(2^n): two-local families %s and even-k universal sets (plus random supersets) at n=3..%d, verified full by the oracle, each under %d random.seed values; "
                      "watchdog for termination; output judged by the verified closure (same closure, 2n+1 <= size <= input size, distinct); non-trivial = the optimiser changed the set" % (SU_FAMILIES, nmax, seeds))
    ck.cov["samples"] = [[c["kind"], c["n"], c["seed"], r.get("out")] for c, r in list(zip(cases, res))[:: max(1, len(cases) // 5)]][:5]
    ck.cov["distribution"] = stats
    ck.cov["traces_validated_against_impl"] = len(cases)
    ck.finish(assumptions=["termination of the retry loop and distinctness of the output are observed, not proved"])


if __name__ == "__main__":
    run_check("C20", main)
