"""C18 — in-place edits and views of a Pauli string stay mutually consistent."""
import json
from harness.common import Check
from harness import gens as G


def _obs(P, other, dense):
    """every observation of the property, as plain data"""
    from paulie import PauliString
    n = len(P)
    o = {"str": str(P), "repr": repr(P), "len": n,
         "even": P.bits_even.to01(), "odd": P.bits_odd.to01(),
         "letters_idx": [str(P[i]) for i in range(n)],
         "letters_iter": [str(x) for x in P],
         "subs": [[s, l, str(P.get_substring(s, l))] for s in range(0, n) for l in (1, 2)],
         "neg_idx": [str(P[-1])] if n else [],
         "index": P.get_index(), "diag": P.get_diagonal_index(),
         "is_id": P.is_identity(), "weight": P.get_count_non_trivially(),
         "hash_eq": hash(P) == hash(PauliString(pauli_str=str(P))) if n else True,
         "conj": P.complex_conj()[0]}
    Q = PauliString(pauli_str=other)
    for name, f in (("eq", lambda: P == Q), ("ne", lambda: P != Q), ("lt", lambda: P < Q), ("le", lambda: P <= Q), ("gt", lambda: P > Q), ("ge", lambda: P >= Q),
                    ("com", lambda: P | Q), ("mul", lambda: str(P @ Q)), ("rmul", lambda: str(Q @ P)),
                    ("sign", lambda: [complex(P.sign(Q)).real, complex(P.sign(Q)).imag]),
                    ("adj", lambda: (lambda a: None if a is None else str(a))(P ^ Q)),
                    ("eq_str", lambda: P == other)):
        try:
            o[name] = f()
        except Exception as e:  # noqa
            o[name] = "!" + type(e).__name__
    if dense and 0 < n <= 3:
        o["matrix"] = [[[z.real, z.imag] for z in row] for row in P.get_matrix().tolist()]
    return o


def impl(case):
    from paulie import PauliString, get_pauli_string
    if case["op"] == "genall":
        n = case["n"]
        return {"all": [str(p) for p in PauliString(n=n).gen_all_pauli_strings()]}
    P = PauliString(pauli_str=case["init"]) if case["init"] else PauliString(n=0)
    steps = [{"str": str(P), "even": P.bits_even.to01(), "odd": P.bits_odd.to01(), "index": P.get_index() if len(P) else 0, "diag": P.get_diagonal_index() if len(P) else 0}]
    for e in case["edits"]:
        st = {}
        try:
            if e[0] == "set":
                P[e[1]] = e[2]
            elif e[0] == "set_ps":
                P.set_substring(e[1], PauliString(pauli_str=e[2]))
            elif e[0] == "inc":
                r = P.inc()
                st["inc_returns_self"] = r is P
            st["out"] = "ok"
        except Exception as ex:  # noqa
            st["out"] = type(ex).__name__
        st.update({"str": str(P), "even": P.bits_even.to01(), "odd": P.bits_odd.to01()})
        n = len(P)
        if n:
            st["index"], st["diag"] = P.get_index(), P.get_diagonal_index()
        live = _obs(P, e[-1] if e[0] == "obs" else case["other"], True)
        freshP = PauliString(pauli_str=str(P)) if n else PauliString(n=0)
        fr = _obs(freshP, e[-1] if e[0] == "obs" else case["other"], True)
        # the observations must also agree with each other, whatever iterations were started and abandoned before
        # (iteration protocol state is part of the object): letters by index = letters by iteration = text
        incons = []
        if n:
            for how, f in (("next(iter(P))", lambda: next(iter(P), None)), ("any(...)", lambda: any(True for _ in P)),
                           ("zip(range(1), P)", lambda: list(zip(range(1), P))), ("break", lambda: [x for x, _ in zip(P, range(max(1, n // 2)))])):
                f()
                got = [str(x) for x in P]
                if got != list(str(P)):
                    incons.append("after an abandoned iteration %s a full iteration yields %s, text %s" % (how, got, str(P)))
            if live["letters_idx"] != list(live["str"]) or live["letters_iter"] != list(live["str"]) or live["len"] != len(live["str"]):
                incons.append("letters by index %s, by iteration %s, text %s" % (live["letters_idx"], live["letters_iter"], live["str"]))
        st["inconsistent"] = incons
        st["diff"] = sorted(k for k in live if live[k] != fr[k])
        if st["diff"]:
            st["live"] = {k: live[k] for k in st["diff"]}; st["fresh"] = {k: fr[k] for k in st["diff"]}
        steps.append(st)
    # independence of tensor / expand / copy / get_substring results, in both directions and at the boundary arguments
    # (expand to the same length, tensor with the empty string, the full substring)
    indep = {}
    n = len(P)
    if n:
        Q = PauliString(pauli_str=case["other"])
        E = PauliString(n=0)
        def producers(P):
            b = str(P)
            return [("tensor", P + Q, b + str(Q)), ("tensor_left", Q + P, str(Q) + b), ("tensor_empty", P + E, b), ("empty_tensor", E + P, b),
                    ("expand+2", P.expand(n + 2), b + "II"), ("expand+1", P.expand(n + 1), b + "I"), ("expand_same", P.expand(n), b),
                    ("copy", P.copy(), b), ("substring_first", P.get_substring(0, 1), b[:1]), ("substring_full", P.get_substring(0, n), b)]
        def edit(obj):
            t = str(obj)
            obj[0] = "Y" if t[0] != "Y" else "X"
            obj.inc()
        def views_ok(obj, text):
            return str(obj) == text and obj.bits_even.to01() == "".join("1" if c in "XY" else "0" for c in text) and \
                obj.bits_odd.to01() == "".join("1" if c in "YZ" else "0" for c in text) and obj == PauliString(pauli_str=text)
        # (1) results have the concatenated / padded text; editing the source leaves them alone
        objs = producers(P)
        for name, obj, text in objs:
            indep[name + "_text"] = views_ok(obj, text)
        edit(P)
        for name, obj, text in objs:
            indep[name + "_unchanged_by_source_edit"] = views_ok(obj, text)
        # (2) editing a result leaves the source and the other results alone
        before = str(P)
        objs = producers(P)
        for k, (name, obj, text) in enumerate(objs):
            edit(obj)
            indep[name + "_independent"] = views_ok(P, before) and all(views_ok(o2, t2) for k2, (_, o2, t2) in enumerate(objs) if k2 > k)
        c2 = get_pauli_string(before, n=n + 1)
        indep["factory_pad"] = str(c2) == before + "I"
    return {"steps": steps, "indep": indep}


def gen_case(rng, quick):
    n = rng.randint(1, 6) if rng.random() < 0.8 else rng.choice([7, 8, 9, 15, 16, 17, 31, 32, 33, 63, 64, 65])
    init = G.uniform(rng, n)
    edits = []
    for _ in range(rng.randint(1, 10 if quick else 30)):
        r = rng.random()
        if r < 0.4:
            edits.append(["set", rng.randint(-n - 1, n), rng.choice("IXYZ")])
        elif r < 0.65:
            k = rng.randint(1, 3)
            edits.append(["set" if rng.random() < 0.5 else "set_ps", rng.randint(-n - 1, n), G.uniform(rng, k)])
        elif r < 0.9:
            edits.append(["inc"])
        else:
            edits.append(["set", rng.randint(0, max(0, n - 1)), "Y" * rng.randint(1, n)])  # runs off the end or fills with Y
    if rng.random() < 0.15:
        edits = [["set", 0, "Y" * n], ["inc"], ["inc"]] + edits  # wrap-around from all-Y
    return {"op": "edits", "init": init, "edits": edits, "other": G.uniform(rng, n)}


def model_req(c):
    toks = []
    for e in c["edits"]:
        toks.append("N" if e[0] == "inc" else "S:%d:%s" % (e[1], e[2]))
    return "edits %s %s" % (c["init"], " ".join(toks))


def main():
    ck = Check("C18")
    if ck.replay:
        rp = json.load(open(ck.replay)); ck.build()
        r = ck.impl("c18", [rp["case"]])[0]
        print("implementation:", json.dumps(r)[:3000]); print("model:", ck.oracle([model_req(rp["case"])]))
        return
    if not ck.build():
        ck.finish()
    ck.check_props()
    ck.check_translation("pstring")
    cases = [gen_case(ck.rng, ck.quick) for _ in range(1500 if ck.quick else 15000)]
    res = ck.impl("c18", cases, per_case_s=60)
    model = ck.oracle([model_req(c) for c in cases])
    stats = {"IndexError_steps": 0, "inc": 0, "set": 0}
    nt = 0
    for c, r, m in zip(cases, res, model):
        if "steps" not in r:
            ck.fail(None, "edit history raised %s" % r, {"case": c, "result": r}); continue
        ms = m.split(";")
        bad = None
        for i, (st, mm) in enumerate(zip(r["steps"], ms)):
            f = mm.split(",")
            txt, ev, od = ("" if f[0] == "-" else f[0]), ("" if f[1] == "-" else f[1]), ("" if f[2] == "-" else f[2])
            if i > 0:
                e = c["edits"][i - 1]
                stats["inc" if e[0] == "inc" else "set"] += 1
                if f[5] == "IndexError":
                    stats["IndexError_steps"] += 1
                if st.get("inconsistent"):
                    ck.fail(None, "after %s on %s: %s" % (c["edits"][:i], c["init"], "; ".join(st["inconsistent"])[:400]),
                            {"case": dict(c, edits=c["edits"][:i]), "inconsistent": st["inconsistent"]})
                    bad = "reported"; break
                # the property itself: every observation of the live object equals that of a fresh object from its text
                if st["diff"]:
                    ck.fail(None, "after %s on %s: live object and a fresh PauliString(%s) differ in %s" % (c["edits"][:i], c["init"], st["str"], st["diff"]),
                            {"case": dict(c, edits=c["edits"][:i]), "live": st.get("live"), "fresh": st.get("fresh")})
                    bad = "reported"; break
                if e[0] == "inc" and st.get("inc_returns_self") is False:
                    ck.fail(None, "inc() does not return the object itself", {"case": c}); bad = "reported"; break
            got = (st["str"], st["even"], st["odd"], st.get("out", "ok"))
            want = (txt, ev, od, f[5] if i > 0 else "ok")
            zb = lambda t: (-1 if t.startswith("-") else 1) * int(t.lstrip("-")[1:], 2)  # noqa: E731
            if got != want or (len(txt) and (st.get("index"), st.get("diag")) != (zb(f[3]), zb(f[4]))):
                bad = "step %d %s: implementation %s idx %s/%s, model %s idx %s/%s" % (i, c["edits"][i - 1] if i else "init", got, st.get("index"), st.get("diag"), want, f[3], f[4])
                break
        if bad and bad != "reported":
            # the model's edit semantics are the documented ones (letters at positions, binary increment); a deviation
            # with consistent views is still a wrong edit: report with the history as replay
            ck.fail(None, "edit result differs from Model/PauliBits.v: " + bad, {"case": c, "difference": bad})
        for k, v in r["indep"].items():
            if not v:
                ck.fail(None, "%s violated on %s" % (k, c["init"]), {"case": c, "indep": r["indep"]})
        if any(e[0] != "inc" for e in c["edits"]) and any(e[0] == "inc" for e in c["edits"]):
            nt += 1
    # enumeration of all strings
    nmax = 4 if ck.quick else 6
    en = ck.impl("c18", [{"op": "genall", "n": n} for n in range(0, nmax + 1)], per_case_s=300)
    em = ck.oracle(["genall %d" % n for n in range(0, nmax + 1)])
    for n, a, b in zip(range(0, nmax + 1), en, em):
        want = ["" if x == "-" else x for x in b.split()]
        if a.get("all") != want:
            ck.fail(None, "gen_all_pauli_strings(n=%d) is not each of the 4^n strings once in index order" % n, {"case": {"op": "genall", "n": n}, "implementation_head": (a.get("all") or [a])[:8]})
    ck.cov["evaluations"] = len(cases) + nmax + 1
    ck.cov["distinct_nontrivial"] = nt
    ck.cov["rule"] = ("edit histories (<=%d edits) of P[i]=letter, P[i]=substring (str and PauliString), negative and out-of-range positions, inc incl. wrap-around from all-Y, on strings of length 1..6; "
                      "after every edit ~30 observations on the live object vs a fresh PauliString(str(P)) (the property) and text/even/odd/index vs Model/PauliBits.v (the tie); "
                      "non-trivial = history mixes letter edits and inc; tensor/expand/copy/substring results edited to probe aliasing; gen_all exact for n<=%d" % (10 if ck.quick else 30, nmax))
    ck.cov["samples"] = cases[:3]
    ck.cov["distribution"] = stats
    ck.cov["traces_validated_against_impl"] = len(cases)
    ck.finish(assumptions=["aliasing is covered by probes only (the functional model cannot exhibit it)"])


if __name__ == "__main__":
    from harness.common import run_check
    run_check("C18", main)
