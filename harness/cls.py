"""Shared implementation-side operations on collections (classification, membership, editing)."""


def _coll(gens, n=None):
    from paulie import get_pauli_string
    return get_pauli_string(list(gens), n=n)


def classify(gens, n=None, record=False):
    """Everything the classification of a collection exposes, as text."""
    c = _coll(gens, n)
    rec = None
    if record:
        from paulie import RecordGraph
        rec = RecordGraph()
        c.set_record(rec)
    out = {"gens": [str(g) for g in c.get()]}
    out["algebra"] = c.get_algebra()
    out["dim"] = c.get_dla_dim()
    cl = c.get_class()
    out["morphs"] = [{"legs": [[str(v) for v in leg] for leg in m.get_legs()],
                      "deps": [str(d) for d in m.get_dependents()]} for m in cl.get_morphs()]
    out["vertices"] = [str(v) for v in c.get_canonic_vertices()]
    out["dependents"] = [str(v) for v in c.get_dependents()]
    out["independents"] = [str(v) for v in c.get_independents()]
    return out, c, rec
