"""Shared implementation-side operations on collections (classification, membership, editing)."""


def _coll(gens, n=None, routes=None):
    """routes: build the members as objects reached through these public routes (mk_string), then the collection through
    its own public routes ('@build': empty collection filled by append/insert)"""
    from paulie import get_pauli_string
    if routes and n is None and gens:
        from paulie import PauliStringCollection
        members = [mk_string(s, routes[i % len(routes)]) for i, s in enumerate(gens)]
        if "@build" in routes:
            c = PauliStringCollection([])
            for i, m in enumerate(members):
                if i % 3 == 2:
                    c.insert(len(c) // 2, m)
                else:
                    c.append(m)
            return c      # same set of strings; order changed and duplicates dropped by the collection itself
        return PauliStringCollection(members)
    return get_pauli_string(list(gens), n=n)


class attach_trace:
    """while active, notes for every vertex the plain MorphFactory attaches which step of the pipeline attached it
    (harness-side observation of the call site; /repo is not touched): text of the vertex -> name of the function that
    called append(), with append_to_center (the only caller that runs the dependency test first) resolved to
    '<its caller>+checked'"""
    def __init__(self):
        self.log = {}
        self.seq = 0
    def __enter__(self):
        import sys
        from paulie.classifier import morph_factory as mf
        self.mf = mf
        self.orig = mf.MorphFactory.append
        log = self.log
        orig = self.orig
        def append(this, v, lit):
            f = sys._getframe(1)
            site = f.f_code.co_name
            if site == "append_to_center" and f.f_back is not None:
                site = f.f_back.f_code.co_name + "+checked"
            self.seq += 1
            log[str(v)] = "%d:%s" % (self.seq, site)      # order of the event : step
            return orig(this, v, lit)
        mf.MorphFactory.append = append
        self.orig_replace = mf.MorphFactory.replace
        orig_replace = self.orig_replace
        def replace(this, v, v_new):
            # an equivalent vertex takes the place of v: it inherits the step that attached v
            if str(v) in log:
                self.seq += 1
                log[str(v_new)] = log[str(v)] + ">" + "%d:replace@%s" % (self.seq, sys._getframe(1).f_code.co_name)
            return orig_replace(this, v, v_new)
        mf.MorphFactory.replace = replace
        # exceptions that build() swallows in its generic `except Exception` branch (the generator is then dropped): type @ innermost function
        self.swallowed = []
        self.orig_pipeline = mf.MorphFactory._pipeline
        orig_pipeline = self.orig_pipeline
        swallowed = self.swallowed
        def _pipeline(this, lighting):
            try:
                return orig_pipeline(this, lighting)
            except (mf.AppendedException, mf.DependentException, mf.NotConnectedException, mf.RaiseException):
                raise
            except Exception as e:  # noqa
                import traceback
                tb = traceback.extract_tb(e.__traceback__)
                swallowed.append("%s@%s" % (type(e).__name__, tb[-1].name if tb else "?"))
                raise
        mf.MorphFactory._pipeline = _pipeline
        return self
    def __exit__(self, *a):
        self.mf.MorphFactory.append = self.orig
        self.mf.MorphFactory.replace = self.orig_replace
        self.mf.MorphFactory._pipeline = self.orig_pipeline
        return False


def classify(gens, n=None, record=False, routes=None, trace=False):
    """Everything the classification of a collection exposes, as text."""
    if trace and not record:
        with attach_trace() as t:
            out, c, rec = classify(gens, n, record, routes)
        out["attach_sites"] = t.log
        out["swallowed"] = list(t.swallowed)
        return out, c, rec
    c = _coll(gens, n, routes)
    rec = None
    if record:
        from paulie import RecordGraph
        rec = RecordGraph()
        c.set_record(rec)
    return read_class(c), c, rec


QUERIES = ["algebra", "dim", "morphs", "vertices", "dependents", "independents"]


def read_class(c, order=None):
    """everything the classification of this collection object exposes now, as text; the queries are asked in the
    given order (a cache filled by one query must not leak a stale answer into another)"""
    out = {"gens": [str(g) for g in c.get()]}
    def ask(name):
        if name == "algebra":
            out["algebra"] = c.get_algebra()
        elif name == "dim":
            out["dim"] = c.get_dla_dim()
        elif name == "morphs":
            cl = c.get_class()
            out["morphs"] = [{"legs": [[str(v) for v in leg] for leg in m.get_legs()],
                              "deps": [str(d) for d in m.get_dependents()]} for m in cl.get_morphs()]
        elif name == "vertices":
            out["vertices"] = [str(v) for v in c.get_canonic_vertices()]
        elif name == "dependents":
            out["dependents"] = [str(v) for v in c.get_dependents()]
        elif name == "independents":
            out["independents"] = [str(v) for v in c.get_independents()]
    for name in (order or QUERIES):
        ask(name)
    for name in QUERIES:
        if name not in out:
            ask(name)
    out["order"] = list(order or QUERIES)
    return out


def apply_step(c, st):
    """one in-place edit of a collection through the public interface"""
    from paulie import PauliString
    P = lambda s: PauliString(pauli_str=s)  # noqa: E731
    if st[0] == "append":
        c.append(P(st[1]))
    elif st[0] == "remove":
        c.remove(P(st[1]))
    elif st[0] == "replace":
        c.replace(P(st[1]), P(st[2]))
    elif st[0] == "contract":
        c.contract(P(st[1]), P(st[2]))
    elif st[0] == "insert":
        c.insert(st[1], P(st[2]))
    elif st[0] == "del":
        del c[st[1]]
    elif st[0] == "setitem":
        c[st[1]] = P(st[2])
    elif st[0] == "expand":
        c.expand(st[1])
    else:
        raise ValueError(st[0])


def gen_steps(rng, n, g, lo=1, hi=3, setitem=False, expand=0.0):
    """a random in-place editing history of the collection g and the strings it should hold afterwards; with
    probability `expand` the history ends with a direct expand() to a longer length (the strings get longer:
    callers take the qubit count from the result)"""
    from harness import gens as G
    steps, cur = [], list(dict.fromkeys(g))
    for _ in range(rng.randint(lo, hi)):
        r = rng.random()
        if r < 0.3 or len(cur) < 2:
            x = G.uniform(rng, n); steps.append(["append", x])
            if x not in cur:
                cur.append(x)
        elif r < 0.45:
            x = rng.choice(cur); steps.append(["remove", x]); cur.remove(x)
        elif r < 0.6:
            x = rng.choice(cur); y = G.uniform(rng, n)
            if y not in cur:
                steps.append(["replace", x, y]); cur[cur.index(x)] = y
        elif r < 0.72:
            pairs = [(a, b) for a in cur for b in cur if a != b and G.anti(a, b) and G.mul(a, b) not in cur]
            if pairs:
                a, b = rng.choice(pairs); steps.append(["contract", a, b]); cur[cur.index(a)] = G.mul(a, b)
        elif r < 0.92:
            x = G.uniform(rng, n)
            if x not in cur:
                i = rng.randint(0, len(cur)); steps.append(["insert", i, x]); cur.insert(i, x)
        else:
            i = rng.randrange(len(cur)); steps.append(["del", i]); cur.pop(i)
    if cur and rng.random() < expand:
        d = rng.randint(1, 2)
        steps.append(["expand", n + d]); cur = [x + "I" * d for x in cur]
    return steps, cur


def classify_history(gens, steps, orders=None):
    """one collection object: classify, then after every in-place edit classify again; orders[i] = order of the
    queries at stage i"""
    c = _coll(gens)
    orders = orders or [None] * (len(steps) + 1)
    with attach_trace() as t:
        out = [read_class(c, orders[0])]
        out[-1]["attach_sites"] = dict(t.log)
        for i, st in enumerate(steps):
            apply_step(c, st)
            t.log.clear()
            out.append(read_class(c, orders[i + 1]))
            out[-1]["attach_sites"] = dict(t.log)
    return out


def gen_orders(rng, k):
    res = []
    for _ in range(k):
        o = list(QUERIES); rng.shuffle(o)
        res.append(o[:rng.randint(1, len(o))])
    return res


def mk_string(text, route="parse"):
    """a PauliString with this text reached through a public route; 'edited' objects were used (hashed, iterated,
    compared) under another text first and then edited in place"""
    from paulie import PauliString
    n = len(text)
    if route == "parse" or n == 0:
        return PauliString(pauli_str=text)
    if route == "edited":
        P = PauliString(pauli_str="".join({"I": "Y", "X": "Z", "Y": "I", "Z": "X"}[ch] for ch in text))
        hash(P); {P: 1}; str(P); list(P); P == P.copy()
        for i, ch in enumerate(text):
            P[i] = ch
        return P
    if route == "edited-substring":
        P = PauliString(pauli_str="Y" * n)
        hash(P); P.get_index()
        P.set_substring(0, text)
        return P
    if route == "inc":
        P = PauliString(n=n)
        hash(P)
        idx = int("".join({"I": "00", "Z": "01", "X": "10", "Y": "11"}[ch] for ch in text), 2)
        if idx <= 64:
            for _ in range(idx):
                P.inc()
            return P
    if route == "copy":
        return mk_string(text, "edited").copy()
    return PauliString(pauli_str=text)


STRING_ROUTES = ["parse", "parse", "edited", "edited-substring", "inc", "copy"]
