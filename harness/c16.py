"""C16 — quadratic symmetries span the commutant and the twirl projects onto it."""
import json
from fractions import Fraction
from harness.common import Check, run_check
from harness import gens as G
from harness.c12 import wire, unwire


def _terms(x):
    return [[complex(c).real, complex(c).imag, str(p)] for c, p in x.combinations]


def impl(case):
    import numpy as np
    from paulie import get_pauli_string, PauliString, PauliStringLinear, second_moment
    n = case["n"]
    if case.get("history"):
        # one collection object: queried (basis and twirl), edited in place through the public interface, queried again
        from harness import cls
        h = case["history"]
        g = get_pauli_string(h["gens"])
        g.get_full_quadratic_basis()
        second_moment(PauliStringLinear([(1.0, "X" * (2 * n))]), g)
        for st in h["steps"]:
            cls.apply_step(g, st)
            if h.get("query_between"):
                g.get_full_quadratic_basis()
        if [str(s) for s in g.get()] != case["gens_padded"]:
            return {"skip": "the edited collection does not hold the expected strings (C10)"}
    else:
        g = get_pauli_string(case["gens"])
    basis = g.get_full_quadratic_basis()
    out = {"basis": [_terms(q) for q in basis]}
    d = 2 ** n
    I = np.eye(d)
    mats = [np.array(q.get_matrix(), dtype=complex) for q in basis]
    gm = [np.array(PauliString(pauli_str=s).get_matrix(), dtype=complex) for s in case["gens_padded"]]
    ad = [np.kron(m, I) + np.kron(I, m) for m in gm]
    out["invariant"] = all(np.array_equal(a @ q, q @ a) for a in ad for q in mats)
    out["orthogonal"] = all(np.trace(mats[i].conj().T @ mats[j]) == 0 for i in range(len(mats)) for j in range(i))
    out["nonzero"] = all(q.any() for q in mats)
    if case.get("rank"):
        D = d * d
        rows = [np.kron(a, np.eye(D)) - np.kron(np.eye(D), a.T) for a in ad]
        K = np.vstack(rows)
        out["commutant_dim"] = int(D * D - np.linalg.matrix_rank(K))
    # the twirl
    def mk(t):
        return PauliStringLinear([(complex(a, b), p) for a, b, p in t])
    def mat(x):
        return np.array(x.get_matrix(), dtype=complex)
    tw = {}
    ms = [mk(t) for t in case["ops"]]
    T = [second_moment(m, g) for m in ms]
    tw["terms"] = [_terms(t) for t in T]
    tol = 1e-9
    TM = [mat(t) for t in T]
    MM = [mat(m) for m in ms]
    if len(ms) >= 2:
        a, b = complex(*case["ab"][0]), complex(*case["ab"][1])
        comb = ms[0] * a + ms[1] * b
        tw["linear"] = bool(np.allclose(mat(second_moment(comb, g)), a * TM[0] + b * TM[1], atol=tol))
    tw["idempotent"] = all(bool(np.allclose(mat(second_moment(t, g)), tm, atol=tol)) for t, tm in zip(T, TM))
    lim = case.get("fix_limit")
    pick = list(zip(basis, mats)) if not lim else list(zip(basis, mats))[:: max(1, len(basis) // lim)][:lim]
    tw["fixes_basis"] = all(bool(np.allclose(mat(second_moment(q, g)), qm, atol=tol)) for q, qm in pick)
    tw["output_invariant"] = all(bool(np.allclose(a @ tm, tm @ a, atol=tol)) for a in ad for tm in TM)
    tw["residual_orthogonal"] = all(abs(np.trace(q.conj().T @ (mm - tm))) < tol for q in mats for mm, tm in zip(MM, TM))
    out["twirl"] = tw
    return out


def rand_op(rng, n2):
    k = rng.randint(1, 4)
    return [[rng.randint(-3, 3), rng.randint(-2, 2), G.uniform(rng, n2)] for _ in range(k)]


def canon_basis(blist):
    """basis as a set of frozen term dictionaries (order-insensitive; a basis vector is compared up to nothing: exact terms)"""
    out = []
    for q in blist:
        out.append(tuple(sorted((p, float(a), float(b)) for a, b, p in q)))
    return sorted(out)


def main():
    ck = Check("C16")
    if ck.replay:
        rp = json.load(open(ck.replay)); ck.build()
        print(json.dumps(ck.impl("c16", [rp["case"]], per_case_s=600)[0])[:3000])
        return
    if not ck.build():
        ck.finish()
    ck.check_props()
    ck.check_translation("linear")
    cases = []
    nmax = 2 if ck.quick else 3
    pool = G.exhaustive_small()
    import itertools
    base = []
    for n in (1, 2):
        S = ["".join(t) for t in itertools.product("IXYZ", repeat=n)]
        for k in (1, 2):
            for c in itertools.combinations(S, k):
                base.append((n, list(c)))
    ck.rng.shuffle(base)
    base = base[: (60 if ck.quick else 140)]
    base += [(n, g) for _, n, g in G.collections(ck.rng, 40 if ck.quick else 200, 2, 2)]
    # more members than 2n, with duplicates, the identity and products among the first ones
    for _ in range(12 if ck.quick else 60):
        n = ck.rng.randint(1, 2)
        g = [G.uniform(ck.rng, n) for _ in range(ck.rng.randint(1, 2))]
        g = g + [ck.rng.choice(g), "I" * n][: ck.rng.randint(1, 2)]
        while len(g) < 2 * n + ck.rng.randint(1, 3):
            g.append(G.uniform(ck.rng, n))
        base.append((n, g))
    # long member lists (8..14 entries, necessarily with repeats on one qubit): code paths that switch on the size of the collection
    for _ in range(10 if ck.quick else 50):
        n = ck.rng.randint(1, 2)
        base.append((n, [G.uniform(ck.rng, n) for _ in range(ck.rng.randint(8, 14))]))
    # three qubits: the symmetries live on six qubits (dense 64 x 64); a few cases in quick, more in thorough
    base += [(3, g) for _, n, g in G.collections(ck.rng, 8 if ck.quick else 40, 3, 3) if len(g) <= 3][: (3 if ck.quick else 25)]
    for n, g in base:
        gp = [s + "I" * (n - len(s)) for s in g]
        cases.append({"n": n, "gens": g, "gens_padded": gp, "rank": n <= 2, "fix_limit": 4 if n >= 3 else None, "ops": [rand_op(ck.rng, 2 * n) for _ in range(2)],
                      "ab": [[ck.rng.randint(-2, 2), ck.rng.randint(-2, 2)], [ck.rng.randint(-2, 2), ck.rng.randint(-2, 2)]]})
    # in-place histories at n<=2: the final collection is judged exactly like a fresh one
    from harness import cls
    hb = [(n, g) for n, g in base if n <= 2 and len(g[0]) == n]
    for n, g in hb[: (30 if ck.quick else 150)]:
        steps, cur = cls.gen_steps(ck.rng, n, g, 1, 2)
        if not cur or len(cur) > 3:
            continue
        cases.append({"n": n, "gens": cur, "gens_padded": cur, "rank": True, "fix_limit": None, "ops": [rand_op(ck.rng, 2 * n) for _ in range(2)],
                      "ab": [[1, 1], [ck.rng.randint(-2, 2), 1]], "history": {"gens": g, "steps": steps, "query_between": ck.rng.random() < 0.5}})
    res = ck.impl("c16", cases, per_case_s=600, procs=15)
    req = []
    for c in cases:
        gs = " ".join(c["gens_padded"])
        req.append("qbasis %d %s" % (c["n"], gs))
        for m in c["ops"]:
            req.append("twirl %d %s %s" % (c["n"], wire(m), gs))
    ans = ck.oracle(req, procs=8)
    nt = set()
    stats = {"basis_sizes": {}}
    for i, (c, r) in enumerate(zip(cases, res)):
        if "skip" in r:
            stats["skipped"] = stats.get("skipped", 0) + 1; continue
        if "exc" in r:
            ck.fail(None, "quadratic basis / twirl raised %s %s on %s" % (r["exc"], r.get("msg", ""), c["gens"]), {"case": c, "result": r}); continue
        bad = []
        mb = [unwire(x) for x in ans[3 * i].split("/")] if ans[3 * i] else []
        if canon_basis(r["basis"]) != canon_basis(mb):
            bad.append("basis differs from the model: implementation %d vectors, model %d" % (len(r["basis"]), len(mb)))
        for key in ("invariant", "orthogonal", "nonzero"):
            if r[key] is not True:
                bad.append("a returned symmetry is not %s" % key)
        if "commutant_dim" in r and r["commutant_dim"] != len(r["basis"]):
            bad.append("number of symmetries %d, dimension of the commutant of all g(x)1+1(x)g is %d" % (len(r["basis"]), r["commutant_dim"]))
        for key, v in r["twirl"].items():
            if key != "terms" and v is not True:
                bad.append("twirl is not %s" % key)
        # twirl terms vs exact rationals
        for j, terms in enumerate(r["twirl"]["terms"]):
            want = {}
            for t in [x for x in ans[3 * i + 1 + j].split(";") if x]:
                a, b, den, p = t.split(",")
                z = want.get(p, (Fraction(0), Fraction(0)))
                want[p] = (z[0] + Fraction(int(a), int(den)), z[1] + Fraction(int(b), int(den)))
            want = {p: z for p, z in want.items() if z != (0, 0)}
            got = {p: (a, b) for a, b, p in terms if abs(a) > 1e-9 or abs(b) > 1e-9}
            if set(got) != set(want) or any(abs(got[p][0] - float(want[p][0])) > 1e-9 or abs(got[p][1] - float(want[p][1])) > 1e-9 for p in want):
                bad.append("twirl of %s: implementation %s, exact model %s" % (wire(c["ops"][j]), got, {p: (str(z[0]), str(z[1])) for p, z in want.items()}))
        stats["basis_sizes"][len(r["basis"])] = stats["basis_sizes"].get(len(r["basis"]), 0) + 1
        if len(r["basis"]) >= 2 and any(len(q) >= 2 for q in r["basis"]):
            nt.add((c["n"], tuple(c["gens_padded"])))
        if bad:
            ck.fail(None, "n=%d G=%s%s: %s" % (c["n"], c["gens"], (" after the in-place history %s" % json.dumps(c["history"])) if c.get("history") else "", "; ".join(bad)[:800]), {"case": c, "differences": bad})
    ck.cov["evaluations"] = len(cases)
    ck.cov["distinct_nontrivial"] = len(nt)
    ck.cov["rule"] = ("collections of <=2 generators on 1..2 qubits (sampled exhaustively) plus structured/uniform n=2%s; operators as Gaussian-integer combinations on 2n qubits; "
                      "basis as term dictionaries vs Model/Quadratic.v; invariance, orthogonality, non-vanishing and the count vs the numerically computed commutant dimension (numpy rank, n<=2) on the implementation; "
                      "twirl: exact rational coefficients vs the model, linearity, idempotence, fixes the basis, invariant output, orthogonal residual (dense, tol 1e-9); non-trivial = >=2 symmetries, one with >=2 terms"
                      % (" and a few n=3" if ck.quick else " and n=3"))
    ck.cov["samples"] = [{k: c[k] for k in ("n", "gens", "ops")} for c in cases[:3]]
    stats["history_cases"] = sum(1 for c in cases if c.get("history"))
    ck.cov["distribution"] = stats
    ck.cov["traces_validated_against_impl"] = len(cases)
    ck.finish(assumptions=["completeness (count = dimension) is the basis theorem of arXiv:2502.16404, not proved: validated per input by a floating-point rank computation for n<=2",
                           "the source normalises with a float square root; the model uses the algebraically identical unnormalised projector"])


if __name__ == "__main__":
    run_check("C16", main)
