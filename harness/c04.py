"""C04 — product, phase, commutation, adjoint map, conjugation sign vs matrices."""
import itertools
from harness.common import Check, all_pstr, uniform_pstr, otxt


def _c(z):
    z = complex(z)
    return [z.real, z.imag]


def build(text, route):
    """the same string through different public construction routes"""
    from paulie import PauliString, get_single, get_pauli_string
    n = len(text)
    if route == "parse" or n == 0:
        return PauliString(pauli_str=text)
    if route == "assign":            # identity, then letters assigned in place
        P = PauliString(n=n)
        for i, ch in enumerate(text):
            if ch != "I":
                P[i] = ch
        return P
    if route == "overwrite":         # a different string, overwritten letter by letter
        P = PauliString(pauli_str="Y" * n)
        for i, ch in enumerate(text):
            P[i] = ch
        return P
    if route == "substring":         # one set_substring call
        P = PauliString(pauli_str="Z" * n)
        P.set_substring(0, text)
        return P
    if route == "single" and sum(ch != "I" for ch in text) == 1:
        i = next(i for i, ch in enumerate(text) if ch != "I")
        return get_single(n, i, text[i])
    if route == "inc":               # predecessor in index order, incremented in place
        idx = int("".join({"I": "00", "Z": "01", "X": "10", "Y": "11"}[ch] for ch in text), 2)
        if idx > 0:
            b = format(idx - 1, "0%db" % (2 * n))
            pred = "".join({"00": "I", "01": "Z", "10": "X", "11": "Y"}[b[2 * i:2 * i + 2]] for i in range(n))
            return PauliString(pauli_str=pred).inc()
    if route == "product":           # product of two other strings
        a = PauliString(pauli_str="XYZ" * n)[0:0] if False else None
        mask = "".join("XZY"[(i * 7 + n) % 3] for i in range(n))
        other = str(PauliString(pauli_str=mask) @ PauliString(pauli_str=text))
        return PauliString(pauli_str=mask) @ PauliString(pauli_str=other)
    if route == "tensor" and n >= 2:
        return PauliString(pauli_str=text[:n // 2]) + PauliString(pauli_str=text[n // 2:])
    if route == "edited":            # used (hashed, iterated, compared) under another text, then edited in place
        from harness.cls import mk_string
        return mk_string(text, "edited")
    if route == "copy":
        return build(text, "assign").copy()
    if route == "factory":
        return get_pauli_string(text)
    return PauliString(pauli_str=text)


ROUTES = ["parse", "assign", "overwrite", "substring", "single", "inc", "product", "tensor", "copy", "factory", "edited"]


def impl(case):
    import numpy as np
    from paulie import PauliString
    out = []
    dense = case.get("dense", False)
    routes = case.get("routes")
    for k, (p, q, as_str) in enumerate(case["pairs"]):
        P = build(p, routes[k][0]) if routes else PauliString(pauli_str=p)
        Q = q if as_str else (build(q, routes[k][1]) if routes else PauliString(pauli_str=q))
        # both operands one and the same object (P ^ P, P | P, P @ P ...): every second pair of equal strings (a seeded change iterated
        # zip(self, other), and a PauliString is its own iterator)
        if not as_str and p == q and k % 2 == 0:
            Q = P
        if routes and str(P) != p:
            out.append({"route_text": [routes[k][0], p, str(P)]}); continue
        r = {}
        for name, f in (("mul", lambda: str(P @ Q)), ("sign", lambda: _c(P.sign(Q))),
                        ("com", lambda: bool(P | Q)),
                        ("adj", lambda: (lambda a: None if a is None else str(a))(P ^ Q))):
            try:
                r[name] = f()
            except Exception as e:  # noqa
                r[name] = "!" + type(e).__name__
        # the named methods and the operators are one public interface: they must agree
        named = {}
        for name, f in (("mul", lambda: str(P.multiply(Q))), ("com", lambda: bool(P.commutes_with(Q))),
                        ("adj", lambda: (lambda a: None if a is None else str(a))(P.adjoint_map(Q)))):
            try:
                named[name] = f()
            except Exception as e:  # noqa
                named[name] = "!" + type(e).__name__
        r["named_differs"] = sorted(k for k in named if named[k] != r[k])
        cs, who = P.complex_conj()
        r["conj"] = [cs, str(who)]
        r["wt"] = P.get_count_non_trivially()
        if dense and len(p) == len(q):
            Qo = PauliString(pauli_str=q)
            MP, MQ = P.get_matrix(), Qo.get_matrix()
            ok = {}
            if isinstance(r["mul"], str) and not r["mul"].startswith("!") and isinstance(r["sign"], list):
                MR = PauliString(pauli_str=r["mul"]).get_matrix()
                ok["product"] = bool(np.array_equal(MP @ MQ, complex(*r["sign"]) * MR))
            ok["commute"] = bool(np.array_equal(MP @ MQ, MQ @ MP)) == r["com"]
            ok["conj"] = bool(np.array_equal(np.conj(MP), cs * MP))
            r["dense_ok"] = ok
        out.append(r)
    return {"res": out}


def impl_matrix(case):
    from paulie import PauliString
    res = []
    for p in case["strings"]:
        m = PauliString(pauli_str=p).get_matrix()
        res.append(";".join(" ".join("%d,%d" % (int(z.real), int(z.imag)) if (z.real == int(z.real) and z.imag == int(z.imag)) else "?" for z in row) for row in m.tolist()))
    return {"res": res}


_impl0 = impl
def impl(case):  # noqa: F811  dispatch
    if case.get("op") == "matrix":
        return impl_matrix(case)
    return _impl0(case)


def model_answers(ck, pairs):
    lines = []
    for p, q, _ in pairs:
        a, b = otxt(p), otxt(q)
        lines += ["multiply %s %s" % (a, b), "sign %s %s" % (a, b), "commutes %s %s" % (a, b), "adjoint %s %s" % (a, b), "conj %s" % a, "weight %s" % a]
    ans = ck.oracle(lines)
    return [ans[6 * i:6 * i + 6] for i in range(len(pairs))]


def compare(r, m):
    """implementation result r vs model answers m -> list of differing fields"""
    bad = []
    mul, sign, com, adj, conj, wt = m
    def exp(name, got, want):
        if got != want:
            bad.append("%s: implementation %r, model %r" % (name, got, want))
    exp("product", r["mul"], "!ValueError" if mul == "ValueError" else mul)
    exp("phase", r["sign"], "!ValueError" if sign == "ValueError" else [float(x) for x in sign.split(",")])
    exp("commutes", r["com"], "!ValueError" if com == "ValueError" else com == "1")
    exp("adjoint", r["adj"], "!ValueError" if adj == "ValueError" else (None if adj == "None" else adj))
    exp("conj sign", r["conj"][0], int(conj))
    exp("weight", r["wt"], int(wt))
    for k, v in r.get("dense_ok", {}).items():
        if not v:
            bad.append("dense numpy check failed: " + k)
    if r.get("named_differs"):
        bad.append("operator and named method disagree: %s" % r["named_differs"])
    return bad


def nontrivial(p, q):
    return len(p) == len(q) and any(a != b and a != "I" and b != "I" for a, b in zip(p, q))


def run_pairs(ck, pairs, dense, label, routed=False):
    B = 400
    cases = [{"pairs": pairs[i:i + B], "dense": dense} for i in range(0, len(pairs), B)]
    if routed:
        for c in cases:
            c["routes"] = [[ck.rng.choice(ROUTES), ck.rng.choice(ROUTES)] for _ in c["pairs"]]
    res = ck.impl("c04", cases, per_case_s=120)
    model = model_answers(ck, pairs)
    k = 0
    nfail = 0
    for case, rr in zip(cases, res):
        if "res" not in rr:
            ck.fail(None, "%s: implementation raised %s on a batch" % (label, rr), {"pairs": case["pairs"][:5], "result": rr})
            k += len(case["pairs"]); continue
        for j, ((p, q, s), r) in enumerate(zip(case["pairs"], rr["res"])):
            if "route_text" in r:
                ck.fail(None, "%s: constructing %s through route %s gives %s" % (label, r["route_text"][1], r["route_text"][0], r["route_text"][2]), {"P": p, "Q": q, "routes": case["routes"][j]})
                k += 1; continue
            bad = compare(r, model[k]); k += 1
            if bad and case.get("routes"):
                bad.append("operands built through routes %s" % (case["routes"][j],))
            if bad:
                nfail += 1
                ck.fail(None, "%s: P=%s Q=%s (%s): %s" % (label, p, q, "str operand" if s else "PauliString operand", "; ".join(bad)),
                        {"P": p, "Q": q, "q_as_str": s, "implementation": r, "differences": bad})
    return nfail


def main():
    ck = Check("C04")
    if ck.replay:
        import json
        rp = json.load(open(ck.replay))
        ck.build()
        pairs = [[rp["P"], rp["Q"], rp.get("q_as_str", False)]]
        r = ck.impl("c04", [{"pairs": pairs, "dense": len(rp["P"]) <= 4}])[0]
        print("implementation:", r); print("model:", model_answers(ck, pairs)[0])
        print("differences:", compare(r["res"][0], model_answers(ck, pairs)[0]) if "res" in r else r)
        return
    if not ck.build():
        ck.finish()
    ck.check_props()
    ck.check_translation("pstring")
    nmax = 3 if ck.quick else 4
    dist = {}
    # (i) exhaustive pairs, dense comparison on the implementation side for n<=3
    pairs = []
    for n in range(1, nmax + 1):
        S = all_pstr(n)
        pairs += [[p, q, False] for p in S for q in S]
    dist["exhaustive_pairs"] = len(pairs)
    small = [x for x in pairs if len(x[0]) <= 3]
    big = [x for x in pairs if len(x[0]) > 3]
    run_pairs(ck, small, True, "exhaustive n<=3")
    if big:
        run_pairs(ck, big, False, "exhaustive n=4")
    # matrices of every string n<=3 vs model M
    S = [p for n in range(1, 4) for p in all_pstr(n)]
    mres = ck.impl("c04", [{"op": "matrix", "strings": S[i:i + 30]} for i in range(0, len(S), 30)])
    mimpl = [x for r in mres for x in r.get("res", [])]
    mmod = ck.oracle(["matrix " + p for p in S])
    for p, a, b in zip(S, mimpl, mmod):
        if a != b:
            ck.fail(None, "get_matrix(%s) differs from the Kronecker product of the four 2x2 matrices" % p, {"P": p, "implementation": a, "model": b})
    dist["matrices_compared"] = len(mimpl)
    # (ii) random pairs, long strings
    rnd = []
    N = 3000 if ck.quick else 40000
    for _ in range(N):
        n = ck.rng.choice([4, 5, 6, 7, 8, 12, 16, 24, 32, 48, 64])
        rnd.append([uniform_pstr(ck.rng, n), uniform_pstr(ck.rng, n), ck.rng.random() < 0.2])
    dist["random_pairs"] = len(rnd)
    run_pairs(ck, rnd, False, "random")
    # (ii') the same strings reached through other public construction routes (in-place assignment, set_substring,
    #       get_single, inc, products, tensor, copy): P and Q are objects, however they were built
    routed = [[p, q, False] for p, q, _ in small if len(p) <= 2]
    for _ in range(2000 if ck.quick else 20000):
        n = ck.rng.choice([2, 3, 3, 4, 5, 8])
        routed.append([uniform_pstr(ck.rng, n), uniform_pstr(ck.rng, n), False])
    dist["routed_pairs"] = len(routed)
    run_pairs(ck, routed, False, "constructed operands", routed=True)
    # (iii) unequal lengths, all (m,n) <= (5,5), PauliString and str operands
    mis = []
    for m, n in itertools.product(range(1, 6), repeat=2):
        if m != n:
            for _ in range(6):
                mis.append([uniform_pstr(ck.rng, m), uniform_pstr(ck.rng, n), ck.rng.random() < 0.5])
    dist["length_mismatch_pairs"] = len(mis)
    run_pairs(ck, mis, False, "unequal lengths")
    allp = pairs + rnd + mis + routed
    ck.cov["evaluations"] = len(allp) + len(S)
    ck.cov["distinct_nontrivial"] = len({(p, q) for p, q, _ in allp if nontrivial(p, q)})
    ck.cov["rule"] = ("pairs (P,Q): all 16^n pairs for n<=%d, uniform random pairs n in 4..64, all length mismatches <=5; "
                      "non-trivial = equal length and some site carries two different non-identity letters; "
                      "each pair: @, sign, |, ^, complex_conj, weight vs the Coq model (proved equal to the matrices), "
                      "and for n<=3 numpy matrices of the implementation multiplied out" % nmax)
    ck.cov["samples"] = [small[777], rnd[0], mis[0]]
    ck.cov["exhaustive"] = True
    ck.cov["distribution"] = dist
    ck.cov["traces_validated_against_impl"] = len(allp)
    ck.finish(assumptions=["numpy kron/@ are the matrices on the implementation side",
                           "exhaustive for n<=%d; for larger n the tie is random pairs plus the per-site factorisation proved in Coq" % nmax])


if __name__ == "__main__":
    from harness.common import run_check
    run_check("C04", main)
