"""C10 — answers after any edit history equal those of a freshly built collection."""
import json
from harness.common import Check
from harness import gens as G
from harness import lie


def _norm_alg(a):
    try:
        c, ms = lie.name_multiset(a)
        return [c, sorted([list(k), v] for k, v in ms.items())]
    except Exception as e:  # noqa
        return "bad:" + str(a)


def _query(c, q):
    """semantic queries (order-independent answers)"""
    from paulie import get_pauli_string
    kind = q[0]
    if kind == "algebra":
        return _norm_alg(c.get_algebra())
    if kind == "dim":
        return c.get_dla_dim()
    if kind == "is_in":
        return bool(c.is_in(get_pauli_string(q[1])))
    if kind == "is_eq":
        return bool(c.is_eq(get_pauli_string(q[1])))
    if kind == "select":
        return sorted(set(str(v) for v in c.select_dependents(get_pauli_string(q[1]))))
    if kind == "space":
        return sorted(str(v) for v in c.get_space())
    if kind == "ndep":
        return len(c.get_dependents())
    if kind == "graphs":     # every graph-level and bookkeeping query in one answer
        n = c.get_size() if len(c) else 0
        v, e, lab = c.get_graph()
        out = {"size": n, "len": len(c), "vertices": sorted(v), "edges": sorted(sorted([a, b]) + [lab.get((a, b))] for a, b in e),
               "apair": c.get_anticommutation_pair(), "pair": c.get_pair(),
               "subgraphs": sorted(sorted(str(s) for s in sub) for sub in c.get_subgraphs()),
               "components": sorted(sorted(str(s) for s in sub) for sub in c.get_graph_components()),
               "independents": sorted(str(s) for s in c.get_independents()), "vertices_canon": len(c.get_canonic_vertices())}
        if 0 < n <= 3:
            out["commutants"] = sorted(str(s) for s in c.get_commutants())
        if 0 < n <= 2:
            out["quadratic"] = sorted(sorted((str(p), complex(z).real, complex(z).imag) for z, p in q.combinations) for q in c.get_full_quadratic_basis())
        return out
    raise ValueError(kind)


def _safe(f):
    try:
        return f()
    except Exception as e:  # noqa
        return "!" + type(e).__name__


def impl(case):
    from paulie import get_pauli_string, PauliString
    P = lambda s: PauliString(pauli_str=s)  # noqa: E731
    c = get_pauli_string(case["init"]) if case["init"] else get_pauli_string([])
    steps = []
    def snapshot():
        return [str(g) for g in c.get()]
    steps.append({"gens": snapshot()})
    for o in case["ops"]:
        st = {}
        k = o[0]
        try:
            if k == "append": c.append(P(o[1]))
            elif k == "insert": c.insert(o[1], P(o[2]))
            elif k == "remove": c.remove(P(o[1]))
            elif k == "del": del c[o[1]]
            elif k == "replace": c.replace(P(o[1]), P(o[2]))
            elif k == "contract": c.contract(P(o[1]), P(o[2]))
            elif k == "expand": c.expand(o[1])
            elif k == "sort": c.sort()
            elif k == "copy":
                # independence probe: edit the copy, the original must not move (and vice versa later)
                before = snapshot()
                d = c.copy()
                same = [str(g) for g in d.get()] == before
                _safe(lambda: d.append(P(o[1])))
                _safe(lambda: d.remove(P(before[0])) if before else None)
                _safe(lambda: d.sort())
                st["copy_equal"] = same
                st["copy_independent"] = snapshot() == before
                st["copy_after"] = [str(g) for g in d.get()]
            elif k == "query":
                verts_before = _safe(lambda: [str(v) for v in c.get_canonic_vertices()]) if c.classification is not None else None
                live = _safe(lambda: _query(c, o[1:]))
                strs = snapshot()
                fresh_c = get_pauli_string(strs) if strs else get_pauli_string([])
                fresh = _safe(lambda: _query(fresh_c, o[1:]))
                st["live"], st["fresh"] = live, fresh
                if verts_before is not None:
                    st["cache_changed_by_query"] = _safe(lambda: [str(v) for v in c.get_canonic_vertices()]) != verts_before
                # a second identical query must answer the same (read-only queries never change later answers)
                st["live_again"] = _safe(lambda: _query(c, o[1:]))
            st["out"] = "ok"
        except Exception as e:  # noqa
            st["out"] = type(e).__name__
        st["gens"] = snapshot()
        # the container protocol reads the held strings too: len, membership, iteration (also after an iteration
        # was started and abandoned, and nested over the same object)
        try:
            held = st["gens"]
            prot = []
            if len(c) != len(held):
                prot.append("len() = %d, %d strings held" % (len(c), len(held)))
            next(iter(c), None)
            if [str(x) for x in c] != held:
                prot.append("iteration after an abandoned one yields %s" % [str(x) for x in c])
            if held and [(str(a), str(b)) for a in c for b in c.copy()] != [(a, b) for a in held for b in held]:
                prot.append("iteration while a copy is iterated differs")
            if any(P(h) not in c for h in held):
                prot.append("a held string is not `in` the collection")
            st["protocol"] = prot
        except Exception as e:  # noqa
            st["protocol"] = ["container protocol raised %s: %s" % (type(e).__name__, str(e)[:80])]
        steps.append(st)
    return {"steps": steps}


def gen_history(rng, quick):
    n = rng.randint(2, 4)
    init = [G.uniform(rng, n) for _ in range(rng.randint(0, 4))]
    if rng.random() < 0.3:
        init = G.structured(rng, n)[1][:5]
    cur = list(init)   # rough tracking only to pick plausible arguments
    ops = []
    L = rng.randint(2, 12 if quick else 40)
    for _ in range(L):
        r = rng.random()
        pick = (lambda: rng.choice(cur)) if cur else (lambda: G.uniform(rng, n))
        ln = max([len(s) for s in cur] or [n])
        def arg():
            t = rng.random()
            if t < 0.55:
                return G.uniform(rng, ln)
            if t < 0.7:
                return G.uniform(rng, max(1, ln - rng.randint(1, 2)))
            if t < 0.82 and ln < 6:
                return G.uniform(rng, ln + 1)
            return pick()
        if r < 0.16:
            p = arg(); ops.append(["append", p]); cur.append(p)
        elif r < 0.24:
            p = arg(); ops.append(["insert", rng.randint(-len(cur) - 2, len(cur) + 2), p]); cur.append(p)
        elif r < 0.31:
            p = pick() if rng.random() < 0.7 else arg(); ops.append(["remove", p])
            if p in cur: cur.remove(p)
        elif r < 0.37:
            ops.append(["del", rng.randint(-len(cur) - 1, len(cur))])
        elif r < 0.45:
            p = pick(); q = G.uniform(rng, len(p)) if rng.random() < 0.85 else arg(); ops.append(["replace", p, q]); cur.append(q)
        elif r < 0.55:
            p = pick()
            cands = [q for q in cur if len(q) == len(p) and G.anti(p, q)]
            q = rng.choice(cands) if cands and rng.random() < 0.8 else G.uniform(rng, len(p) if rng.random() < 0.9 else len(p) + 1)
            ops.append(["contract", p, q]); cur.append(G.mul(p, q) if len(p) == len(q) else p)
        elif r < 0.59:
            ops.append(["expand", ln + rng.randint(-1, 2)]) if ln < 6 else ops.append(["sort"])
        elif r < 0.64:
            ops.append(["sort"])
        elif r < 0.68:
            ops.append(["copy", G.uniform(rng, ln)])
        else:
            t = rng.random()
            x = [pick() if rng.random() < 0.5 else G.uniform(rng, ln) for _ in range(rng.randint(1, 3))]
            if cur and rng.random() < 0.4:
                a, b = pick(), pick()
                if len(a) == len(b) and G.anti(a, b):
                    x.append(G.mul(a, b))
            x = [s + "I" * (ln - len(s)) if len(s) < ln else s[:ln] for s in x]
            if t < 0.3: ops.append(["query", "algebra"])
            elif t < 0.45: ops.append(["query", "dim"])
            elif t < 0.6: ops.append(["query", "is_in", x])
            elif t < 0.7: ops.append(["query", "is_eq", x])
            elif t < 0.85: ops.append(["query", "select", x])
            elif t < 0.9 and ln <= 3: ops.append(["query", "space"])
            elif t < 0.95: ops.append(["query", "graphs"])
            else: ops.append(["query", "ndep"])
    return {"init": init, "ops": ops}


def model_request(case):
    toks = []
    for o in case["ops"]:
        k = o[0]
        t = lambda s: s if s else "-"  # noqa: E731
        if k == "append": toks.append("A:" + t(o[1]))
        elif k == "insert": toks.append("I:%d:%s" % (o[1], t(o[2])))
        elif k == "remove": toks.append("R:" + t(o[1]))
        elif k == "del": toks.append("D:%d" % o[1])
        elif k == "replace": toks.append("P:%s:%s" % (t(o[1]), t(o[2])))
        elif k == "contract": toks.append("C:%s:%s" % (t(o[1]), t(o[2])))
        elif k == "expand": toks.append("E:%d" % max(0, o[1]))
        elif k == "sort": toks.append("S")
        elif k == "copy": toks.append("S:noop")   # placeholder, handled below
        elif k == "query": toks.append("Q")
    return toks


def judge(ck, case, r, stats):
    """returns number of property failures on this history"""
    fails = 0
    if "steps" not in r:
        ck.fail(None, "history raised %s" % r, {"history": case, "result": r}); return 1
    # (1) the property itself, on the implementation: live answers == fresh answers; copies independent; queries read-only
    for i, (o, st) in enumerate(zip(case["ops"], r["steps"][1:])):
        stats[o[0]] = stats.get(o[0], 0) + 1
        if o[0] == "query":
            stats["query:" + o[1]] = stats.get("query:" + o[1], 0) + 1
            if st["live"] != st["fresh"]:
                fails += ck.fail(None, "after %d edits the live collection answers %s=%r, a fresh collection of the same strings %s answers %r" % (
                    i, o[1], st["live"], st["gens"], st["fresh"]), {"history": {"init": case["init"], "ops": case["ops"][:i + 1]}, "step": i, "live": st["live"], "fresh": st["fresh"], "strings": st["gens"]})
            elif st.get("live_again") != st["live"]:
                fails += ck.fail(None, "repeating the query %s changes its answer: %r then %r" % (o[1:], st["live"], st["live_again"]),
                                 {"history": {"init": case["init"], "ops": case["ops"][:i + 1]}, "step": i})
            if st.get("cache_changed_by_query"):
                fails += ck.fail(None, "read-only query %s changed the stored canonical vertices" % (o[1:],), {"history": {"init": case["init"], "ops": case["ops"][:i + 1]}, "step": i})
        if st.get("protocol"):
            fails += ck.fail(None, "after %s: %s" % (o, "; ".join(st["protocol"])[:300]), {"history": {"init": case["init"], "ops": case["ops"][:i + 1]}, "step": i, "protocol": st["protocol"]})
        if o[0] == "copy" and st.get("out") == "ok":
            if not st["copy_equal"] or not st["copy_independent"]:
                fails += ck.fail(None, "copy is not an independent equal collection", {"history": {"init": case["init"], "ops": case["ops"][:i + 1]}, "step": i, "detail": st})
    return fails


def tie(ck, case, r, model_line):
    """model gens == implementation strings after every step (copy steps are no-ops on the original)"""
    if "steps" not in r:
        return None
    ms = model_line.split(";")
    mi = 0
    for i, st in enumerate(r["steps"]):
        o = case["ops"][i - 1] if i > 0 else None
        if o is not None and o[0] == "copy":
            want, wout = prev, "ok"   # noqa: F821
        else:
            part = ms[mi].split("|"); mi += 1
            want = [x for x in part[0].split(",") if x] if part[0] != "" else []
            want = ["" if x == "-" else x for x in want]
            wout = part[1] if len(part) > 1 else "ok"
            if wout.startswith("ans="):
                wout = "ok"
        prev = want  # noqa: F841
        if st["gens"] != want or (i > 0 and st.get("out", "ok") != wout):
            return "step %d (%s): implementation %s/%s, model %s/%s" % (i, o, st["gens"], st.get("out"), want, wout)
    return None


def shrink(ck, case, pred):
    """drop ops while the failure persists"""
    ops = list(case["ops"])
    changed = True
    while changed and len(ops) > 1:
        changed = False
        for i in range(len(ops)):
            cand = {"init": case["init"], "ops": ops[:i] + ops[i + 1:]}
            if pred(cand):
                ops = cand["ops"]; changed = True; break
    return {"init": case["init"], "ops": ops}


def main():
    ck = Check("C10")
    if ck.replay:
        rp = json.load(open(ck.replay)); ck.build()
        case = rp["history"]
        r = ck.impl("c10", [case])[0]
        for o, st in zip([None] + case["ops"], r.get("steps", [r])):
            print(o, "->", st)
        return
    if not ck.build():
        ck.finish()
    ck.check_props()
    ck.check_translation("collection")
    N = 1500 if ck.quick else 12000
    cases = [gen_history(ck.rng, ck.quick) for _ in range(N)]
    # corpus: the property text's own witnesses first
    cases.insert(0, {"init": ["XY", "ZZ"], "ops": [["append", "XYZ"], ["query", "algebra"]]})
    cases.insert(1, {"init": ["XI", "ZI", "IX"], "ops": [["query", "algebra"], ["contract", "XI", "ZI"], ["replace", "IX", "ZZ"], ["query", "algebra"], ["query", "dim"]]})
    cases.insert(2, {"init": ["XYI", "XXZ", "IZI", "YXI", "ZII"], "ops": [["query", "algebra"], ["query", "is_eq", ["XYI", "IZI"]], ["query", "select", ["YZI", "XXZ"]], ["query", "algebra"]]})
    res = ck.impl("c10", cases, per_case_s=120)
    model = ck.oracle(["collection 1 %s %s" % (",".join(c["init"]) if c["init"] else "-", " ".join(t for t in model_request(c) if t != "S:noop")) for c in cases])
    stats = {}
    nt = 0
    tie_broken = []
    for c, r, m in zip(cases, res, model):
        f = judge(ck, c, r, stats)
        edits = [i for i, o in enumerate(c["ops"]) if o[0] not in ("query", "copy")]
        qs = [i for i, o in enumerate(c["ops"]) if o[0] == "query"]
        if edits and qs and max(qs) > min(edits):
            nt += 1
        if m.startswith("ERR"):
            tie_broken.append((c, "model error " + m)); continue
        t = tie(ck, c, r, m)
        if t and not f:
            # the strings held after an edit differ from the edit's stated effect (Model/Collection.v, edit effects
            # proved in C10_uniform_length / C10_append_keeps): "no edit loses strings other than the one it names"
            ck.fail(None, "an edit does not have its stated effect on the strings held: " + t, {"history": c, "difference": t})
    for c, t in tie_broken[:3]:
        ck.correspondence_broken("collection state machine differs from Model/Collection.v: " + t, {"history": c, "difference": t})
    ck.cov["evaluations"] = len(cases)
    ck.cov["distinct_nontrivial"] = nt
    ck.cov["rule"] = ("random histories (length <=%d) over append/insert/remove/del/replace/contract/expand/sort/copy and the queries algebra, dim, is_in, is_eq, "
                      "select_dependents, get_space, #dependents, with arguments longer/shorter than the current strings, duplicates, absent strings, out-of-range indices; "
                      "non-trivial = at least one edit followed by a query; at every query the live answer is compared with a fresh collection of the same strings (the property) "
                      "and after every step the strings are compared with Model/Collection.v (the tie)" % (12 if ck.quick else 40))
    ck.cov["samples"] = cases[3:6]
    ck.cov["distribution"] = stats
    ck.cov["traces_validated_against_impl"] = len(cases) - len(tie_broken)
    ck.finish(assumptions=["queries compared are the order-independent ones (algebra as normalised multiset, dimension, membership, space); canonical vertices are representation-dependent and only compared before/after read-only queries"])


if __name__ == "__main__":
    from harness.common import run_check
    run_check("C10", main)
