"""C05 — a returned compiled sequence really produces the target by nested commutators."""
import json
from harness.common import Check, run_check
from harness import comp
from harness.comp import impl  # noqa: F401


def main():
    ck = Check("C05")
    if ck.replay:
        rp = json.load(open(ck.replay)); ck.build()
        r = ck.impl("c05", [{"op": "compile", "N": rp["N"], "k": rp["k"], "target": rp["target"]}], per_case_s=300)[0]
        print("implementation:", r)
        if r.get("out") == "seq":
            print("nested commutator evaluates to:", ck.oracle(["nested " + " ".join(r["seq"])]), "compile_ok:", ck.oracle(["compileok %d %d %s %s" % (rp["N"], rp["k"], rp["target"], " ".join(r["seq"]))]))
        return
    if not ck.build():
        ck.finish()
    ck.check_props()
    ck.check_translation("compiler")
    # the self-checking search itself (compile_target, compile, _case3_best_reordering, _bfs_case3, the nested-commutator check):
    # Refine/SearchRefine.v proves, on the translation of the current source, that whatever compile_target returns evaluates to the target
    ck.check_translation("search")
    # ... and the translator itself is validated by execution: the generated Gallina, evaluated on the helper answers recorded from real runs,
    # must return what the real runs returned
    tv = comp.validate_translation_by_execution(ck, 45 if ck.quick else 300)
    if tv is not None:
        ck.cov.setdefault("translated_model", {}).setdefault("search", {})["validated_by_execution"] = {k: v for k, v in tv.items() if k != "disagree"}
        if tv.get("error"):
            ck.obligation_broken("the generated search translation could not be evaluated on recorded runs", tv["error"])
        for c in tv.get("disagree", [])[:5]:
            ck.correspondence_broken("compile_target(%s, k=%d): the Gallina translation of the search, run on the helper answers recorded from the real run, does not return what the real run returned" % (c["target"], c["k"]), {"case": c})
    cases = comp.compile_cases(ck, ck.quick)
    res = ck.impl("c05", cases, per_case_s=120 if ck.quick else 300, procs=15)
    got = [(c, r) for c, r in zip(cases, res) if r.get("out") == "seq"]
    # the universal set "for that (N,k)" is the library's own construct_universal_set(N,k) (its shape is C07's concern)
    nks = sorted({(c["N"], c["k"]) for c in cases})
    ures = ck.impl("c05", [{"op": "universal", "items": [list(x) for x in nks]}])[0]["res"]
    uni = {nk: set(u[1]) if u[0] == "ok" else set() for nk, u in zip(nks, ures)}
    ev = ck.oracle(["nested " + " ".join(r["seq"]) if r["seq"] else "nested" for c, r in got])
    ok = ["1" if (r["seq"] and all(x in uni[(c["N"], c["k"])] for x in r["seq"]) and e == c["target"]) else "0" for (c, r), e in zip(got, ev)]
    by = {}
    nt = set()
    for (c, r), o, e in zip(got, ok, ev):
        key = "N=%d,k=%d" % (c["N"], c["k"])
        by.setdefault(key, [0, 0]); by[key][0] += 1
        if len(r["seq"]) >= 2:
            nt.add((c["N"], c["k"], c["target"]))
        if o != "1":
            by[key][1] += 1
            what = "is empty" if not r["seq"] else ("evaluates to zero" if e == "None" else ("evaluates to %s" % e if e != c["target"] else "uses a string outside the universal set"))
            ck.fail(None, "compile_target(%s, k=%d) returned %s which %s" % (c["target"], c["k"], r["seq"], what),
                    {"N": c["N"], "k": c["k"], "target": c["target"], "sequence": r["seq"], "nested_commutator": e})
    ck.cov["evaluations"] = len(cases)
    ck.cov["distinct_nontrivial"] = len(nt)
    ck.cov["rule"] = ("compile_target on all 4^N-1 targets and all 2<=k<N for N<=%d, sampled N up to %d; every returned sequence validated by the Coq function compile_ok "
                      "(non-empty, members of the universal set, nested commutator in the documented orientation = target); non-trivial = returned sequence of length >= 2"
                      % ((5, 7) if ck.quick else (5, 8)))
    ck.cov["samples"] = [[c["N"], c["k"], c["target"], r["seq"]] for c, r in got[:: max(1, len(got) // 5)]][:5]
    ck.cov["distribution"] = {"returned_sequences": len(got), "raised_or_other": len(cases) - len(got), "per_Nk_[returned,bad]": by}
    ck.cov["exhaustive"] = True
    ck.cov["traces_validated_against_impl"] = len(got)
    ck.finish(assumptions=["targets that raise are C06's concern, not C05's"])


if __name__ == "__main__":
    run_check("C05", main)
