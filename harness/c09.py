"""C09 — the reported dimension equals the size of the commutator closure and the dimension of the reported name."""
import json
from harness.common import Check
from harness import gens as G
from harness import lie
from harness.c01 import impl, check_star_tie, signature, history_cases  # noqa: F401  (impl is looked up by the worker)


def main():
    ck = Check("C09")
    if ck.replay:
        rp = json.load(open(ck.replay)); ck.build()
        if str(rp.get("kind", "")).startswith("history:"):
            h = json.loads(rp["kind"][len("history:"):]); print("history:", h)
            r = ck.impl("c09", [dict(h, op="history")])[0]["stages"][-1]
        else:
            r = ck.impl("c09", [{"op": "classify", "gens": rp["gens"]}])[0]
        a = ck.oracle(["lieinv %d %s" % (rp["n"], " ".join(rp["gens"]))])[0]
        print("implementation: dim", r.get("dim"), "name", r.get("algebra"), "| closure invariants:", a)
        return
    if not ck.build():
        ck.finish()
    ck.check_props()
    ck.check_translation()
    dist = {}
    check_star_tie(ck, dist, with_dim=True)
    cases = G.exhaustive_small()
    if ck.quick:
        cases += G.collections(ck.rng, 1500, 3, 5) + G.collections(ck.rng, 250, 6, 6) + G.long_chain_cases(ck.rng, 28, 7) + G.dense_collections(ck.rng, 800, 4, 5) + G.sparse_collections(ck.rng, 500, 4, 6, 9, 18)
    else:
        cases += G.collections(ck.rng, 12000, 3, 5) + G.collections(ck.rng, 3000, 6, 7) + G.collections(ck.rng, 200, 8, 8) + G.long_chain_cases(ck.rng, 28, 7) + G.long_chain_cases(ck.rng, 12, 8) + G.dense_collections(ck.rng, 8000, 4, 6) + G.sparse_collections(ck.rng, 5000, 4, 6, 9, 18)
    cases.append(("star", 5, ["XIIII", "ZIIII", "ZZIII", "ZIZII", "ZIIZI", "ZIIIZ", "ZZZZZ"]))
    res = ck.impl("c09", [{"op": "classify", "gens": g} for _, _, g in cases], per_case_s=120)
    hc, hr = history_cases(ck, 250 if ck.quick else 2500)
    cases += hc; res += hr
    dist["history_stages"] = len(hc)
    ans = ck.oracle(["lieinv %d %s" % (n, " ".join(g)) for _, n, g in cases])
    nt = set()
    for (kind, n, g), r, a in zip(cases, res, ans):
        if "exc" in r:
            ck.fail(None, "get_dla_dim raised %s on %s" % (r["exc"], g), {"n": n, "gens": g, "result": r}); continue
        centre, comps = lie.parse_lieinv(a)
        true_dim = centre + sum(s for s, _, _ in comps)
        if true_dim > len(set(g)):
            nt.add((n, tuple(sorted(set(g)))))
        why = None
        try:
            nd = lie.name_dim(r["algebra"])
        except lie.BadName as e:
            nd = None
        if r["dim"] != true_dim:
            why = "get_dla_dim() = %r but the commutator closure has %d strings" % (r["dim"], true_dim)
        elif nd is not None and nd != r["dim"]:
            why = "get_dla_dim() = %r but the reported name %s has dimension %d" % (r["dim"], r["algebra"], nd)
        if why:
            key = signature(r["morphs"], r.get("attach_sites")) if (nd == r["dim"]) else None
            ck.fail(key, "n=%d generators %s: %s" % (n, g, why), {"n": n, "gens": g, "kind": kind, "dim": r["dim"], "algebra": r["algebra"], "closure_invariants": a, "why": why})
    ck.cov["evaluations"] = len(cases) + dist["synthetic_graph_lists"]
    ck.cov["distinct_nontrivial"] = len(nt)
    ck.cov["rule"] = ("same collection streams as C01; non-trivial = distinct generator set whose closure is larger than the set; "
                      "get_dla_dim() vs |closure| from the Coq-verified oracle and vs the dimension of the parsed name; "
                      "synthetic Classification objects over leg-length vectors vs Model/Star.v dla_dim")
    ck.cov["samples"] = [list(c) for c in cases[::max(1, len(cases) // 6)]][:6]
    ck.cov["distribution"] = dist
    ck.cov["traces_validated_against_impl"] = len(cases)
    ck.finish(assumptions=["closure enumerated, so n<=%d" % (6 if ck.quick else 8)])


if __name__ == "__main__":
    from harness.common import run_check
    run_check("C09", main)
