"""C14 — commutants, anticommutation and commutator graphs are exact."""
import itertools
import json
from harness.common import Check, run_check, all_pstr
from harness import gens as G


def impl_history(case):
    """one collection object: graph queries, in-place edit, the same queries again"""
    from paulie import get_pauli_string, PauliString
    c = get_pauli_string(case["gens"])
    steps = []
    for st in case["steps"]:
        if st[0] == "append":
            c.append(PauliString(pauli_str=st[1]))
        elif st[0] == "remove":
            c.remove(PauliString(pauli_str=st[1]))
        elif st[0] == "replace":
            c.replace(PauliString(pauli_str=st[1]), PauliString(pauli_str=st[2]))
        elif st[0] == "contract":
            c.contract(PauliString(pauli_str=st[1]), PauliString(pauli_str=st[2]))
        elif st[0] == "insert":
            c.insert(st[1], PauliString(pauli_str=st[2]))
        elif st[0] == "del":
            del c[st[1]]
        rec = {"strings": [str(s) for s in c.get()]}
        try:
            rec["commutants"] = [str(s) for s in c.get_commutants()]
            v, e, l = c.get_graph()
            rec["edges"] = [[a, b, l.get((a, b))] for a, b in e]
            rec["subgraphs"] = sorted(sorted(str(s) for s in sub) for sub in c.get_subgraphs())
            rec["apair"] = c.get_anticommutation_pair()
            cv, ce = c.get_commutator_graph()
            rec["cedges"] = sorted(sorted([a, b]) for a, b in ce)
        except Exception as ex:  # noqa
            rec["exc"] = type(ex).__name__
        steps.append(rec)
    return {"steps": steps}


def impl(case):
    if case.get("op") == "history":
        return impl_history(case)
    from paulie import get_pauli_string, non_commuting_charges
    g = case["gens"]
    c = get_pauli_string(g) if g else get_pauli_string([])
    out = {"strings": [str(s) for s in c.get()]}
    def safe(name, f):
        try:
            out[name] = f()
        except Exception as e:  # noqa
            out[name] = "!" + type(e).__name__
    if not case.get("light"):
        safe("commutants", lambda: [str(s) for s in c.get_commutants()])
    safe("agraph", lambda: (lambda v, e, l: {"v": list(v), "e": [[a, b, l.get((a, b))] for a, b in e]})(*c.get_graph()))
    safe("subgraphs", lambda: sorted(sorted(str(s) for s in sub) for sub in c.get_subgraphs()))
    # get_graph_components(): default = 'anticommutator' = the same components; anything else but 'commutator' is refused
    safe("acomps_default", lambda: sorted(sorted(str(s) for s in sub) for sub in c.get_graph_components()))
    safe("acomps_named", lambda: sorted(sorted(str(s) for s in sub) for sub in c.get_graph_components("anticommutator")))
    safe("comps_bad_type", lambda: c.get_graph_components("anticommutation") and "accepted")
    safe("pair", lambda: c.get_pair())
    safe("apair", lambda: c.get_anticommutation_pair())
    safe("fraction", lambda: c.get_anticommutation_fraction())
    if case.get("cgraph"):
        safe("cgraph", lambda: (lambda v, e: {"nv": len(v), "v_head": list(v)[:5], "e": sorted(sorted([a, b]) for a, b in e)})(*c.get_commutator_graph()))
        safe("ccomps", lambda: sorted(sorted(str(s) for s in comp) for comp in c.get_graph_components("commutator")))
        safe("charges", lambda: [str(s) for s in non_commuting_charges(c)])
    return out


def main():
    ck = Check("C14")
    if ck.replay:
        rp = json.load(open(ck.replay)); ck.build()
        print(json.dumps(ck.impl("c14", [{"gens": rp["gens"], "cgraph": rp["n"] <= 4}])[0])[:3000])
        return
    if not ck.build():
        ck.finish()
    ck.check_props()
    ck.check_translation("apps")
    cases = []
    for n in (1, 2):
        S = all_pstr(n)
        for k in (1, 2):
            for c in itertools.combinations_with_replacement(S, k):
                cases.append((n, list(c)))
    cases += [(n, g) for _, n, g in G.collections(ck.rng, 300 if ck.quick else 3000, 2, 4)]
    cases += [(n, g) for _, n, g in G.collections(ck.rng, 6 if ck.quick else 60, 5, 5)]
    cases += [(n, g[:4]) for _, n, g in G.collections(ck.rng, 0 if ck.quick else 2, 6, 6)]
    # mixed lengths: the constructor pads
    for _ in range(40):
        n = ck.rng.randint(2, 4)
        cases.append((n, [G.uniform(ck.rng, ck.rng.randint(1, n)) for _ in range(ck.rng.randint(1, 4))] + [G.uniform(ck.rng, n)]))
    jobs = [{"gens": g, "cgraph": True, "n": n} for n, g in cases]
    res = ck.impl("c14", jobs, per_case_s=300)
    padded = [[s + "I" * (n - len(s)) for s in g] for n, g in cases]
    req = []
    for (n, g), p in zip(cases, padded):
        gs = " ".join(p)
        req += ["commutants %d %s" % (n, gs), "agraph " + gs, "acomps " + gs, "cgraph %d %s" % (n, gs), "ccomps %d %s" % (n, gs), "charges %d %s" % (n, gs)]
    ans = ck.oracle(req, procs=8)
    nt = set()
    stats = {"edges_total": 0}
    for i, ((n, g), p, r) in enumerate(zip(cases, padded, res)):
        com, ag, ac, cg, cc, ch = ans[6 * i:6 * i + 6]
        if "exc" in r:
            ck.fail(None, "graph queries raised %s on %s" % (r["exc"], g), {"n": n, "gens": g, "result": r}); continue
        bad = []
        if r["strings"] != p:
            bad.append("collection holds %s, expected %s" % (r["strings"], p))
        want_com = com.split()
        if r["commutants"] != want_com:
            bad.append("commutants: implementation %d strings, exact set has %d" % (len(r["commutants"]) if isinstance(r["commutants"], list) else -1, len(want_com)))
        want_edges = [e.split(":") for e in ag.split()]
        if not isinstance(r["agraph"], dict) or r["agraph"]["v"] != p or r["agraph"]["e"] != want_edges:
            bad.append("anticommutation graph: implementation %s, model edges %s" % (r["agraph"], want_edges))
        want_sub = sorted(sorted(c.split()) for c in ac.split(";") if c)
        if r["subgraphs"] != want_sub:
            bad.append("components: implementation %s, model %s" % (r["subgraphs"], want_sub))
        if p and (r.get("acomps_default") != want_sub or r.get("acomps_named") != want_sub):
            bad.append("get_graph_components() / ('anticommutator'): %s / %s, components of the anticommutation graph %s" % (r.get("acomps_default"), r.get("acomps_named"), want_sub))
        if p and r.get("comps_bad_type") != "!ValueError":
            bad.append("get_graph_components('anticommutation') is not refused: %s" % r.get("comps_bad_type"))
        m = len(p)
        if r["pair"] != m * (m - 1) // 2 or r["apair"] != len(want_edges):
            bad.append("pair counts: %s / %s, expected %d / %d" % (r["pair"], r["apair"], m * (m - 1) // 2, len(want_edges)))
        if m >= 2:
            if not isinstance(r["fraction"], float) or abs(r["fraction"] - len(want_edges) / (m * (m - 1) // 2)) > 1e-12:
                bad.append("anticommuting fraction %s, expected %d/%d" % (r["fraction"], len(want_edges), m * (m - 1) // 2))
        cgt = cg.split()
        want_ce = sorted(sorted(e.split(":")) for e in cgt[1:])
        if not isinstance(r["cgraph"], dict) or r["cgraph"]["nv"] != int(cgt[0]) or r["cgraph"]["e"] != want_ce:
            bad.append("commutator graph: implementation %s vertices / %s edges, model %s / %d" % (
                r["cgraph"].get("nv") if isinstance(r["cgraph"], dict) else r["cgraph"], len(r["cgraph"]["e"]) if isinstance(r["cgraph"], dict) else "?", cgt[0], len(want_ce)))
        want_cc = sorted(sorted(c.split()) for c in cc.split(";") if c)
        if r["ccomps"] != want_cc:
            bad.append("commutator-graph components differ (%s vs %d classes)" % (len(r["ccomps"]) if isinstance(r["ccomps"], list) else r["ccomps"], len(want_cc)))
        if r["charges"] != ch.split():
            bad.append("non-commuting charges: implementation %s, model %s" % (r["charges"], ch.split()))
        stats["edges_total"] += len(want_edges)
        if want_edges and len(want_sub) >= 1 and len(set(p)) >= 2:
            nt.add((n, tuple(p)))
        if bad:
            ck.fail(None, "n=%d G=%s: %s" % (n, g, "; ".join(bad)[:600]), {"n": n, "gens": g, "differences": bad})
    # long strings (6..70 qubits, past every machine-word boundary of the bit-level representation): only the queries that
    # do not enumerate 4^n strings (anticommutation graph, its components, pair counts, fraction)
    big = [(n, g) for _, n, g in G.collections(ck.rng, 40 if ck.quick else 400, 6, 16)]
    for _ in range(40 if ck.quick else 400):
        n = ck.rng.choice([17, 31, 32, 33, 40, 63, 64, 65, 70])
        big.append((n, [G.uniform(ck.rng, n) if ck.rng.random() < 0.5 else "".join(ck.rng.choice("IIIIIIXYZ") for _ in range(n)) for _ in range(ck.rng.randint(2, 7))]))
    bres = ck.impl("c14", [{"gens": g, "light": True, "n": n} for n, g in big], per_case_s=120)
    breq = []
    for n, g in big:
        gs = " ".join(g)
        breq += ["agraph " + gs, "acomps " + gs]
    bans = ck.oracle(breq, procs=8)
    for i, ((n, g), r) in enumerate(zip(big, bres)):
        ag, ac = bans[2 * i:2 * i + 2]
        if "exc" in r:
            ck.fail(None, "graph queries raised %s on %s" % (r["exc"], g), {"n": n, "gens": g, "result": r}); continue
        p = list(g)
        bad = []
        want_edges = [e.split(":") for e in ag.split()]
        if not isinstance(r["agraph"], dict) or r["agraph"]["v"] != r["strings"] or sorted(map(tuple, r["agraph"]["e"])) != sorted(map(tuple, want_edges)):
            bad.append("anticommutation graph: implementation %s edges, model %s" % (len(r["agraph"]["e"]) if isinstance(r["agraph"], dict) else r["agraph"], len(want_edges)))
        want_sub = sorted(sorted(c.split()) for c in ac.split(";") if c)
        if r["subgraphs"] != want_sub:
            bad.append("components: implementation %s, model %s" % (r["subgraphs"], want_sub))
        m = len(r["strings"])
        if r["pair"] != m * (m - 1) // 2 or r["apair"] != len(want_edges):
            bad.append("pair counts: %s / %s, expected %d / %d" % (r["pair"], r["apair"], m * (m - 1) // 2, len(want_edges)))
        if bad:
            ck.fail(None, "n=%d G=%s: %s" % (n, g, "; ".join(bad)[:600]), {"n": n, "gens": g, "differences": bad, "light": True})
    stats["long_string_cases"] = len(big)
    # the same collection object queried, edited in place and queried again
    hist = []
    for _ in range(120 if ck.quick else 1200):
        n = ck.rng.randint(1, 3)
        g = [G.uniform(ck.rng, n) for _ in range(ck.rng.randint(1, 3))]
        steps = [["query"]]
        cur = list(dict.fromkeys(g))
        for _ in range(ck.rng.randint(1, 3)):
            r = ck.rng.random()
            if r < 0.35 or len(cur) < 2:
                x = G.uniform(ck.rng, n); steps.append(["append", x])
                if x not in cur:
                    cur.append(x)
            elif r < 0.5:
                x = ck.rng.choice(cur); steps.append(["remove", x]); cur.remove(x)
            elif r < 0.7:
                x = ck.rng.choice(cur); y = G.uniform(ck.rng, n); steps.append(["replace", x, y]); cur[cur.index(x)] = y
            elif r < 0.85:
                pairs = [(a, b) for a in cur for b in cur if a != b and G.anti(a, b)]
                if pairs:
                    a, b = ck.rng.choice(pairs); steps.append(["contract", a, b]); cur[cur.index(a)] = G.mul(a, b)
            elif r < 0.93:
                x = G.uniform(ck.rng, n)
                if x not in cur:
                    steps.append(["insert", 0, x]); cur.insert(0, x)
            else:
                steps.append(["del", 0]); cur.pop(0)
        hist.append({"op": "history", "gens": g, "steps": steps, "n": n})
    hres = ck.impl("c14", hist, per_case_s=300)
    hreq, hmap = [], []
    for hi, (c, r) in enumerate(zip(hist, hres)):
        for si, st in enumerate(r.get("steps", [])):
            if st["strings"]:
                gs = " ".join(st["strings"])
                hreq += ["commutants %d %s" % (c["n"], gs), "agraph " + gs, "acomps " + gs, "cgraph %d %s" % (c["n"], gs)]
                hmap.append((hi, si))
    hans = ck.oracle(hreq, procs=8)
    for k, (hi, si) in enumerate(hmap):
        c, st = hist[hi], hres[hi]["steps"][si]
        com, ag, ac, cg = hans[4 * k:4 * k + 4]
        bad = []
        if "exc" in st:
            bad.append("raised " + st["exc"])
        else:
            if st["commutants"] != com.split():
                bad.append("commutants answered for other strings than the collection now holds (%d vs %d)" % (len(st["commutants"]), len(com.split())))
            if st["edges"] != [e.split(":") for e in ag.split()]:
                bad.append("anticommutation graph edges %s, model %s" % (st["edges"], ag))
            if st["subgraphs"] != sorted(sorted(x.split()) for x in ac.split(";") if x):
                bad.append("components differ")
            if st["apair"] != len(ag.split()):
                bad.append("anticommuting pair count %s" % st["apair"])
            if st["cedges"] != sorted(sorted(e.split(":")) for e in cg.split()[1:]):
                bad.append("commutator graph edges differ")
        if bad:
            ck.fail(None, "after in-place edits %s of one collection (now %s): %s" % (c["steps"][:si + 1], st["strings"], "; ".join(bad)), {"n": c["n"], "gens": c["gens"], "steps": c["steps"][:si + 1], "differences": bad})
    ck.cov["evaluations"] = len(cases) + len(hmap)
    ck.cov["distinct_nontrivial"] = len(nt)
    ck.cov["rule"] = ("every multiset of <=2 generators at n<=2, structured/uniform collections n<=4 (5 in thorough), mixed lengths; commutants, anticommutation graph (vertices, ordered edges, labels), "
                      "components (as sets of sets), pair counts and fraction, commutator graph (4^n vertices, unordered edge set), its components, non-commuting charges vs Model/Graph.v; "
                      "non-trivial = at least two distinct members and one edge")
    ck.cov["samples"] = [list(c) for c in cases[100:103]]
    ck.cov["distribution"] = stats
    ck.cov["exhaustive"] = True
    ck.cov["traces_validated_against_impl"] = len(cases)
    ck.finish(assumptions=["networkx connected_components is replaced in the model by a verified components function and compared as a partition"])


if __name__ == "__main__":
    run_check("C14", main)
