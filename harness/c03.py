"""C03 — classification is invariant under re-presentations of the same algebra, repetition, processes, hash seeds."""
import json
from harness.common import Check
from harness import gens as G
from harness import lie
from harness.c01 import signature


def impl(case):
    from harness import cls
    out, c, _ = cls.classify(case["gens"], routes=case.get("routes"), trace=True)
    # repetition inside one process: same object, fresh classify(), fresh object
    again = [c.get_algebra(), c.classify().get_algebra(), cls.classify(case["gens"])[0]["algebra"]]
    out["again"] = again
    out["is_own"] = bool(c.is_algebra(out["algebra"]))
    return {"algebra": out["algebra"], "again": again, "is_own": out["is_own"], "morphs": out["morphs"], "attach_sites": out.get("attach_sites")}


XYZ_PERMS = [dict(zip("IXYZ", "I" + "".join(p))) for p in (("X", "Y", "Z"), ("X", "Z", "Y"), ("Y", "X", "Z"), ("Y", "Z", "X"), ("Z", "X", "Y"), ("Z", "Y", "X"))]


def transforms(rng, n, g):
    """-> list of (name, n', generators)"""
    out = []
    h = list(g); rng.shuffle(h)
    out.append(("reorder", n, h))
    out.append(("duplicate", n, g + [rng.choice(g) for _ in range(rng.randint(1, 3))]))
    perm = list(range(n)); rng.shuffle(perm)
    out.append(("permute-qubits", n, ["".join(s[perm[i]] for i in range(n)) for s in g]))
    rel = [rng.choice(XYZ_PERMS) for _ in range(n)]
    out.append(("relabel", n, ["".join(rel[i][ch] for i, ch in enumerate(s)) for s in g]))
    k = rng.randint(1, 3)
    if n + k <= 16:
        out.append(("append-identity", n + k, [s + "I" * k for s in g]))
    pairs = [(a, b) for a in set(g) for b in set(g) if a < b and G.anti(a, b)]
    if pairs:
        a, b = rng.choice(pairs)
        ab = G.mul(a, b)
        out.append(("contract", n, [ab if s == a else s for s in g]))
        out.append(("add-product", n, g + [ab]))
    return out


def norm(alg):
    try:
        c, ms = lie.name_multiset(alg)
        return (c, tuple(sorted(ms.items())))
    except lie.BadName as e:
        return ("bad", str(e))


def main():
    ck = Check("C03")
    if ck.replay:
        rp = json.load(open(ck.replay)); ck.build()
        res = ck.impl("c03", [{"gens": rp["gens"]}, dict({"gens": rp["transformed"]}, **({"routes": rp["routes"]} if rp.get("routes") else {}))])
        print(rp["transformation"], "| base:", res[0].get("algebra"), "| transformed:", res[1].get("algebra"))
        return
    if not ck.build():
        ck.finish()
    ck.check_props()
    ck.check_translation()
    base = G.collections(ck.rng, 250 if ck.quick else 1500, 2, 6) + G.collections(ck.rng, 250 if ck.quick else 3000, 7, 12) + \
        G.collections(ck.rng, 60 if ck.quick else 1500, 13, 16)
    base.append(("star", 5, ["XIIII", "ZIIII", "ZZIII", "ZIZII", "ZIIZI", "ZIIIZ", "ZZZZZ"]))
    # recorded witness of the known finding as presentation dependence (8*sp(4) or 2*sp(8) depending on the qubit order)
    base.append(("witness", 5, ["ZZIZY", "XIXIY", "ZZXYI", "YXIZZ", "XYXXY", "YIYZX", "ZXIYY", "XYXXX", "XIZII", "ZYXII"]))
    jobs = []   # (base index, transformation name, n, gens)
    for i, (kind, n, g) in enumerate(base):
        jobs.append((i, "identity", n, g))
        for name, n2, g2 in transforms(ck.rng, n, g):
            jobs.append((i, name, n2, g2))
    # the same strings held as objects reached through other public routes (edited in place after use, inc, copies),
    # the collection itself filled by append/insert: still the same algebra
    from harness.cls import STRING_ROUTES
    routes = {}
    for i, (kind, n, g) in enumerate(base):
        if n <= 12:
            for tag in ("objects", "objects-built"):
                routes[len(jobs)] = [ck.rng.choice(STRING_ROUTES[2:]) for _ in range(3)] + (["@build"] if tag == "objects-built" else [])
                jobs.append((i, tag, n, g))
    res = ck.impl("c03", [dict({"gens": g}, **({"routes": routes[j]} if j in routes else {})) for j, (_, _, _, g) in enumerate(jobs)], per_case_s=180)
    # the true algebra is invariant (Coq: C03_*); for n<=6 the oracle confirms it on these very inputs
    small = [j for j, (i, name, n, g) in enumerate(jobs) if n <= 6]
    inv = dict(zip(small, ck.oracle(["lieinv %d %s" % (jobs[j][2], " ".join(jobs[j][3])) for j in small])))
    base_res = {}
    tcount = {}
    nt = set()
    for j, ((i, name, n, g), r) in enumerate(zip(jobs, res)):
        if name == "identity":
            base_res[i] = (j, r)
    for j, ((i, name, n, g), r) in enumerate(zip(jobs, res)):
        j0, r0 = base_res[i]
        _, n0, g0 = base[i]
        tcount[name] = tcount.get(name, 0) + 1
        if "exc" in r:
            ck.fail(None, "classification raised %s on %s (%s of %s)" % (r["exc"], g, name, g0), {"gens": g0, "transformation": name, "transformed": g, "result": r}); continue
        # repetition in one process
        if any(norm(a) != norm(r["algebra"]) for a in r["again"]):
            ck.fail(None, "repeated calls disagree on %s: %s then %s" % (g, r["algebra"], r["again"]), {"gens": g, "transformation": "repeat", "transformed": g, "answers": [r["algebra"]] + r["again"]})
        if not r["is_own"]:
            ck.fail(None, "is_algebra rejects the collection's own name %s on %s" % (r["algebra"], g), {"gens": g, "transformation": "is_algebra(own)", "transformed": g})
        if name == "identity" or "exc" in r0:
            continue
        if j in inv and j0 in inv:
            a, b = lie.parse_lieinv(inv[j]), lie.parse_lieinv(inv[j0])
            if a != b:
                ck.correspondence_broken("harness transformation %s is not algebra-preserving on %s -> %s (oracle %s vs %s)" % (name, g0, g, inv[j0], inv[j]), {"gens": g0, "transformed": g, "transformation": name})
                continue
        if len(set(g0)) > 1 and r0["algebra"].count("u(1)") == 0:
            nt.add((name, tuple(g)))
        if norm(r["algebra"]) != norm(r0["algebra"]):
            key = signature(r["morphs"], r.get("attach_sites")) or signature(r0["morphs"], r0.get("attach_sites"))
            ck.fail(key, "%s changes the reported algebra: %s -> %s on %s -> %s" % (name, r0["algebra"], r["algebra"], g0, g),
                    {"n": n0, "gens": g0, "transformation": name, "transformed": g, "routes": routes.get(j), "base_answer": r0["algebra"], "transformed_answer": r["algebra"]})
    # processes and hash seeds: fresh worker processes with different PYTHONHASHSEED
    sample = [b for b in base if b[1] <= 12][: (120 if ck.quick else 800)]
    seeds = ["0", "1", "2", "random"]
    by_seed = [ck.impl("c03", [{"gens": g} for _, _, g in sample], env={"PYTHONHASHSEED": s}, per_case_s=180) for s in seeds]
    for idx, (kind, n, g) in enumerate(sample):
        answers = [by_seed[s][idx].get("algebra", "!" + str(by_seed[s][idx].get("exc"))) for s in range(len(seeds))]
        if len({norm(a) for a in answers}) != 1:
            ck.fail(None, "answer depends on the process / hash seed: %s on %s" % (dict(zip(seeds, answers)), g), {"gens": g, "transformation": "hash-seed", "transformed": g, "answers": dict(zip(seeds, answers))})
    byn = {}
    for _, n, _g in base:
        byn[n] = byn.get(n, 0) + 1
    ck.cov["evaluations"] = len(jobs) + len(sample) * len(seeds)
    ck.cov["distinct_nontrivial"] = len(nt)
    ck.cov["rule"] = ("base collections n=2..16, each with reorder, duplicate, qubit permutation, per-site X/Y/Z relabelling, appended identities, "
                      "contraction and added product; summand multisets (normalised under the low-rank coincidences) compared with the base answer; "
                      "3 repeated calls per case; %d cases re-run under PYTHONHASHSEED in {0,1,2,random}; non-trivial = non-abelian base with >=2 distinct strings" % len(sample))
    ck.cov["samples"] = [[jobs[k][1], jobs[k][3]] for k in range(0, len(jobs), max(1, len(jobs) // 6))][:6]
    ck.cov["distribution"] = {"by_n": byn, "transformations": tcount}
    ck.cov["traces_validated_against_impl"] = len(jobs)
    ck.finish(assumptions=["the implementation's answers are compared with each other; agreement with the true algebra is C01"])


if __name__ == "__main__":
    from harness.common import run_check
    run_check("C03", main)
