"""C03 — classification is invariant under re-presentations of the same algebra, repetition, processes, hash seeds."""
import json
from harness.common import Check
from harness import gens as G
from harness import lie
from harness.c01 import signature


def impl(case):
    if case.get("op") == "queue":
        from paulie import get_pauli_string
        from paulie.classifier.morph_factory import MorphFactory
        out = []
        for g in case["items"]:
            try:
                out.append(["ok", [str(x) for x in MorphFactory()._get_queue(list(get_pauli_string(g)))]])
            except Exception as e:  # noqa
                out.append(["exc", type(e).__name__])
        return {"res": out}
    if case.get("op") == "after_noise":
        # the same collection classified before and after unrelated work in the same process: other collections classified and queried
        # (membership queries run the reduction in check mode); the answer must not depend on what the process did before
        from paulie import get_pauli_string
        def alg(g):
            try:
                return get_pauli_string(g).get_algebra()
            except Exception as e:  # noqa
                return "!" + type(e).__name__
        before = alg(case["gens"])
        for nz in case["noise"]:
            try:
                c = get_pauli_string(nz["gens"])
                c.get_algebra()
                for q, pr in nz["probes"]:
                    x = get_pauli_string([pr])
                    try:
                        {"is_in": c.is_in, "select_dependents": c.select_dependents, "is_eq": c.is_eq}[q](x)
                    except Exception:  # noqa
                        pass
            except Exception:  # noqa
                pass
        return {"before": before, "after": alg(case["gens"]), "fresh_object_again": alg(list(case["gens"]))}
    if case.get("op") == "depcheck":
        from paulie import get_pauli_string
        from paulie.classifier.morph_factory import MorphFactory
        out = []
        for legs, lighting in case["items"]:
            m = MorphFactory()
            m.legs = [list(get_pauli_string(leg)) for leg in legs]
            try:
                m.check_dependency_one_leg(get_pauli_string(lighting))
                out.append("pass")
            except Exception as e:  # noqa
                out.append(type(e).__name__)
        return {"res": out}
    if case.get("op") == "legsop":
        from paulie import get_pauli_string
        from paulie.classifier.morph_factory import MorphFactory
        out = []
        for legs, op, args in case["items"]:
            m = MorphFactory()
            m.legs = [list(get_pauli_string(leg)) for leg in legs]
            try:
                a = [get_pauli_string(x) for x in args]
                if op == "find":
                    out.append(["ret", list(m.find(a[0]))])
                elif op == "lit":
                    out.append(["str", str(m.lit(a[0], a[1]))])
                elif op == "get_lits":
                    out.append(["strs", [str(x) for x in m.get_lits(a[0])]])
                elif op == "get_pq":
                    r = m.get_pq(a[0])
                    out.append(["pq", None if r[0] is None else [str(r[0]), str(r[1])]])
                else:
                    getattr(m, op)(*a)
                    out.append(["legs", [[str(x) for x in leg] for leg in m.legs]])
            except Exception as e:  # noqa
                out.append(["exc", type(e).__name__])
        return {"res": out}
    from harness import cls
    out, c, _ = cls.classify(case["gens"], routes=case.get("routes"), trace=True)
    # repetition inside one process: same object, fresh classify(), fresh object
    again = [c.get_algebra(), c.classify().get_algebra(), cls.classify(case["gens"])[0]["algebra"]]
    out["again"] = again
    out["is_own"] = bool(c.is_algebra(out["algebra"]))
    return {"algebra": out["algebra"], "again": again, "is_own": out["is_own"], "morphs": out["morphs"], "attach_sites": out.get("attach_sites")}


XYZ_PERMS = [dict(zip("IXYZ", "I" + "".join(p))) for p in (("X", "Y", "Z"), ("X", "Z", "Y"), ("Y", "X", "Z"), ("Y", "Z", "X"), ("Z", "X", "Y"), ("Z", "Y", "X"))]


def transforms(rng, n, g):
    """-> list of (name, n', generators)"""
    out = []
    h = list(g); rng.shuffle(h)
    out.append(("reorder", n, h))
    out.append(("duplicate", n, g + [rng.choice(g) for _ in range(rng.randint(1, 3))]))
    perm = list(range(n)); rng.shuffle(perm)
    out.append(("permute-qubits", n, ["".join(s[perm[i]] for i in range(n)) for s in g]))
    rel = [rng.choice(XYZ_PERMS) for _ in range(n)]
    out.append(("relabel", n, ["".join(rel[i][ch] for i, ch in enumerate(s)) for s in g]))
    k = rng.randint(1, 3)
    if n + k <= 16:
        out.append(("append-identity", n + k, [s + "I" * k for s in g]))
    pairs = [(a, b) for a in set(g) for b in set(g) if a < b and G.anti(a, b)]
    if pairs:
        a, b = rng.choice(pairs)
        ab = G.mul(a, b)
        out.append(("contract", n, [ab if s == a else s for s in g]))
        out.append(("add-product", n, g + [ab]))
    return out


def norm(alg):
    try:
        c, ms = lie.name_multiset(alg)
        return (c, tuple(sorted(ms.items())))
    except lie.BadName as e:
        return ("bad", str(e))


def connected_components(g):
    g = sorted(set(g))
    seen, comps = set(), []
    for s0 in g:
        if s0 in seen:
            continue
        comp, todo = [], [s0]
        seen.add(s0)
        while todo:
            x = todo.pop()
            comp.append(x)
            for y in g:
                if y not in seen and G.anti(x, y):
                    seen.add(y); todo.append(y)
        comps.append(comp)
    return comps


def validate_queue_translation(ck, base, count):
    """the generated Gallina of MorphFactory._get_queue (.work/gen_C03_queue/QueueGen.v, written by check_translation in this run), evaluated by
    vm_compute on connected components (distinct strings, shuffled), must return the order the implementation's _get_queue returns"""
    import os, re, subprocess
    from harness.common import WORK, VERIF
    from harness.comp import coq_pstr
    gen = os.path.join(WORK, "gen_%s_queue" % ck.pid)
    if not os.path.exists(os.path.join(gen, "QueueGen.vo")):
        return None
    items = []
    for kind, n, g in base:
        for comp in connected_components(g):
            if 2 <= len(comp) <= 14 and len(items) < count:
                comp = list(comp); ck.rng.shuffle(comp)
                items.append(comp)
    res = [r for rr in ck.impl("c03", [{"op": "queue", "items": items[i:i + 50]} for i in range(0, len(items), 50)], per_case_s=120) for r in rr["res"]]
    lines, kept = [], []
    for g, r in zip(items, res):
        if r[0] != "ok":
            continue
        lines.append("Definition c%d : bool := same (py_Q__get_queue %d [%s]) [%s]." % (len(kept), len(g) + 4, ";".join(coq_pstr(x) for x in g), ";".join(coq_pstr(x) for x in r[1])))
        kept.append((g, r[1]))
    src = ["From PauLieRefine Require Import PySem.", "From PauLie Require Import Pauli Collection.", "From PauLieGen Require Import QueueGen.", "Open Scope Z_scope.",
           "Fixpoint lps_eqb (a b : list pstr) : bool := match a, b with [], [] => true | x :: a', y :: b' => pstr_eqb x y && lps_eqb a' b' | _, _ => false end.",
           "Definition same (r : fres (list pstr)) (e : list pstr) : bool := match r with FRet a => lps_eqb a e | _ => false end."]
    # check_dependency_one_leg on arbitrary leg lists (the function asks nothing of their shape): random legs, lightings that are products of vertices
    ditems = []
    for _ in range(count):
        n = ck.rng.randint(2, 5)
        legs = [[G.uniform(ck.rng, n)]] + [[G.uniform(ck.rng, n) for _ in range(1 if ck.rng.random() < 0.8 else ck.rng.randint(2, 3))] for _ in range(ck.rng.randint(0, 6))]
        legs[1:] = sorted(legs[1:], key=len) if ck.rng.random() < 0.8 else legs[1:]
        verts = [v for leg in legs for v in leg]
        lighting = "I" * n
        for v in ck.rng.sample(verts, min(len(verts), ck.rng.choice([1, 2, 3, 3, 4, 5]))):
            lighting = G.mul(lighting, v)
        if ck.rng.random() < 0.2:
            lighting = G.uniform(ck.rng, n)
        ditems.append([legs, lighting])
    dres = [r for rr in ck.impl("c03", [{"op": "depcheck", "items": ditems[i:i + 100]} for i in range(0, len(ditems), 100)], per_case_s=120) for r in rr["res"]]
    dkinds = {}
    for (legs, lighting), r in zip(ditems, dres):
        dkinds[r] = dkinds.get(r, 0) + 1
        exp = "FRet tt" if r == "pass" else 'FRaised (EUser "%s"%%string)' % r
        lines.append("Definition c%d : bool := sameu (py_Q_check_dependency_one_leg [%s] %s) (%s)." % (len(kept), ";".join("[" + ";".join(coq_pstr(x) for x in leg) + "]" for leg in legs), coq_pstr(lighting), exp))
        kept.append((["check_dependency_one_leg", legs, lighting], r))
    # find / append / remove / replace on arbitrary leg lists (mostly sorted by length as the pipeline keeps them, vertices distinct or not)
    litems = []
    for _ in range(count):
        n = ck.rng.randint(2, 4)
        pool = [G.uniform(ck.rng, n) for _ in range(12)]
        legs = [[ck.rng.choice(pool)]] + [[ck.rng.choice(pool) for _ in range(ck.rng.choice([1, 1, 1, 2, 2, 3, 4]))] for _ in range(ck.rng.randint(0, 5))]
        legs[1:] = sorted(legs[1:], key=len) if ck.rng.random() < 0.8 else legs[1:]
        verts = [v for leg in legs for v in leg]
        op = ck.rng.choice(["find", "append", "append", "remove", "remove", "replace", "lit", "get_lits", "get_pq", "get_pq"])
        tgt = ck.rng.choice([leg[-1] for leg in legs] + verts) if ck.rng.random() < 0.9 else G.uniform(ck.rng, n)
        args = [tgt] if op in ("find", "remove") else ([G.uniform(ck.rng, n), tgt] if op == "append" else [tgt, G.uniform(ck.rng, n)])
        if op in ("get_lits", "get_pq"):
            args = [G.uniform(ck.rng, n)]
        if op == "lit":
            args = [G.mul(ck.rng.choice(verts), tgt) if ck.rng.random() < 0.4 else G.uniform(ck.rng, n), tgt]
        litems.append([legs, op, args])
    lres = [r for rr in ck.impl("c03", [{"op": "legsop", "items": litems[i:i + 100]} for i in range(0, len(litems), 100)], per_case_s=120) for r in rr["res"]]
    lkinds = {}
    coq_legs = lambda L: "[" + ";".join("[" + ";".join(coq_pstr(x) for x in leg) + "]" for leg in L) + "]"
    for (legs, op, args), r in zip(litems, lres):
        lkinds[op + ":" + (r[1] if r[0] == "exc" else "ok")] = lkinds.get(op + ":" + (r[1] if r[0] == "exc" else "ok"), 0) + 1
        call = {"find": "py_Q_find %s %s", "append": "py_Q_append %s false %s %s", "remove": "py_Q_remove %s %s", "replace": "py_Q_replace %s %s %s", "lit": "py_Q_lit %s %s %s",
                "get_lits": "py_Q_get_lits %s %s None", "get_pq": "py_Q_get_pq %s %s"}[op] % tuple([coq_legs(legs)] + [coq_pstr(a) for a in args])
        if r[0] == "exc":
            lines.append('Definition c%d : bool := match %s with FRaised e_ => exn_eqb e_ (EUser "%s"%%string) | _ => false end.' % (len(kept), call, r[1]))
        elif op == "find":
            lines.append("Definition c%d : bool := match %s with FRet (a_, b_) => (a_ =? %d) && (b_ =? %d) | _ => false end." % (len(kept), call, r[1][0], r[1][1]))
        elif op == "lit":
            lines.append("Definition c%d : bool := match %s with FRet a_ => pstr_eqb a_ %s | _ => false end." % (len(kept), call, coq_pstr(r[1])))
        elif op == "get_lits":
            lines.append("Definition c%d : bool := match %s with FRet a_ => lps_eqb a_ [%s] | _ => false end." % (len(kept), call, ";".join(coq_pstr(x) for x in r[1])))
        elif op == "get_pq":
            if r[1] is None:
                lines.append("Definition c%d : bool := match %s with FNone => true | _ => false end." % (len(kept), call))
            else:
                lines.append("Definition c%d : bool := match %s with FRet (a_, b_) => pstr_eqb a_ %s && pstr_eqb b_ %s | _ => false end." % (len(kept), call, coq_pstr(r[1][0]), coq_pstr(r[1][1])))
        else:
            lines.append("Definition c%d : bool := match %s with FRet l_ => legs_eqb l_ %s | _ => false end." % (len(kept), call, coq_legs(r[1])))
        kept.append((["check_dependency_one_leg", legs, [op] + args], r))
    src.append("Fixpoint legs_eqb (a b : list (list pstr)) : bool := match a, b with [], [] => true | x :: a', y :: b' => lps_eqb x y && legs_eqb a' b' | _, _ => false end.")
    src.append("Definition exn_eqb (a b : exn) : bool := match a, b with EUser x, EUser y => String.eqb x y | EZeroDivision, EZeroDivision | EKey, EKey | EType, EType | EIndex, EIndex => true | _, _ => false end.")
    src.append("Definition sameu (r e : fres unit) : bool := match r, e with FRet _, FRet _ => true | FRaised a, FRaised b => exn_eqb a b | _, _ => false end.")
    src += lines
    src.append("Definition all_ := [%s]." % "; ".join("c%d" % i for i in range(len(kept))))
    src.append("Eval vm_compute in all_.")
    path = os.path.join(gen, "RunCases.v")
    open(path, "w").write("\n".join(src) + "\n")
    q = "-Q Model PauLie -Q Theory PauLie -Q Refine PauLieRefine -Q %s PauLieGen -w -notation-overridden,-deprecated" % gen
    r = subprocess.run(["bash", "-c", "ulimit -s unlimited; cd %s/coq && timeout 900 coqc %s %s 2>&1" % (VERIF, q, path)], capture_output=True, text=True)
    m = re.search(r"=\s*\[(.*?)\]\s*:\s*list bool", r.stdout, re.S)
    if r.returncode != 0 or not m:
        return {"cases": len(kept), "error": r.stdout[-600:]}
    vals = [v.strip() for v in m.group(1).replace("\n", " ").split(";")] if m.group(1).strip() else []
    # the theorem's conclusion, observed on the implementation's own queues: a permutation in which every later member anticommutes with an earlier one
    disorder = [g for g, qd in kept if g[0] != "check_dependency_one_leg" and (sorted(qd) != sorted(g) or any(not any(G.anti(qd[i], qd[j]) for j in range(i)) for i in range(1, len(qd))))]
    return {"cases": len(kept), "agree": sum(1 for v in vals if v == "true"), "disagree": [kept[i][0] for i, v in enumerate(vals) if v != "true"],
            "implementation_raised": sum(1 for r in res if r[0] != "ok"), "queue_not_a_connected_order": disorder,
            "check_dependency_outcomes": dkinds, "legs_operations": lkinds,
            "sizes": {str(k): sum(1 for g, _ in kept if g[0] != "check_dependency_one_leg" and len(g) == k) for k in sorted({len(g) for g, _ in kept if g[0] != "check_dependency_one_leg"})}}


def main():
    ck = Check("C03")
    if ck.replay:
        rp = json.load(open(ck.replay)); ck.build()
        res = ck.impl("c03", [{"gens": rp["gens"]}, dict({"gens": rp["transformed"]}, **({"routes": rp["routes"]} if rp.get("routes") else {}))])
        print(rp["transformation"], "| base:", res[0].get("algebra"), "| transformed:", res[1].get("algebra"))
        return
    if not ck.build():
        ck.finish()
    ck.check_props()
    ck.check_translation()
    base = G.collections(ck.rng, 250 if ck.quick else 1500, 2, 6) + G.collections(ck.rng, 250 if ck.quick else 3000, 7, 12) + \
        G.collections(ck.rng, 60 if ck.quick else 1500, 13, 16)
    base.append(("star", 5, ["XIIII", "ZIIII", "ZZIII", "ZIZII", "ZIIZI", "ZIIIZ", "ZZZZZ"]))
    # recorded witness of the known finding as presentation dependence (8*sp(4) or 2*sp(8) depending on the qubit order)
    base.append(("witness", 5, ["ZZIZY", "XIXIY", "ZZXYI", "YXIZZ", "XYXXY", "YIYZX", "ZXIYY", "XYXXX", "XIZII", "ZYXII"]))
    # the work queue of MorphFactory (_get_queue and its helpers), regenerated as Gallina and re-proved (Refine/QueueRefine.v): for a connected
    # component it terminates with a permutation in connected order; the translator is validated by execution against the implementation
    ck.check_translation("queue")
    tv = validate_queue_translation(ck, base, 150 if ck.quick else 1500)
    if tv is not None:
        ck.cov.setdefault("translated_model", {}).setdefault("queue", {})["validated_by_execution"] = {k: v for k, v in tv.items() if k not in ("disagree", "queue_not_a_connected_order")}
        if tv.get("error"):
            ck.obligation_broken("the generated translation of MorphFactory._get_queue could not be evaluated", tv["error"])
        for g in tv.get("disagree", [])[:5]:
            what = ("check_dependency_one_leg(legs=%s, lighting=%s)" % (g[1], g[2])) if g[0] == "check_dependency_one_leg" else "_get_queue(%s)" % g
            ck.correspondence_broken(what + ": the Gallina translation does not do what the implementation does", {"gens": g, "transformation": "queue", "transformed": g})
        for g in tv.get("queue_not_a_connected_order", [])[:5]:
            ck.correspondence_broken("_get_queue(%s): the implementation's queue is not a permutation of the component in connected order (what Refine/QueueRefine.v proves of the source)" % g, {"gens": g, "transformation": "queue", "transformed": g})
    jobs = []   # (base index, transformation name, n, gens)
    for i, (kind, n, g) in enumerate(base):
        jobs.append((i, "identity", n, g))
        for name, n2, g2 in transforms(ck.rng, n, g):
            jobs.append((i, name, n2, g2))
    # the same strings held as objects reached through other public routes (edited in place after use, inc, copies),
    # the collection itself filled by append/insert: still the same algebra
    from harness.cls import STRING_ROUTES
    routes = {}
    for i, (kind, n, g) in enumerate(base):
        if n <= 12:
            for tag in ("objects", "objects-built"):
                routes[len(jobs)] = [ck.rng.choice(STRING_ROUTES[2:]) for _ in range(3)] + (["@build"] if tag == "objects-built" else [])
                jobs.append((i, tag, n, g))
    res = ck.impl("c03", [dict({"gens": g}, **({"routes": routes[j]} if j in routes else {})) for j, (_, _, _, g) in enumerate(jobs)], per_case_s=180)
    # the true algebra is invariant (Coq: C03_*); for n<=6 the oracle confirms it on these very inputs
    small = [j for j, (i, name, n, g) in enumerate(jobs) if n <= 6]
    inv = dict(zip(small, ck.oracle(["lieinv %d %s" % (jobs[j][2], " ".join(jobs[j][3])) for j in small])))
    base_res = {}
    tcount = {}
    nt = set()
    for j, ((i, name, n, g), r) in enumerate(zip(jobs, res)):
        if name == "identity":
            base_res[i] = (j, r)
    for j, ((i, name, n, g), r) in enumerate(zip(jobs, res)):
        j0, r0 = base_res[i]
        _, n0, g0 = base[i]
        tcount[name] = tcount.get(name, 0) + 1
        if "exc" in r:
            ck.fail(None, "classification raised %s on %s (%s of %s)" % (r["exc"], g, name, g0), {"gens": g0, "transformation": name, "transformed": g, "result": r}); continue
        # repetition in one process
        if any(norm(a) != norm(r["algebra"]) for a in r["again"]):
            ck.fail(None, "repeated calls disagree on %s: %s then %s" % (g, r["algebra"], r["again"]), {"gens": g, "transformation": "repeat", "transformed": g, "answers": [r["algebra"]] + r["again"]})
        if not r["is_own"]:
            ck.fail(None, "is_algebra rejects the collection's own name %s on %s" % (r["algebra"], g), {"gens": g, "transformation": "is_algebra(own)", "transformed": g})
        if name == "identity" or "exc" in r0:
            continue
        if j in inv and j0 in inv:
            a, b = lie.parse_lieinv(inv[j]), lie.parse_lieinv(inv[j0])
            if a != b:
                ck.correspondence_broken("harness transformation %s is not algebra-preserving on %s -> %s (oracle %s vs %s)" % (name, g0, g, inv[j0], inv[j]), {"gens": g0, "transformed": g, "transformation": name})
                continue
        if len(set(g0)) > 1 and r0["algebra"].count("u(1)") == 0:
            nt.add((name, tuple(g)))
        if norm(r["algebra"]) != norm(r0["algebra"]):
            key = signature(r["morphs"], r.get("attach_sites")) or signature(r0["morphs"], r0.get("attach_sites"))
            ck.fail(key, "%s changes the reported algebra: %s -> %s on %s -> %s" % (name, r0["algebra"], r["algebra"], g0, g),
                    {"n": n0, "gens": g0, "transformation": name, "transformed": g, "routes": routes.get(j), "base_answer": r0["algebra"], "transformed_answer": r["algebra"]})
    # processes and hash seeds: fresh worker processes with different PYTHONHASHSEED
    sample = [b for b in base if b[1] <= 12][: (120 if ck.quick else 800)]
    seeds = ["0", "1", "2", "random"]
    by_seed = [ck.impl("c03", [{"gens": g} for _, _, g in sample], env={"PYTHONHASHSEED": s}, per_case_s=180) for s in seeds]
    for idx, (kind, n, g) in enumerate(sample):
        answers = [by_seed[s][idx].get("algebra", "!" + str(by_seed[s][idx].get("exc"))) for s in range(len(seeds))]
        if len({norm(a) for a in answers}) != 1:
            ck.fail(None, "answer depends on the process / hash seed: %s on %s" % (dict(zip(seeds, answers)), g), {"gens": g, "transformation": "hash-seed", "transformed": g, "answers": dict(zip(seeds, answers))})
    # "the same across repeated calls": the answer for G before and after unrelated work in the same process — two-local chains (long legs) and
    # random collections of the same and of other lengths are classified and asked membership questions (low-weight and random probes) in between
    noisy = []
    for _ in range(120 if ck.quick else 1200):
        n = ck.rng.randint(3, 6)
        target = [G.uniform(ck.rng, n) for _ in range(ck.rng.randint(1, 4))]
        noise = []
        for _k in range(ck.rng.randint(1, 3)):
            m = n if ck.rng.random() < 0.8 else ck.rng.randint(2, 6)
            if ck.rng.random() < 0.6:
                ng = G.long_chain_cases(ck.rng, 1, m)[0][2]
            else:
                ng = [G.uniform(ck.rng, m) for _ in range(ck.rng.randint(2, 8))]
            probes = []
            for _j in range(ck.rng.randint(2, 8)):
                if ck.rng.random() < 0.6:
                    i = ck.rng.randrange(m)
                    pr = "I" * i + ck.rng.choice("XYZ") + "I" * (m - i - 1)
                else:
                    pr = G.uniform(ck.rng, m)
                probes.append([ck.rng.choice(["is_in", "is_in", "select_dependents", "is_eq"]), pr])
            noise.append({"gens": ng, "probes": probes})
        noisy.append({"op": "after_noise", "gens": target, "noise": noise})
    nres = ck.impl("c03", noisy, per_case_s=300)
    for c, r in zip(noisy, nres):
        if "exc" in r:
            continue
        answers = [r["before"], r["after"], r["fresh_object_again"]]
        if len({norm(a) for a in answers}) != 1:
            ck.fail(None, "answer depends on what the process did before: %s is %s, and %s / %s after unrelated collections were classified and queried (%s)" % (
                c["gens"], r["before"], r["after"], r["fresh_object_again"], [nz["gens"] for nz in c["noise"]]),
                {"gens": c["gens"], "transformation": "process-history", "transformed": c["gens"], "noise": c["noise"], "answers": answers})
    ck.cov["process_history_cases"] = len(noisy)
    byn = {}
    for _, n, _g in base:
        byn[n] = byn.get(n, 0) + 1
    ck.cov["evaluations"] = len(jobs) + len(sample) * len(seeds) + len(noisy)
    ck.cov["distinct_nontrivial"] = len(nt)
    ck.cov["rule"] = ("base collections n=2..16, each with reorder, duplicate, qubit permutation, per-site X/Y/Z relabelling, appended identities, "
                      "contraction and added product; summand multisets (normalised under the low-rank coincidences) compared with the base answer; "
                      "3 repeated calls per case; %d cases re-run under PYTHONHASHSEED in {0,1,2,random}; non-trivial = non-abelian base with >=2 distinct strings" % len(sample))
    ck.cov["samples"] = [[jobs[k][1], jobs[k][3]] for k in range(0, len(jobs), max(1, len(jobs) // 6))][:6]
    ck.cov["distribution"] = {"by_n": byn, "transformations": tcount}
    ck.cov["traces_validated_against_impl"] = len(jobs)
    ck.finish(assumptions=["the implementation's answers are compared with each other; agreement with the true algebra is C01"])


if __name__ == "__main__":
    from harness.common import run_check
    run_check("C03", main)
