"""C17 — text forms, sparse notation and k-local expansion denote the right strings."""
import itertools
import json
from harness.common import Check, all_pstr
from harness import gens as G

ALPHABET = set("IXYZ_s0123456789")


def impl(case):
    from paulie import PauliString, get_pauli_string
    from paulie.common.pauli_string_parser import pauli_string_parser
    if case["op"] == "parse":
        # "parsing always terminates": every text is read under its own watchdog (an interval timer that interrupts a busy loop), so that
        # one text that never returns is reported as such instead of taking its whole batch down
        import signal
        class _TimedOut(BaseException):
            pass
        def _alarm(signum, frame):
            raise _TimedOut()
        signal.signal(signal.SIGALRM, _alarm)
        out = []
        for t in case["texts"]:
            signal.setitimer(signal.ITIMER_REAL, 5.0)
            try:
                out_before = len(out)
                _parse_one(t, out, pauli_string_parser, PauliString, get_pauli_string)
            except _TimedOut:
                del out[out_before:]
                out.append(["timeout"])
            finally:
                signal.setitimer(signal.ITIMER_REAL, 0)
        return {"res": out}
    if case["op"] == "klocal":
        out = []
        for n, gens in case["items"]:
            try:
                c = get_pauli_string(gens, n=n)
                out.append(["ok", [str(p) for p in c]])
            except ValueError:
                out.append(["ValueError"])
            except Exception as e:  # noqa
                out.append(["other", type(e).__name__])
        return {"res": out}
    raise ValueError(case["op"])


def _parse_one(t, out, pauli_string_parser, PauliString, get_pauli_string):
    if True:
        if True:
            try:
                r = pauli_string_parser(t)
                r2 = str(PauliString(pauli_str=t))
                # every entry point that reads a text: the factory with and without a length, the list form
                k = len(r)
                alt = {"PauliString": r2, "get_pauli_string(t)": str(get_pauli_string(t)),
                       "get_pauli_string(t, n+2)": str(get_pauli_string(t, n=k + 2))[:k] + "|" + str(get_pauli_string(t, n=k + 2))[k:],
                       "PauliString(t, n+1)": str(PauliString(pauli_str=t, n=k + 1))[:k] + "|" + str(PauliString(pauli_str=t, n=k + 1))[k:],
                       "get_pauli_string(t, n-1)": str(get_pauli_string(t, n=max(0, k - 1))),
                       "get_pauli_string([t])": "/".join(str(x) for x in get_pauli_string([t]))}
                want = {"PauliString": r, "get_pauli_string(t)": r, "get_pauli_string(t, n+2)": r + "|II", "PauliString(t, n+1)": r + "|I",
                        "get_pauli_string(t, n-1)": r, "get_pauli_string([t])": r}
                bad = sorted(kk for kk in want if alt[kk] != want[kk])
                out.append(["ok", r] if not bad else ["mismatch", r, {kk: alt[kk] for kk in bad}])
            except ValueError:
                try:
                    get_pauli_string(t)
                    out.append(["mismatch", "ValueError", "get_pauli_string accepts it"])
                except ValueError:
                    out.append(["ValueError"])
                except Exception as e:  # noqa
                    out.append(["other", type(e).__name__])
            except Exception as e:  # noqa
                out.append(["other", type(e).__name__])


def hexs(t):
    return t.encode("latin-1").hex() if t else "-"


def render_spec(rng):
    """a well-formed sparse specification -> (text, expected dense string)"""
    k = rng.randint(0, 5)
    pos = sorted(rng.sample(range(1, rng.choice([6, 12, 40, 120])), k)) if k else []
    dense_prefix = G.uniform(rng, rng.randint(0, 3)) if rng.random() < 0.3 else ""
    pos = [p for p in pos if p > len(dense_prefix)]
    letters = [rng.choice("XYZI") for _ in pos]
    last = max(pos + [len(dense_prefix)])
    out = list(dense_prefix) + ["I"] * (last - len(dense_prefix))
    text = dense_prefix
    for p, a in zip(pos, letters):
        num = str(p) if rng.random() < 0.9 else "0" * rng.randint(1, 2) + str(p)
        text += a + "_" + num
        out[p - 1] = a
    if rng.random() < 0.6:
        size = last + rng.randint(0, 5)
        text += "s" + str(size)
        out += ["I"] * (size - last)
    return text, "".join(out)


def main():
    ck = Check("C17")
    if ck.replay:
        rp = json.load(open(ck.replay)); ck.build()
        t = rp["text"]
        print("implementation:", ck.impl("c17", [{"op": "parse", "texts": [t]}])[0])
        if all(ord(ch) < 128 for ch in t):
            print("model:", ck.oracle(["parse 1 " + hexs(t)]))
        return
    if not ck.build():
        ck.finish()
    ck.check_props()
    ck.check_translation("parser")
    ck.check_translation("factory")      # the k-local expansion (two generators sharing a Used object) = Model/Parser.k_local_generators
    rng = ck.rng
    texts = [""]
    A = "IXYZ_s12"
    for L in range(1, 5 if ck.quick else 6):
        texts += ["".join(t) for t in itertools.product(A, repeat=L)]
    # the digit 0 (size 0, position 0, leading zeros) with a smaller letter alphabet
    A0 = "IX_s01"
    for L in range(1, 5 if ck.quick else 6):
        texts += ["".join(t) for t in itertools.product(A0, repeat=L) if "0" in t]
    n_exh = len(texts)
    specs = [render_spec(rng) for _ in range(600 if ck.quick else 6000)]
    texts += [s[0] for s in specs]
    dense = [G.uniform(rng, rng.randint(1, 40)) for _ in range(300 if ck.quick else 3000)]
    texts += dense
    # one out-of-alphabet ASCII character inserted into valid texts
    valid = [s[0] for s in specs[:200]] + dense[:100]
    outside = [chr(c) for c in range(0, 128) if chr(c) not in ALPHABET]
    ins = []
    for v in valid:
        i = rng.randrange(len(v) + 1)
        ins.append(v[:i] + rng.choice(outside) + v[i:])
    ins += ["Xs 5", "Xs+5", "Xs1_0", "X_1s\t3", "Xs5 ", "X_ 1", "X_+1", "Xs-0", "X_1_", "XsS", "xs1", "X_1s1_", "Xs_1", "Xs1__0"]
    texts += ins
    # malformed: random ASCII bytes and non-ASCII (latin-1 range and a few others)
    mal = ["".join(chr(rng.randrange(1, 128)) for _ in range(rng.randint(1, 6))) for _ in range(300 if ck.quick else 3000)]
    texts += mal
    nonascii = ["X_٣", "Xs٣", "Xé", "²", "X_²", "Xs５", "Y_1s٥", "ΙXYZ"] + \
        ["".join(rng.choice("IXYZ_s12") if rng.random() < 0.7 else chr(rng.choice([0xe9, 0xb2, 0x663, 0xff11, 0x96f, 0x2160])) for _ in range(rng.randint(1, 5))) for _ in range(100)]
    nonascii = [t for t in nonascii if any(ord(ch) > 127 for ch in t)]
    B = 500
    res = [r for rr in ck.impl("c17", [{"op": "parse", "texts": texts[i:i + B]} for i in range(0, len(texts), B)], per_case_s=120) for r in rr["res"]]
    res_na = ck.impl("c17", [{"op": "parse", "texts": nonascii}])[0]["res"]
    model = ck.oracle(["parse 1 " + hexs(t) for t in texts])
    stats = {"accepted": 0, "rejected": 0}
    spec_expect = dict(specs)
    nt = set()
    for t, r, m in zip(texts, res, model):
        want = ["ok", "" if m[3:] == "-" else m[3:]] if m.startswith("ok ") else ["ValueError"]
        stats["accepted" if r[0] == "ok" else "rejected"] += 1
        why = None
        if r[0] == "ok":
            if any(ch not in "IXYZ" for ch in r[1]):
                why = "accepted text yields letters outside I, X, Y, Z: %r" % r[1]
            elif any(ch not in ALPHABET for ch in t):
                why = "text with a character outside the notation's alphabet is accepted as %r" % r[1]
            elif t in spec_expect and r[1] != spec_expect[t]:
                why = "sparse notation expands to %r, expected %r" % (r[1], spec_expect[t])
        elif r[0] == "timeout":
            why = "parsing does not terminate (no answer within 5 s; the model of the parser says %r)" % (want,)
        elif r[0] != "ValueError":
            why = "rejected with %s instead of ValueError" % (r[1:],)
        if why is None and r != want:
            why = "implementation %r, model of the parser %r" % (r, want)
        if r[0] == "ok" and ("_" in t or "s" in t):
            nt.add(t)
        if why:
            ck.fail(None, "text %r: %s" % (t, why), {"text": t, "implementation": r, "model": want, "why": why})
    for t, r in zip(nonascii, res_na):
        if r[0] != "ValueError":
            ck.fail(None, "non-ASCII text %r is %s" % (t, r), {"text": t, "implementation": r, "why": "character outside the alphabet not rejected with ValueError"})
    # dense round trip
    for d, r in zip(dense, res[n_exh + len(specs):n_exh + len(specs) + len(dense)]):
        if r != ["ok", d]:
            ck.fail(None, "printing and re-reading %s gives %r" % (d, r), {"text": d, "implementation": r, "why": "round trip"})
    # k-local expansion
    items = []
    small = [p for L in (1, 2) for p in all_pstr(L)]
    for a in small:
        for n in (1, 2, 3, 4):
            items.append([n, [a]])
    for _ in range(500 if ck.quick else 5000):
        k = rng.randint(1, 3)
        items.append([rng.randint(1, 6), [G.uniform(rng, rng.randint(1, 3)) for _ in range(k)]])
    items.append([3, []])
    kr = [r for rr in ck.impl("c17", [{"op": "klocal", "items": items[i:i + 200]} for i in range(0, len(items), 200)]) for r in rr["res"]]
    km = ck.oracle(["klocal %d %s" % (n, " ".join(g)) for n, g in items])
    for (n, g), r, m in zip(items, kr, km):
        want = ["ValueError"] if m == "ValueError" else ["ok", [x for x in m.split() if x != "-"]]
        spec = None
        if g and n >= max(len(x) for x in g):
            mlen = max(len(x) for x in g)
            spec = ["ok", G.translates([x + "I" * (mlen - len(x)) for x in g], n)]
        if r != want or (spec is not None and r != spec):
            ck.fail(None, "k-local expansion of %s to n=%d: implementation %r, expected %r" % (g, n, r, spec or want), {"text": "klocal", "n": n, "gens": g, "implementation": r, "model": want})
    ck.cov["evaluations"] = len(texts) + len(nonascii) + len(items)
    ck.cov["distinct_nontrivial"] = len(nt)
    ck.cov["rule"] = ("all texts of length <=%d over {I,X,Y,Z,_,s,1,2} (%d), well-formed sparse specs with positions up to 120 and leading zeros, dense strings up to length 40, "
                      "one out-of-alphabet ASCII character inserted into valid texts, random ASCII, non-ASCII digits/letters; outcome classes ok/ValueError/other compared with Model/Parser.v "
                      "and judged against the property's clauses; k-local expansion vs model and vs the translate specification; non-trivial = accepted text using sparse notation" % (4 if ck.quick else 5, n_exh))
    ck.cov["samples"] = [specs[0][0], specs[1][0], ins[0], mal[0], items[100]]
    ck.cov["distribution"] = stats
    ck.cov["exhaustive"] = True
    ck.cov["traces_validated_against_impl"] = len(texts)
    ck.finish(assumptions=["non-ASCII input is outside the Coq model; it is only required to be rejected", "positions <= 120 generated (CPython's digit limits are a different question)"])


if __name__ == "__main__":
    from harness.common import run_check
    run_check("C17", main)
