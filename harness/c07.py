"""C07 — the universal set has 2N+1 distinct strings and generates su(2^N)."""
import json
from harness.common import Check, run_check
from harness import lie
from harness.comp import impl  # noqa: F401


def main():
    ck = Check("C07")
    if ck.replay:
        rp = json.load(open(ck.replay)); ck.build()
        print("implementation:", ck.impl("c07", [{"op": "universal", "items": [[rp["N"], rp["k"]]]}])[0], "model:", ck.oracle(["universal %d %d" % (rp["N"], rp["k"])]))
        return
    if not ck.build():
        ck.finish()
    ck.check_props()
    ck.check_translation("compiler")
    Nmax = 16
    items = [[N, k] for N in range(2, Nmax + 1) for k in range(0, N + 2)]
    items += [[N, k] for N in (17, 24, 31, 32, 33, 40, 64, 65) for k in sorted({1, 2, 3, N // 2, N - 2, N - 1, N})]
    res = [r for rr in ck.impl("c07", [{"op": "universal", "items": items[i:i + 40]} for i in range(0, len(items), 40)]) for r in rr["res"]]
    mod = ck.oracle(["universal %d %d" % (N, k) for N, k in items])
    stats = {"sets_compared": len(items), "closures": 0, "classified": 0}
    nt = set()
    tie_broken = 0
    for (N, k), r, m in zip(items, res, mod):
        want = ["ValueError"] if m == "ValueError" else ["ok", m.split()]
        admissible = 2 <= k < N and N >= 3
        if r != want:
            # the tie to Model/Compiler.v is broken; whether the PROPERTY fails is judged below on the implementation's own set
            tie_broken += 1
            if tie_broken <= 2:
                ck.correspondence_broken("construct_universal_set(%d,%d): implementation %r, model %r" % (N, k, r, want), {"N": N, "k": k, "implementation": r, "model": want})
        if admissible:
            if r[0] != "ok":
                ck.fail(None, "construct_universal_set(%d,%d) is %s for an admissible block size" % (N, k, r), {"N": N, "k": k, "implementation": r}); continue
            S = r[1]
            if len(S) != 2 * N + 1 or len(set(S)) != len(S) or any(len(s) != N for s in S) or any(set(s) - set("IXYZ") for s in S):
                ck.fail(None, "universal set (%d,%d) is not 2N+1 distinct strings of length N: %d strings, %d distinct" % (N, k, len(S), len(set(S))), {"N": N, "k": k, "set": S})
    # closure = all non-identity strings
    cmax = 6 if ck.quick else 8
    pairs = [(N, k) for N in range(3, cmax + 1) for k in range(2, N) if dict(zip(map(tuple, items), res))[(N, k)][0] == "ok"]
    cards = ck.oracle(["closure_card %d %s" % (N, " ".join(ck_set)) for (N, k), ck_set in zip(pairs, [dict(zip(map(tuple, items), res))[(N, k)][1] for N, k in pairs])], procs=8)
    for (N, k), c in zip(pairs, cards):
        stats["closures"] += 1
        nt.add((N, k))
        if int(c) != 4 ** N - 1:
            sp_dim = 2 ** (N - 1) * (2 ** N + 1)
            ck.fail("odd-k" if (k % 2 == 1 and int(c) == sp_dim) else None, "closure of the universal set (N=%d,k=%d) has %s of the %d non-identity strings" % (N, k, c, 4 ** N - 1),
                    {"N": N, "k": k, "closure_size": int(c), "expected": 4 ** N - 1})
    # the library's own classifier
    kmax = 10 if ck.quick else 14
    cl_pairs = [(N, k) for N in range(3, kmax + 1) for k in range(2, N)]
    cres = ck.impl("c07", [{"op": "classify_universal", "N": N, "k": k} for N, k in cl_pairs], per_case_s=300)
    for (N, k), r in zip(cl_pairs, cres):
        stats["classified"] += 1
        alg = r.get("algebra", "!" + str(r.get("exc")))
        try:
            ok = lie.name_multiset(alg) == lie.name_multiset("su(%d)" % 2 ** N)
        except lie.BadName:
            ok = False
        if not ok:
            try:
                is_sp = lie.name_multiset(alg) == lie.name_multiset("sp(%d)" % 2 ** (N - 1))
            except lie.BadName:
                is_sp = False
            ck.fail("odd-k-classifier" if (k % 2 == 1 and is_sp) else None, "classifier reports %s for the universal set (N=%d,k=%d), not su(%d)" % (alg, N, k, 2 ** N), {"N": N, "k": k, "algebra": alg})
    ck.cov["evaluations"] = len(items) + len(pairs) + len(cl_pairs)
    ck.cov["distinct_nontrivial"] = len(nt)
    ck.cov["rule"] = ("construct_universal_set vs Model/Compiler.v for all 0<=k<=N+1, N<=16 (incl. the ValueError guard); closure size from the verified oracle for all 2<=k<N<=%d; "
                      "classifier's name for N<=%d; non-trivial = admissible (N,k) whose closure was enumerated" % (cmax, kmax))
    ck.cov["samples"] = [[N, k, r] for (N, k), r in list(zip(items, res))[20:23]]
    ck.cov["distribution"] = stats
    ck.cov["exhaustive"] = True
    ck.cov["traces_validated_against_impl"] = len(items)
    ck.finish(assumptions=["closure enumerated for N<=%d only" % cmax])


if __name__ == "__main__":
    run_check("C07", main)
