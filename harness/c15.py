"""C15 — averaged OTOC and graph complexity equal their orbit definitions."""
import json
from fractions import Fraction
from harness.common import Check, run_check
from harness import gens as G


def impl_history(case):
    """one collection object, queried, edited in place, queried again: every answer is for the strings held then"""
    from paulie import get_pauli_string, PauliString, average_otoc, average_graph_complexity
    P = lambda s: PauliString(pauli_str=s)  # noqa: E731
    g = get_pauli_string(case["gens"])
    steps = []
    for st in case["steps"]:
        if st[0] == "append":
            g.append(P(st[1]))
        elif st[0] == "remove":
            g.remove(P(st[1]))
        elif st[0] == "contract":
            g.contract(P(st[1]), P(st[2]))
        rec = {"gens": [str(x) for x in g.get()]}
        try:
            rec["otoc"] = average_otoc(g, P(case["v"]), P(case["w"]))
            rec["otoc_again"] = average_otoc(g, P(case["v"]), P(case["w"]))
            if case.get("complexity"):
                rec["complexity"] = average_graph_complexity(g, P(case["v"]))
        except Exception as e:  # noqa
            rec["exc"] = type(e).__name__
        steps.append(rec)
    return {"steps": steps}


def impl(case):
    if case.get("op") == "history":
        return impl_history(case)
    from paulie import get_pauli_string, PauliString, average_otoc, average_graph_complexity, fourpoint
    from harness.cls import mk_string
    g = get_pauli_string(case["gens"])
    routes = case.get("routes", ["parse", "parse"])
    _k = [0]
    def P(s):   # V, W, ... as objects reached through different public routes (fresh, edited in place after use, ...)
        _k[0] += 1
        return mk_string(s, routes[_k[0] % len(routes)])
    out = {}
    def safe(name, f):
        try:
            out[name] = f()
        except Exception as e:  # noqa
            out[name] = "!" + type(e).__name__
    safe("otoc", lambda: average_otoc(g, P(case["v"]), P(case["w"])))
    safe("otoc_swapped", lambda: average_otoc(g, P(case["w"]), P(case["v"])))
    if case.get("gens2"):
        g2 = get_pauli_string(case["gens2"])
        safe("otoc_gens2", lambda: average_otoc(g2, P(case["v"]), P(case["w"])))
    if case.get("complexity"):
        safe("complexity", lambda: average_graph_complexity(g, P(case["v"])))
        if case.get("gens2"):
            safe("complexity_nodes_gens2", lambda: None)
    if case.get("four"):
        p, q, r, s = case["four"]
        safe("fourpoint", lambda: fourpoint(g, P(p), P(q), P(r), P(s)))
    return out


def regen(rng, g):
    """another generating set of the same closure: contractions and added products"""
    h = list(g)
    for _ in range(rng.randint(1, 3)):
        pairs = [(a, b) for a in set(h) for b in set(h) if a != b and G.anti(a, b)]
        if not pairs:
            break
        a, b = rng.choice(pairs)
        if rng.random() < 0.5:
            h = [G.mul(a, b) if s == a else s for s in h]
        else:
            h.append(G.mul(a, b))
    return h


def main():
    ck = Check("C15")
    if ck.replay:
        rp = json.load(open(ck.replay)); ck.build()
        print("implementation:", ck.impl("c15", [rp["case"]])[0])
        c = rp["case"]; n = len(c["v"])
        print("model (a s):", ck.oracle(["otoc %d %s %s %s" % (n, c["v"], c["w"], " ".join(c["gens"]))]))
        return
    if not ck.build():
        ck.finish()
    ck.check_props()
    ck.check_translation("apps")
    nmax = 4 if ck.quick else 6
    cases = []
    stream = list(G.collections(ck.rng, 500 if ck.quick else 5000, 2, nmax))
    # large orbits: 5..7 qubits, among them generating sets of the whole su(2^n) (orbit 4^n - 1), so that every bound
    # the search may place on the size of an orbit is met
    big = list(G.collections(ck.rng, 40 if ck.quick else 200, 5, 6))
    for n in (5, 6) if ck.quick else (5, 6, 7):
        u = ["X" + "I" * (n - 1), "Z" + "I" * (n - 1), "I" + "X" + "I" * (n - 2), "I" + "Z" + "I" * (n - 2), "ZZ" + "I" * (n - 2)]
        for j in range(2, n):
            u += ["X" + "I" * (j - 1) + "X" + "I" * (n - j - 1), "X" + "I" * (j - 1) + "Z" + "I" * (n - j - 1)]
        big.append(("universal", n, u))
        big.append(("chain", n, ["I" * j + a + "I" * (n - j - 2) for j in range(n - 1) for a in ("XY", "XX")] + ["Z" + "I" * (n - 1)]))
    for kind, n, g in stream + big:
        g = [s for s in g]
        r = ck.rng.random()
        v = G.uniform(ck.rng, n) if r < 0.6 else (ck.rng.choice(g) if r < 0.8 else G.commuting_with_all(ck.rng, n, g))
        w = G.uniform(ck.rng, n) if ck.rng.random() < 0.8 else v
        if ck.rng.random() < 0.05:
            v = "I" * n
        from harness.cls import STRING_ROUTES
        c = {"gens": g, "v": v, "w": w, "n": n, "gens2": regen(ck.rng, g), "complexity": n <= (4 if ck.quick else 5) or (n == 5 and ck.rng.random() < 0.2),
             "routes": [ck.rng.choice(STRING_ROUTES), ck.rng.choice(STRING_ROUTES), ck.rng.choice(STRING_ROUTES)]}
        if ck.rng.random() < 0.3:
            p, q = v, w
            l = G.commuting_with_all(ck.rng, n, g) if ck.rng.random() < 0.7 else G.uniform(ck.rng, n)
            # r.p = q.s = l  =>  r = l.p, s = q.l
            c["four"] = [p, q, G.mul(l, p), G.mul(q, l)] if ck.rng.random() < 0.8 else [p, q, G.uniform(ck.rng, n), G.uniform(ck.rng, n)]
        cases.append(c)
    res = ck.impl("c15", cases, per_case_s=300)
    req = []
    for c in cases:
        gs = " ".join(c["gens"])
        req += ["otoc %d %s %s %s" % (c["n"], c["v"], c["w"], gs), "otoc %d %s %s %s" % (c["n"], c["w"], c["v"], gs),
                "otoc %d %s %s %s" % (c["n"], c["v"], c["w"], " ".join(c["gens2"])), "complexity %d %s %s" % (c["n"], c["v"], gs),
                "commutants %d %s" % (c["n"], gs)]
    ans = ck.oracle(req, procs=8)
    nt = set()
    stats = {"fixed_V": 0, "orbit_sizes": {}}
    for i, (c, r) in enumerate(zip(cases, res)):
        if "exc" in r:
            ck.fail(None, "OTOC raised %s" % r["exc"], {"case": c, "result": r}); continue
        a, s = map(int, ans[5 * i].split())
        a2, s2 = map(int, ans[5 * i + 1].split())
        a3, s3 = map(int, ans[5 * i + 2].split())
        want = 1 - 2 * Fraction(a, s)
        bad = []
        def same(x, fr):
            return isinstance(x, (int, float)) and abs(Fraction(x) - fr) < Fraction(1, 10 ** 12)
        if not same(r["otoc"], want):
            bad.append("average_otoc = %r, orbit definition gives 1 - 2*%d/%d" % (r["otoc"], a, s))
        if not same(r["otoc_swapped"], 1 - 2 * Fraction(a2, s2)):
            bad.append("average_otoc(W,V) = %r, orbit definition gives 1 - 2*%d/%d" % (r["otoc_swapped"], a2, s2))
        if isinstance(r["otoc"], (int, float)):
            if r["otoc"] != r["otoc_swapped"] and not same(r["otoc_swapped"], Fraction(r["otoc"])):
                bad.append("OTOC not symmetric: %r vs %r" % (r["otoc"], r["otoc_swapped"]))
            if not -1 <= r["otoc"] <= 1:
                bad.append("OTOC outside [-1,1]: %r" % r["otoc"])
            if s == 1:
                stats["fixed_V"] += 1
                if r["otoc"] not in (1, -1, 1.0, -1.0):
                    bad.append("V is fixed by G but OTOC is %r" % r["otoc"])
        if "otoc_gens2" in r and not same(r["otoc_gens2"], 1 - 2 * Fraction(a3, s3)):
            bad.append("with another generating set of the same algebra: %r, orbit definition %d/%d" % (r["otoc_gens2"], a3, s3))
        if (a3, s3) != (a, s):
            ck.correspondence_broken("harness regen() is not closure-preserving on %s -> %s" % (c["gens"], c["gens2"]), {"case": c}); continue
        if c["complexity"]:
            cs, cn = map(int, ans[5 * i + 3].split())
            if not same(r["complexity"], Fraction(cs, cn)):
                bad.append("average_graph_complexity = %r, mean distance over the orbit = %d/%d" % (r["complexity"], cs, cn))
            if cn != s:
                bad.append("orbit sizes differ between the two model functions: %d vs %d" % (cn, s))
        if "four" in c:
            p, q, rr, ss = c["four"]
            com = ans[5 * i + 4].split()
            expect = want if (G.mul(rr, p) == G.mul(q, ss) and G.mul(q, ss) in com) else 0
            if not same(r["fourpoint"], Fraction(expect)):
                bad.append("fourpoint = %r, expected %s" % (r["fourpoint"], expect))
        stats["orbit_sizes"][s] = stats["orbit_sizes"].get(s, 0) + 1
        if s > 1 and 0 < a < s:
            nt.add((tuple(c["gens"]), c["v"], c["w"]))
        if bad:
            ck.fail(None, "G=%s V=%s W=%s: %s" % (c["gens"], c["v"], c["w"], "; ".join(bad)), {"case": c, "implementation": r, "model_counts": [a, s], "differences": bad})
    # the same collection object queried, edited in place and queried again
    hist = []
    for _ in range(200 if ck.quick else 2000):
        n = ck.rng.randint(2, 3 if ck.quick else 4)
        g = [G.uniform(ck.rng, n) for _ in range(ck.rng.randint(1, 3))]
        cur = list(dict.fromkeys(g))
        steps = [["query"]]
        for _ in range(ck.rng.randint(1, 3)):
            r = ck.rng.random()
            if r < 0.6 or len(cur) < 2:
                x = G.uniform(ck.rng, n); steps.append(["append", x])
                if x not in cur:
                    cur.append(x)
            elif r < 0.8:
                x = ck.rng.choice(cur); steps.append(["remove", x]); cur.remove(x)
            else:
                pairs = [(a, b) for a in cur for b in cur if a != b and G.anti(a, b)]
                if pairs:
                    a, b = ck.rng.choice(pairs); steps.append(["contract", a, b]); cur[cur.index(a)] = G.mul(a, b)
                else:
                    x = G.uniform(ck.rng, n); steps.append(["append", x])
                    if x not in cur:
                        cur.append(x)
        hist.append({"op": "history", "gens": g, "steps": steps, "v": G.uniform(ck.rng, n), "w": G.uniform(ck.rng, n), "n": n, "complexity": n <= 3})
    hres = ck.impl("c15", hist, per_case_s=300)
    hreq, hmap = [], []
    for hi, (c, r) in enumerate(zip(hist, hres)):
        for si, st in enumerate(r.get("steps", [])):
            if st["gens"]:
                hreq += ["otoc %d %s %s %s" % (c["n"], c["v"], c["w"], " ".join(st["gens"])), "complexity %d %s %s" % (c["n"], c["v"], " ".join(st["gens"]))]
                hmap.append((hi, si))
    hans = ck.oracle(hreq, procs=8)
    stats["history_queries"] = len(hmap)
    for k, (hi, si) in enumerate(hmap):
        c, st = hist[hi], hres[hi]["steps"][si]
        a, s_ = map(int, hans[2 * k].split())
        cs, cn = map(int, hans[2 * k + 1].split())
        bad = []
        if "exc" in st:
            bad.append("raised %s" % st["exc"])
        else:
            if abs(Fraction(st["otoc"]) - (1 - 2 * Fraction(a, s_))) > Fraction(1, 10 ** 12):
                bad.append("average_otoc = %r on the collection now holding %s, orbit definition gives 1 - 2*%d/%d" % (st["otoc"], st["gens"], a, s_))
            if st["otoc_again"] != st["otoc"]:
                bad.append("repeated call answers %r then %r" % (st["otoc"], st["otoc_again"]))
            if "complexity" in st and abs(Fraction(st["complexity"]) - Fraction(cs, cn)) > Fraction(1, 10 ** 12):
                bad.append("average_graph_complexity = %r, mean distance %d/%d" % (st["complexity"], cs, cn))
        if bad:
            ck.fail(None, "after in-place edits %s of one collection object (V=%s W=%s): %s" % (c["steps"][:si + 1], c["v"], c["w"], "; ".join(bad)),
                    {"case": dict(c, steps=c["steps"][:si + 1]), "differences": bad})
    stats["orbit_sizes"] = dict(sorted(stats["orbit_sizes"].items())[:12])
    ck.cov["evaluations"] = len(cases) + len(hmap)
    ck.cov["distinct_nontrivial"] = len(nt)
    ck.cov["rule"] = ("one collection object queried, edited in place (append/remove/contract) and queried again, every answer against the strings held then; "
                      "(G, V, W) with n<=%d: structured/uniform G, V uniform / a generator / fixed by G / identity, W uniform or = V; floats compared with the model's exact rationals 1-2a/s; "
                      "metamorphic: swap V,W, replace G by contractions/added products; graph complexity vs level-BFS mean distance; fourpoint vs its definition; non-trivial = orbit larger than 1 with 0<a<s" % nmax)
    ck.cov["samples"] = [{k: c[k] for k in ("gens", "v", "w")} for c in cases[:3]]
    ck.cov["distribution"] = stats
    ck.cov["traces_validated_against_impl"] = len(cases)
    ck.finish(assumptions=["the source computes 1 - 2*a/s from two integers: float results are compared with Fraction(a, s) to 1e-12"])


if __name__ == "__main__":
    run_check("C15", main)
