"""Shared pieces of the Pauli-compiler checks (C05, C06, C07)."""
import os
import traceback
from harness.common import all_pstr


_COMPILERS = {}


def impl(case):
    from paulie import PauliString, compile_target, construct_universal_set
    if case["op"] == "compile":
        N, k, t = case["N"], case["k"], case["target"]
        try:
            if case.get("reuse"):
                # one compiler object per (N,k) serves every later target of this worker process
                from paulie import OptimalPauliCompiler, PauliCompilerConfig
                opc = _COMPILERS.get((N, k))
                if opc is None:
                    opc = _COMPILERS[(N, k)] = OptimalPauliCompiler(PauliCompilerConfig(k_left=k, n_total=N))
                T = PauliString(pauli_str=t)
                seq = opc.compile(T.get_substring(0, k), T.get_substring(k, N - k))
            else:
                seq = compile_target(PauliString(pauli_str=t), k_left=k)
            return {"out": "seq", "seq": [str(s) for s in seq]}
        except RuntimeError as e:
            tb = traceback.extract_tb(e.__traceback__)
            fr = [f for f in tb if f.filename.endswith("pauli_compiler.py")]
            site = (fr[-1].name + ": " + (fr[-1].line or "").strip()) if fr else "?"
            return {"out": "RuntimeError", "msg": str(e), "site": site}
        except (ValueError, AssertionError, StopIteration, KeyError, IndexError) as e:
            return {"out": "other", "type": type(e).__name__, "msg": str(e)[:100]}
    if case["op"] == "universal":
        res = []
        for N, k in case["items"]:
            try:
                res.append(["ok", [str(s) for s in construct_universal_set(N, k)]])
            except ValueError:
                res.append(["ValueError"])
            except Exception as e:  # noqa
                res.append(["other", type(e).__name__])
        return {"res": res}
    if case["op"] == "classify_universal":
        from paulie import get_pauli_string
        N, k = case["N"], case["k"]
        c = get_pauli_string([str(s) for s in construct_universal_set(N, k)])
        return {"algebra": c.get_algebra()}
    raise ValueError(case["op"])


def site_slug(r):
    """raise site = function containing the raise + its message"""
    func = r.get("site", "?").split(":")[0]
    msg = r.get("msg", "").replace("!=", " ne ").replace("=", " eq ")
    slug = "".join(ch if ch.isalnum() else "_" for ch in msg)
    while "__" in slug:
        slug = slug.replace("__", "_")
    return func + "/" + slug.strip("_")[:60]


def targets(N):
    return [t for t in all_pstr(N) if set(t) != {"I"}]


def compile_cases(ck, quick):
    """(N,k,target) cases: exhaustive for N<=5 (every k); above that the three routing classes of compile()
    (left block identity / right block identity / neither) are sampled separately, and the identity-left class
    of (6,2) and (6,3) is enumerated (it is the one served by the bounded fallback search)"""
    cases = []
    for N in (3, 4, 5):
        for k in range(2, N):
            cases += [{"op": "compile", "N": N, "k": k, "target": t, "enumerated": True} for t in targets(N)]
    def rand_target(N, k, cls):
        L = "".join(ck.rng.choice("IXYZ") for _ in range(k))
        R = "".join(ck.rng.choice("IXYZ") for _ in range(N - k))
        if cls == "left-identity":
            L = "I" * k
        elif cls == "right-identity":
            R = "I" * (N - k)
        return L + R
    for k in (2, 3):
        cases += [{"op": "compile", "N": 6, "k": k, "target": "I" * k + r, "enumerated": True} for r in targets(6 - k)]
    Ns = (6, 7) if quick else (6, 7, 8)
    per = 12 if quick else 60
    for N in Ns:
        for cls in ("left-identity", "right-identity", "generic"):
            for _ in range(per):
                k = ck.rng.randint(2, N - 1)
                t = rand_target(N, k, cls)
                if set(t) != {"I"}:
                    cases.append({"op": "compile", "N": N, "k": k, "target": t})
    # a third of the cases go through a compiler object that is reused for later targets (compile_target builds a fresh one)
    for c in cases:
        if ck.rng.random() < 0.34:
            c["reuse"] = True
    return cases
