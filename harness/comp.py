"""Shared pieces of the Pauli-compiler checks (C05, C06, C07)."""
import os
import traceback
from harness.common import all_pstr


_COMPILERS = {}


def impl(case):
    from paulie import PauliString, compile_target, construct_universal_set
    if case["op"] == "compile":
        N, k, t = case["N"], case["k"], case["target"]
        try:
            if case.get("reuse"):
                # one compiler object per (N,k) serves every later target of this worker process
                from paulie import OptimalPauliCompiler, PauliCompilerConfig
                opc = _COMPILERS.get((N, k))
                if opc is None:
                    opc = _COMPILERS[(N, k)] = OptimalPauliCompiler(PauliCompilerConfig(k_left=k, n_total=N))
                T = PauliString(pauli_str=t)
                seq = opc.compile(T.get_substring(0, k), T.get_substring(k, N - k))
            else:
                seq = compile_target(PauliString(pauli_str=t), k_left=k)
            return {"out": "seq", "seq": [str(s) for s in seq]}
        except RuntimeError as e:
            tb = traceback.extract_tb(e.__traceback__)
            fr = [f for f in tb if f.filename.endswith("pauli_compiler.py")]
            site = (fr[-1].name + ": " + (fr[-1].line or "").strip()) if fr else "?"
            return {"out": "RuntimeError", "msg": str(e), "site": site}
        except (ValueError, AssertionError, StopIteration, KeyError, IndexError) as e:
            return {"out": "other", "type": type(e).__name__, "msg": str(e)[:100]}
    if case["op"] == "record":
        # one real run of compile_target with the answers of the helpers that the search translation does not translate recorded in call
        # order (a tree: the answers consulted inside compile / _case3_best_reordering form a sub-list), so that the Gallina translation can
        # be evaluated on the same answers and compared with what the real code returned (validation of the translator by execution)
        import paulie.application.pauli_compiler as pc
        N, k, t = case["N"], case["k"], case["target"]
        stack = [[]]
        def wrap_scope(cls, name):
            orig = getattr(cls, name)
            def f(self, *a, **kw):
                stack.append([])
                try:
                    return orig(self, *a, **kw)
                finally:
                    sub = stack.pop(); stack[-1].append(["sub", sub])
            setattr(cls, name, f); return orig
        def wrap_helper(cls, name, kind):
            orig = getattr(cls, name)
            def f(self, *a, **kw):
                try:
                    r = orig(self, *a, **kw)
                except Exception as e:  # noqa
                    stack[-1].append(["raise", type(e).__name__]); raise
                if kind == "lps": r = list(r); stack[-1].append(["lps", [str(x) for x in r]])
                elif kind == "pairs": r = list(r); stack[-1].append(["pairs", [[str(x), str(y)] for x, y in r]])
                else:
                    r = [list(q) for q in r]      # a generator: materialised (the translation reads its answer as a list)
                    stack[-1].append(["llps", [[str(x) for x in q] for q in r]])
                return r
            setattr(cls, name, f); return orig
        saved = [(pc.OptimalPauliCompiler, "compile", wrap_scope(pc.OptimalPauliCompiler, "compile")),
                 (pc.OptimalPauliCompiler, "_case3_best_reordering", wrap_scope(pc.OptimalPauliCompiler, "_case3_best_reordering")),
                 (pc.SubsystemCompiler, "subsystem_compiler", wrap_helper(pc.SubsystemCompiler, "subsystem_compiler", "lps")),
                 (pc.OptimalPauliCompiler, "_candidate_decompositions", wrap_helper(pc.OptimalPauliCompiler, "_candidate_decompositions", "pairs")),
                 (pc.OptimalPauliCompiler, "_all_interleavings_preserving", wrap_helper(pc.OptimalPauliCompiler, "_all_interleavings_preserving", "llps")),
                 (pc.OptimalPauliCompiler, "_all_interleavings_preserving4", wrap_helper(pc.OptimalPauliCompiler, "_all_interleavings_preserving4", "llps"))]
        try:
            try:
                seq = pc.compile_target(PauliString(pauli_str=t), k_left=k)
                out = {"out": "seq", "seq": [str(x) for x in seq]}
            except Exception as e:  # noqa
                out = {"out": "exc", "type": type(e).__name__}
        finally:
            for cls, name, orig in saved: setattr(cls, name, orig)
        out["stream"] = stack[0]
        out["size"] = sum(1 for _ in str(stack[0]))
        return out
    if case["op"] == "universal":
        res = []
        for N, k in case["items"]:
            try:
                res.append(["ok", [str(s) for s in construct_universal_set(N, k)]])
            except ValueError:
                res.append(["ValueError"])
            except Exception as e:  # noqa
                res.append(["other", type(e).__name__])
        return {"res": res}
    if case["op"] == "classify_universal":
        from paulie import get_pauli_string
        N, k = case["N"], case["k"]
        c = get_pauli_string([str(s) for s in construct_universal_set(N, k)])
        return {"algebra": c.get_algebra()}
    raise ValueError(case["op"])


def site_slug(r):
    """raise site = function containing the raise + its message"""
    func = r.get("site", "?").split(":")[0]
    msg = r.get("msg", "").replace("!=", " ne ").replace("=", " eq ")
    slug = "".join(ch if ch.isalnum() else "_" for ch in msg)
    while "__" in slug:
        slug = slug.replace("__", "_")
    return func + "/" + slug.strip("_")[:60]


def targets(N):
    return [t for t in all_pstr(N) if set(t) != {"I"}]


def compile_cases(ck, quick):
    """(N,k,target) cases: exhaustive for N<=5 (every k); above that the three routing classes of compile()
    (left block identity / right block identity / neither) are sampled separately, and the identity-left class
    of (6,2) and (6,3) is enumerated (it is the one served by the bounded fallback search)"""
    cases = []
    for N in (3, 4, 5):
        for k in range(2, N):
            cases += [{"op": "compile", "N": N, "k": k, "target": t, "enumerated": True} for t in targets(N)]
    def rand_target(N, k, cls):
        L = "".join(ck.rng.choice("IXYZ") for _ in range(k))
        R = "".join(ck.rng.choice("IXYZ") for _ in range(N - k))
        if cls == "left-identity":
            L = "I" * k
        elif cls == "right-identity":
            R = "I" * (N - k)
        return L + R
    for k in (2, 3):
        cases += [{"op": "compile", "N": 6, "k": k, "target": "I" * k + r, "enumerated": True} for r in targets(6 - k)]
    Ns = (6, 7) if quick else (6, 7, 8)
    per = 12 if quick else 60
    for N in Ns:
        for cls in ("left-identity", "right-identity", "generic"):
            for _ in range(per):
                k = ck.rng.randint(2, N - 1)
                t = rand_target(N, k, cls)
                if set(t) != {"I"}:
                    cases.append({"op": "compile", "N": N, "k": k, "target": t})
    # a third of the cases go through a compiler object that is reused for later targets (compile_target builds a fresh one)
    for c in cases:
        if ck.rng.random() < 0.34:
            c["reuse"] = True
    return cases


def coq_pstr(t):
    return "[" + ";".join("P" + ch for ch in t) + "]"


def coq_stream(st):
    out = []
    for kind, v in st:
        if kind == "sub": out.append("OSub " + coq_stream(v))
        elif kind == "lps": out.append("OLps [" + ";".join(coq_pstr(x) for x in v) + "]")
        elif kind == "pairs": out.append("OPairs [" + ";".join("(%s,%s)" % (coq_pstr(a), coq_pstr(b)) for a, b in v) + "]")
        elif kind == "llps": out.append("OLLps [" + ";".join("[" + ";".join(coq_pstr(x) for x in q) + "]" for q in v) + "]")
        elif kind == "raise": out.append('ORaise (EUser "%s"%%string)' % v)
    return "[" + "; ".join(out) + "]"


def validate_translation_by_execution(ck, count):
    """the generated Gallina of the search target (.work/gen_<id>_search/SearchGen.v, written by check_translation in this run) evaluated by
    vm_compute on the recorded helper answers of real runs, compared with what the real runs returned"""
    import subprocess, re
    from harness.common import WORK, VERIF
    gen = os.path.join(WORK, "gen_%s_search" % ck.pid)
    if not os.path.exists(os.path.join(gen, "SearchGen.vo")):
        return None
    cases = []
    for N in (3, 4):
        for k in range(2, N):
            ts = targets(N); ck.rng.shuffle(ts)
            cases += [{"op": "record", "N": N, "k": k, "target": t} for t in ts[:count // 3]]
    res = ck.impl("c05", cases, per_case_s=120, procs=15)
    lines, kept = [], []
    for c, r in zip(cases, res):
        if "exc" in r or r.get("size", 10 ** 9) > 150000:
            continue
        if r["out"] == "seq":
            exp = "FRet [" + ";".join(coq_pstr(x) for x in r["seq"]) + "]"
        else:
            exp = 'FRaised (EUser "%s"%%string)' % r["type"]
        fuel = 2 * 4 ** c["k"] + 2
        lines.append("Definition c%d : bool := same (py_S_compile_target %d %s %d %s) (%s)." % (len(kept), fuel, coq_pstr(c["target"]), c["k"], coq_stream(r["stream"]), exp))
        kept.append((c, r))
    src = ["From PauLieRefine Require Import PySem.", "From PauLie Require Import Pauli Compiler.", "From PauLieGen Require Import SearchGen.", "Open Scope Z_scope.",
           "Fixpoint lps_eqb (a b : list pstr) : bool := match a, b with [], [] => true | x :: a', y :: b' => pstr_eqb x y && lps_eqb a' b' | _, _ => false end.",
           "Definition exn_eqb (a b : exn) : bool := match a, b with EUser x, EUser y => String.eqb x y | EZeroDivision, EZeroDivision | EKey, EKey | EType, EType | EIndex, EIndex => true | _, _ => false end.",
           "Definition same (r e : fres (list pstr)) : bool := match r, e with FRet a, FRet b => lps_eqb a b | FRaised a, FRaised b => exn_eqb a b | _, _ => false end."]
    src += lines
    src.append("Definition all_ := [%s]." % "; ".join("c%d" % i for i in range(len(kept))))
    src.append("Eval vm_compute in all_.")
    path = os.path.join(gen, "RunCases.v")
    open(path, "w").write("\n".join(src) + "\n")
    q = "-Q Model PauLie -Q Theory PauLie -Q Refine PauLieRefine -Q %s PauLieGen -w -notation-overridden,-deprecated" % gen
    r = subprocess.run(["bash", "-c", "ulimit -s unlimited; cd %s/coq && timeout 900 coqc %s %s 2>&1" % (VERIF, q, path)], capture_output=True, text=True)
    txt = r.stdout
    m = re.search(r"=\s*\[(.*?)\]\s*:\s*list bool", txt, re.S)
    if r.returncode != 0 or not m:
        return {"cases": len(kept), "error": txt[-600:]}
    vals = [v.strip() for v in m.group(1).replace("\n", " ").split(";")] if m.group(1).strip() else []
    bad = [kept[i][0] for i, v in enumerate(vals) if v != "true"]
    return {"cases": len(kept), "agree": sum(1 for v in vals if v == "true"), "disagree": bad, "returned": sum(1 for _, r in kept if r["out"] == "seq")}
