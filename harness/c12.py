"""C12 — linear combinations behave as the matrices they denote."""
import json
import re
from harness.common import Check, run_check
from harness import gens as G


def _compact(p):
    """the same string in the parser's sparse notation (letters with 1-based positions, then the size)"""
    body = "".join("%s_%d" % (ch, i + 1) for i, ch in enumerate(p) if ch != "I")
    return (body or "I") + "s%d" % len(p) if p else p


_ROUTE = ["list"]


def _mk(terms, route=None):
    """a PauliStringLinear with these terms, reached through a public route: the term list itself, strings in sparse
    notation, PauliString objects, or an accumulator filled with += (only for term lists += reproduces literally:
    distinct strings, non-zero coefficients)"""
    from paulie import PauliStringLinear, PauliString
    route = route or _ROUTE[0]
    plain = [(complex(a, b), p) for a, b, p in terms]
    literal = len({p for _, p in plain}) == len(plain) and all(c != 0 for c, _ in plain) and len(plain) > 0
    if route == "compact" and terms and all(p for _, p in plain):
        return PauliStringLinear([(c, _compact(p)) for c, p in plain])
    if route == "objects" and terms:
        return PauliStringLinear([(c, PauliString(pauli_str=p)) for c, p in plain])
    if route == "iadd_empty" and literal:
        acc = PauliStringLinear([])
        for t in plain:
            acc += PauliStringLinear([t])
        return acc
    if route == "iadd_first" and literal:
        acc = PauliStringLinear(plain[:1])
        for t in plain[1:]:
            acc += PauliStringLinear([t])
        return acc
    if route == "copy":
        return PauliStringLinear(plain).copy()
    return PauliStringLinear(plain)


ROUTES = ["list", "list", "compact", "objects", "iadd_empty", "iadd_first", "copy"]


def _terms(x):
    """terms of a result as [re, im, string] (exact when integral)"""
    if x is None:
        return None
    if hasattr(x, "combinations"):
        out = []
        for c, p in x.combinations:
            c = complex(c)
            out.append([c.real, c.imag, str(p)])
        return out
    return "type:" + type(x).__name__


def _mat(x):
    import numpy as np
    return np.array(x.get_matrix(), dtype=complex)


def _truth_matrix(terms, n):
    """the denoted matrix from explicit Kronecker products (no library code)"""
    import numpy as np
    P = {"I": np.eye(2, dtype=complex), "X": np.array([[0, 1], [1, 0]], dtype=complex),
         "Y": np.array([[0, -1j], [1j, 0]], dtype=complex), "Z": np.array([[1, 0], [0, -1]], dtype=complex)}
    M = np.zeros((2 ** n, 2 ** n), dtype=complex)
    for a, b, p in terms:
        K = np.eye(1, dtype=complex)
        for ch in p:
            K = np.kron(K, P[ch])
        M = M + complex(a, b) * K
    return M


def impl_history(case):
    """ONE PauliStringLinear object: observed, edited in place (+=, item assignment), observed again; after every step every
    observation must denote the matrix the object denotes now (tracked independently with numpy)"""
    import numpy as np
    n = case["n"]
    obj = _mk(case["a"], case.get("route", "list"))
    M = _truth_matrix(case["a"], n)
    steps_out = []
    def observe(which):
        o = {}
        for w in which:
            try:
                if w == "matrix": o[w] = bool(np.array_equal(_mat(obj), M))
                elif w == "simplify":
                    r = obj.simplify(); o[w] = bool(np.array_equal(_mat(r), M)) if hasattr(r, "get_matrix") else "type:" + type(r).__name__
                elif w == "str": o[w] = str(obj)
                elif w == "trace": o[w] = bool(complex(obj.trace()) == complex(np.trace(M)))
                elif w == "is_zero": o[w] = bool(obj.is_zero()) == bool(not M.any())
                elif w == "herm": o[w] = bool(np.array_equal(_mat(obj.h), M.conj().T))
                elif w == "eq_same": o[w] = bool(obj == _mk(case["_terms_now"]))
                elif w == "eq_other": o[w] = bool(obj == _mk(case["_other"]))
                elif w == "scale": o[w] = bool(np.array_equal(_mat(obj * 2), 2 * M))
                elif w == "square": o[w] = bool(np.array_equal(_mat(obj @ obj), M @ M))
            except Exception as e:  # noqa
                o[w] = "!" + type(e).__name__ + ":" + str(e)[:60]
        return o
    terms_now = [list(t) for t in case["a"]]
    for st in case["steps"]:
        rec = {"step": st}
        try:
            if st[0] == "obs":
                pass
            elif st[0] == "iadd":
                obj += _mk(st[1]); M = M + _truth_matrix(st[1], n); terms_now = terms_now + [list(t) for t in st[1]]
            elif st[0] == "setitem":
                i = st[1] % max(1, len(obj))
                c_old, p_old = obj[i]
                obj[i] = (complex(st[2][0], st[2][1]), __import__("paulie").PauliString(pauli_str=st[2][2]))
                old_t = [float(complex(c_old).real), float(complex(c_old).imag), str(p_old)]
                M = M - _truth_matrix([old_t], n) + _truth_matrix([st[2]], n)
                terms_now = terms_now + [[-old_t[0], -old_t[1], old_t[2]], list(st[2])]
        except Exception as e:  # noqa
            rec["exc"] = "!" + type(e).__name__ + ":" + str(e)[:80]
        # a fresh object denoting the same matrix, and one denoting another matrix, for ==
        case["_terms_now"] = terms_now
        case["_other"] = case["_terms_now"] + [[1, 0, "Z" * n]]
        rec["truth_changed_by_other"] = True
        rec["obs"] = observe(st[-1] if st[0] == "obs" else case["after"])
        rec["truth"] = [[float(z.real), float(z.imag)] for z in M.flatten().tolist()]
        steps_out.append(rec)
    return {"steps": steps_out}


def impl(case):
    import numpy as np
    if case.get("op") == "history":
        return impl_history(case)
    a_t, b_t, s = case["a"], case["b"], complex(*case["s"])
    _ROUTE[0] = case.get("route", "list")
    out = {"route": _ROUTE[0]}
    dense = case["n"] <= 3
    def safe(name, f):
        try:
            out[name] = f()
        except Exception as e:  # noqa
            out[name] = "!" + type(e).__name__ + ":" + str(e)[:60]
    a, b = _mk(a_t), _mk(b_t)
    MA = _mat(a) if (dense and a_t) else None
    MB = _mat(b) if (dense and b_t) else None
    def binop(name, f, ref):
        try:
            r = f()
            out[name] = _terms(r)
            if dense and MA is not None and MB is not None and hasattr(r, "get_matrix"):
                out[name + "_matrix_ok"] = bool(np.array_equal(_mat(r), ref()))
        except Exception as e:  # noqa
            out[name] = "!" + type(e).__name__ + ":" + str(e)[:60]
    binop("matmul", lambda: _mk(a_t) @ _mk(b_t), lambda: MA @ MB)
    binop("add", lambda: _mk(a_t) + _mk(b_t), lambda: MA + MB)
    # aliased operands: the same object on both sides
    try:
        x = _mk(a_t); r = x @ x
        out["matmul_alias"] = _terms(r)
        if dense and MA is not None:
            out["matmul_alias_matrix_ok"] = bool(np.array_equal(_mat(r), MA @ MA))
        x = _mk(a_t); r = x + x
        out["add_alias"] = _terms(r)
        x = _mk(a_t); out["eq_alias"] = bool(x == x)
    except Exception as e:  # noqa
        out["alias_exc"] = "!" + type(e).__name__ + ":" + str(e)[:60]
    safe("eq", lambda: bool(_mk(a_t) == _mk(b_t)))
    if a_t:
        safe("scale", lambda: _terms(_mk(a_t) * s))
        safe("rscale", lambda: _terms(s * _mk(a_t)))
    safe("herm", lambda: _terms(_mk(a_t).h))
    safe("simplify", lambda: _terms(_mk(a_t).simplify()))
    safe("trace", lambda: (lambda z: [complex(z).real, complex(z).imag])(_mk(a_t).trace()))
    safe("is_zero", lambda: bool(_mk(a_t).is_zero()))
    safe("str", lambda: str(_mk(a_t)))
    if dense and a_t:
        safe("matrix", lambda: ";".join(" ".join("%d,%d" % (z.real, z.imag) if (z.real == int(z.real) and z.imag == int(z.imag)) else "?" for z in row) for row in MA.tolist()))
        safe("trace_matrix_ok", lambda: bool(complex(_mk(a_t).trace()) == complex(np.trace(MA))))
        safe("herm_matrix_ok", lambda: bool(np.array_equal(_mat(_mk(a_t).h), MA.conj().T)))
        safe("zero_matrix_ok", lambda: bool(_mk(a_t).is_zero()) == bool(not MA.any()))
        if b_t:
            safe("eq_matrix_ok", lambda: bool(_mk(a_t) == _mk(b_t)) == bool(np.array_equal(MA, MB)))
    return out


def wire(t):
    return ";".join("%d,%d,%s" % (a, b, p) for a, b, p in t) if t else "-"


def unwire(s):
    return [] if s == "-" else [[int(x.split(",")[0]), int(x.split(",")[1]), "" if x.split(",")[2] == "-" else x.split(",")[2]] for x in s.split(";")]


def as_dict(terms):
    """order-insensitive view of a term list (duplicates kept)"""
    if not isinstance(terms, list):
        return terms
    return sorted((p, float(a) + 0.0, float(b) + 0.0) for a, b, p in terms)


_TERM = re.compile(r"^(?:(?P<c>[^*]+)\*)?(?P<p>[IXYZ]*)$")


def parse_coeff(c):
    if c is None or c == "":
        return complex(1)
    if c == "i":
        return 1j
    if c == "-i":
        return -1j
    if c.startswith("("):
        body = c[1:-1]
        m = re.match(r"^(-?[0-9.e+]+?)([+-])([0-9.e]*)i$", body)
        re_, sg, im = m.group(1), m.group(2), m.group(3)
        imv = float(im) if im else 1.0
        return complex(float(re_), imv if sg == "+" else -imv)
    if c.endswith("i"):
        return complex(0, float(c[:-1]))
    return complex(float(c))


def parse_printed(s):
    """'2*XI - i*ZZ + (1+2i)*YY' -> {string: complex}"""
    out = {}
    s = s.replace(" - ", " + -")
    for t in s.split(" + "):
        neg = t.startswith("-") and not t.startswith("-i*") and not re.match(r"^-[0-9.]", t)
        if neg:
            t = t[1:]
        m = _TERM.match(t)
        co = parse_coeff(m.group("c"))
        out[m.group("p")] = out.get(m.group("p"), 0) + (-co if neg else co)
    return out


def rand_lin(rng, n, allow_empty=True):
    k = rng.randint(0 if allow_empty else 1, 5)
    pool = [G.uniform(rng, n) for _ in range(3)] + ["I" * n]
    terms = []
    for _ in range(k):
        p = rng.choice(pool) if rng.random() < 0.6 else G.uniform(rng, n)
        a, b = rng.randint(-3, 3), (rng.randint(-3, 3) if rng.random() < 0.5 else 0)
        terms.append([a, b, p])
    if terms and rng.random() < 0.25:   # a cancelling pair
        a, b, p = rng.choice(terms)
        terms.append([-a, -b, p])
    return terms


def main():
    ck = Check("C12")
    if ck.replay:
        rp = json.load(open(ck.replay)); ck.build()
        print(json.dumps(ck.impl("c12", [rp["case"]])[0], indent=1)[:3000])
        return
    if not ck.build():
        ck.finish()
    ck.check_props()
    ck.check_translation("pstring")
    ck.check_translation("linear")
    cases = []
    corpus = [([[1, 0, "X"], [1, 0, "Z"]], [[1, 0, "X"], [1, 0, "Z"]]), ([[1, 0, "I"], [2, 0, "I"]], [[1, 0, "I"]]), ([[1, 0, "X"], [-1, 0, "X"]], [[0, 0, "Z"]])]
    for a, b in corpus:
        cases.append({"a": a, "b": b, "s": [2, 1], "n": 1})
    for _ in range(1500 if ck.quick else 15000):
        n = ck.rng.randint(1, 4)
        a = rand_lin(ck.rng, n)
        b = rand_lin(ck.rng, n) if ck.rng.random() < 0.85 else [list(t) for t in a]
        if ck.rng.random() < 0.1:
            ck.rng.shuffle(b)
        cases.append({"a": a, "b": b, "s": [ck.rng.randint(-3, 3), ck.rng.randint(-2, 2)], "n": n, "route": ck.rng.choice(ROUTES)})
    res = ck.impl("c12", cases, per_case_s=60)
    req = []
    for c in cases:
        a, b = wire(c["a"]), wire(c["b"])
        req += ["lin matmul %s %s" % (a, b), "lin add %s %s" % (a, b), "lin matmul %s %s" % (a, a), "lin add %s %s" % (a, a), "lin eq %s %s" % (a, b),
                "linscale %d %d %s" % (c["s"][0], c["s"][1], a), "lin herm %s -" % a, "lin simplify %s -" % a, "lin trace %s -" % a, "lin is_zero %s -" % a,
                "lin dense %s -" % a if (c["n"] <= 3 and c["a"]) else "lin is_zero - -"]
    ans = ck.oracle(req, procs=8)
    K = 11
    nt = set()
    stats = {"aliased_products": 0, "cancellations": 0, "empty_operands": 0}
    for i, (c, r) in enumerate(zip(cases, res)):
        m = ans[K * i:K * i + K]
        if "exc" in r:
            ck.fail(None, "linear-combination operations raised %s" % r["exc"], {"case": c, "result": r}); continue
        bad = []
        empty = (not c["a"]) or (not c["b"])
        stats["empty_operands"] += empty
        def cmp(name, key, mi, skip_empty=False):
            if key not in r or (skip_empty and empty):
                return
            got, want = as_dict(r[key]), as_dict(unwire(m[mi]))
            if isinstance(got, dict) and isinstance(want, dict):
                got = {k: v for k, v in got.items()}
            if got != want:
                bad.append("%s: implementation %s, model %s" % (name, r[key], m[mi]))
        cmp("a@b", "matmul", 0, skip_empty=True)
        cmp("a+b", "add", 1)
        cmp("a@a (same object)", "matmul_alias", 2, skip_empty=not c["a"])
        cmp("a+a (same object)", "add_alias", 3)
        if "alias_exc" in r and c["a"]:
            bad.append("aliased operands raise %s" % r["alias_exc"])
        if c["a"] and c["b"] and r.get("eq") != (m[4] == "1"):
            bad.append("a==b: implementation %s, model %s" % (r.get("eq"), m[4]))
        if c["a"] and r.get("eq_alias") is not True:
            bad.append("a==a is %s" % r.get("eq_alias"))
        if c["a"]:
            cmp("a*c", "scale", 5); cmp("c*a", "rscale", 5)
        cmp("a.h", "herm", 6)
        cmp("simplify", "simplify", 7)
        tr = [float(x) for x in m[8].split(",")]
        if r.get("trace") != tr:
            bad.append("trace: implementation %s, model %s" % (r.get("trace"), tr))
        if r.get("is_zero") != (m[9] == "1"):
            bad.append("is_zero: implementation %s, model %s" % (r.get("is_zero"), m[9]))
        for k, v in r.items():
            if k.endswith("_matrix_ok") and v is not True:
                bad.append("dense numpy check failed: %s = %s" % (k, v))
        if "matrix" in r and c["n"] <= 3 and c["a"] and r["matrix"] != m[10]:
            bad.append("get_matrix differs from the denoted matrix")
        # printing does not change the denoted matrix
        if isinstance(r.get("str"), str) and c["a"]:
            try:
                pd = {k: v for k, v in parse_printed(r["str"]).items() if v != 0}
                sd = {t[2]: complex(t[0], t[1]) for t in unwire(m[7]) if (t[0], t[1]) != (0, 0)}
                if pd != sd:
                    bad.append("str() = %r denotes %s, the combination denotes %s" % (r["str"], pd, sd))
            except Exception as e:  # noqa
                bad.append("printed form %r not understood (%s)" % (r.get("str"), e))
        if len(c["a"]) >= 2 and len(c["b"]) >= 2:
            nt.add((wire(c["a"]), wire(c["b"])))
        if bad:
            ck.fail(None, "a=%s b=%s: %s" % (wire(c["a"]), wire(c["b"]), "; ".join(bad)[:700]), {"case": c, "implementation": r, "differences": bad})
    # ---- one object: observe, edit in place, observe again ----
    OBS = ["matrix", "simplify", "str", "trace", "is_zero", "herm", "eq_same", "eq_other", "scale", "square"]
    hist = []
    for _ in range(400 if ck.quick else 4000):
        n = ck.rng.randint(1, 3)
        a = rand_lin(ck.rng, n, allow_empty=False)
        steps = []
        for _k in range(ck.rng.randint(2, 5)):
            r = ck.rng.random()
            if r < 0.45:
                steps.append(["obs", ck.rng.sample(OBS, ck.rng.randint(1, 4))])
            elif r < 0.85:
                steps.append(["iadd", rand_lin(ck.rng, n, allow_empty=False)])
            else:
                steps.append(["setitem", ck.rng.randint(0, 5), [ck.rng.randint(-3, 3), ck.rng.randint(-2, 2), G.uniform(ck.rng, n)]])
        hist.append({"op": "history", "a": a, "n": n, "steps": steps, "after": OBS, "route": ck.rng.choice(["list", "objects", "copy"])})
    hres = ck.impl("c12", hist, per_case_s=60)
    stats["history_steps"] = 0
    for c, r in zip(hist, hres):
        if "exc" in r:
            ck.fail(None, "history on one linear combination raised %s" % r["exc"], {"case": c, "result": r}); continue
        for k, st in enumerate(r["steps"]):
            stats["history_steps"] += 1
            bad = []
            if "exc" in st:
                bad.append("the edit raised %s" % st["exc"])
            M = {i: complex(*z) for i, z in enumerate(st["truth"])}
            for w, v in st["obs"].items():
                if w == "str":
                    try:
                        pd = parse_printed(v)
                        import itertools
                        from harness.c12 import _truth_matrix
                        got = _truth_matrix([[z.real, z.imag, p] for p, z in pd.items()], c["n"]).flatten().tolist()
                        if any(abs(got[i] - M[i]) > 1e-9 for i in M):
                            bad.append("str() = %r no longer denotes the matrix of the object" % v)
                    except Exception as e:  # noqa
                        bad.append("printed form %r not understood (%s)" % (v, e))
                elif w == "eq_other":
                    if v is not False:
                        bad.append("== with a combination denoting another matrix gives %s" % v)
                elif v is not True:
                    bad.append("%s after the edits: %s" % (w, v))
            if bad:
                ck.fail(None, "one object a=%s after steps %s: %s" % (wire(c["a"]), c["steps"][:k + 1], "; ".join(bad)[:600]),
                        {"case": dict(c, steps=c["steps"][:k + 1]), "implementation": st, "differences": bad})
                break
    ck.cov["evaluations"] = len(cases) + stats["history_steps"]
    ck.cov["distinct_nontrivial"] = len(nt)
    ck.cov["rule"] = ("ONE object observed (matrix, simplify, str, trace, is_zero, .h, ==, scaling, square), edited in place (+=, item assignment) and observed again, every observation against the independently tracked numpy matrix; "
                      "term lists with Gaussian-integer coefficients in [-3,3]^2, repeated strings, zero coefficients, cancelling pairs, empty lists, aliased operands (a@a, a+a, a==a on one object), n<=4; "
                      "@, +, scalar *, .h, simplify, trace, is_zero, == as term dictionaries vs Model/Linear.v; for n<=3 the implementation's own numpy matrices checked against the property's clauses; "
                      "str() parsed back; non-trivial = both operands have >=2 terms")
    ck.cov["samples"] = cases[3:6]
    ck.cov["distribution"] = stats
    ck.cov["traces_validated_against_impl"] = len(cases)
    ck.finish(assumptions=["floating-point rounding, the 1e-12 / isclose tolerances and :.8g formatting are not modelled: coefficients are Gaussian integers, on which Python's arithmetic is exact"])


if __name__ == "__main__":
    run_check("C12", main)
