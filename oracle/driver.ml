(* driver.ml — line protocol around the extracted model.  One request per
   line: "op arg ..." (space separated); one answer per line.  Trusted glue:
   text<->constructors, int<->positive/N/Z/nat. *)
open Oracle

let rec pos_of_int n = if n = 1 then XH else if n land 1 = 0 then XO (pos_of_int (n lsr 1)) else XI (pos_of_int (n lsr 1))
let rec int_of_pos = function XH -> 1 | XO p -> 2 * int_of_pos p | XI p -> 2 * int_of_pos p + 1
let n_of_int n = if n = 0 then N0 else Npos (pos_of_int n)
let int_of_n = function N0 -> 0 | Npos p -> int_of_pos p
let z_of_int n = if n = 0 then Z0 else if n > 0 then Zpos (pos_of_int n) else Zneg (pos_of_int (-n))
let int_of_z = function Z0 -> 0 | Zpos p -> int_of_pos p | Zneg p -> - (int_of_pos p)
let rec nat_of_int n = if n <= 0 then O else S (nat_of_int (n - 1))
let int_of_nat n = let rec go acc = function O -> acc | S k -> go (acc + 1) k in go 0 n

let pl_of_char = function 'I' -> PI | 'X' -> PX | 'Y' -> PY | 'Z' -> PZ | c -> failwith (Printf.sprintf "bad letter %c" c)
let char_of_pl = function PI -> 'I' | PX -> 'X' | PY -> 'Y' | PZ -> 'Z'
let pstr_of_string s = if s = "-" then [] else List.init (String.length s) (fun i -> pl_of_char s.[i])
let string_of_pstr p = if p = [] then "-" else String.of_seq (List.to_seq (List.map char_of_pl p))
let gi_str (a, b) = Printf.sprintf "%d,%d" (int_of_z a) (int_of_z b)
let res_str f = function Ok a -> f a | ValueError -> "ValueError"
let bool_str b = if b then "1" else "0"
let strs l = String.concat " " (List.map string_of_pstr l)

let legs_of s = if s = "e" then [] else List.map (fun x -> nat_of_int (int_of_string x)) (String.split_on_char ',' s)
let morphs_of s = if s = "none" then [] else List.map legs_of (String.split_on_char '/' s)
let talg_str = function AU -> "u" | ASU -> "su" | ASP -> "sp" | ASO -> "so"
let cres_str f = function COk a -> f a | ClassErr -> "ClassErr"
let props_str ((t, nc), size) = Printf.sprintf "%s %d %d" (talg_str t) (int_of_z nc) (int_of_z size)
let terms_str l = String.concat ";" (List.map (fun ((t, size), m2) -> Printf.sprintf "%s,%d,%d" (talg_str t) (int_of_z size) (int_of_z m2)) l)

let split c s = if s = "-" then [] else String.split_on_char c s
let morph_of s = match String.split_on_char ':' s with
  | [legs; deps] -> (List.map (fun l -> List.map pstr_of_string (split '.' l)) (split ',' legs), List.map pstr_of_string (split ',' deps))
  | _ -> failwith "bad morph"
let morphl_of s = List.map morph_of (split '/' s)

let op_of s = match String.split_on_char ':' s with
  | ["A"; p] -> Append (pstr_of_string p)
  | ["I"; i; p] -> Insert (z_of_int (int_of_string i), pstr_of_string p)
  | ["R"; p] -> Remove (pstr_of_string p)
  | ["D"; i] -> DelItem (z_of_int (int_of_string i))
  | ["P"; p; q] -> Replace (pstr_of_string p, pstr_of_string q)
  | ["C"; p; q] -> Contract (pstr_of_string p, pstr_of_string q)
  | ["E"; n] -> Expand (nat_of_int (int_of_string n))
  | ["S"] -> Sort
  | ["Q"] -> Query
  | _ -> failwith ("bad op " ^ s)
let out_str = function Done -> "ok" | IndexError -> "IndexError" | ValueErr -> "ValueError" | Answer l -> "ans=" ^ String.concat "," (List.map string_of_pstr l)

let bools_str l = if l = [] then "-" else String.concat "" (List.map (fun b -> if b then "1" else "0") l)
(* arbitrary-size integers are printed in binary (prefix b, sign first) so that no OCaml int overflows *)
let rec pos_bin = function XH -> "1" | XO p -> pos_bin p ^ "0" | XI p -> pos_bin p ^ "1"
let z_bin = function Z0 -> "b0" | Zpos p -> "b" ^ pos_bin p | Zneg p -> "-b" ^ pos_bin p
let obj_str o = Printf.sprintf "%s,%s,%s,%s,%s" (string_of_pstr (text o)) (bools_str o.oeven) (bools_str o.oodd) (z_bin (get_index o)) (z_bin (get_diagonal_index o))

let ascii_of_int n = Ascii (n land 1 = 1, n land 2 = 2, n land 4 = 4, n land 8 = 8, n land 16 = 16, n land 32 = 32, n land 64 = 64, n land 128 = 128)
let asciis_of_hex h = List.init (String.length h / 2) (fun i -> ascii_of_int (int_of_string ("0x" ^ String.sub h (2 * i) 2)))

(* a linear combination on the wire: terms "re,im,STRING" joined by ';', "-" for the empty combination *)
let term_of s = match String.split_on_char ',' s with
  | [a; b; p] -> ((z_of_int (int_of_string a), z_of_int (int_of_string b)), pstr_of_string p)
  | _ -> failwith "bad term"
let lin_of s = if s = "-" then [] else List.map term_of (String.split_on_char ';' s)
let lin_str l = if l = [] then "-" else String.concat ";" (List.map (fun ((a, b), p) -> Printf.sprintf "%d,%d,%s" (int_of_z a) (int_of_z b) (string_of_pstr p)) l)
let dense_str n a = String.concat ";" (List.map (fun row -> String.concat " " (List.map gi_str row)) (dense (nat_of_int n) (fun r c -> denote a r c)))

let gi_of s = match String.split_on_char ',' s with [a; b] -> (z_of_int (int_of_string a), z_of_int (int_of_string b)) | _ -> failwith "bad gi"
let bits_int l = List.fold_left (fun acc b -> 2 * acc + (if b then 1 else 0)) 0 l
(* a dense matrix "a,b a,b;a,b a,b" as a function of bit-list indices *)
let mat_of s =
  let rows = Array.of_list (List.map (fun r -> Array.of_list (List.map gi_of (String.split_on_char '|' r))) (String.split_on_char ';' s)) in
  fun r c -> rows.(bits_int r).(bits_int c)
let vecs_str l = String.concat " " (List.map gi_str l)

let handle (toks : string list) : string =
  match toks with
  | ["sign"; p; q] -> res_str gi_str (sign_code (pstr_of_string p) (pstr_of_string q))
  | ["commutes"; p; q] -> res_str bool_str (commutes_code (pstr_of_string p) (pstr_of_string q))
  | ["multiply"; p; q] -> res_str string_of_pstr (multiply_code (pstr_of_string p) (pstr_of_string q))
  | ["adjoint"; p; q] -> res_str (function None -> "None" | Some r -> string_of_pstr r) (adjoint_code (pstr_of_string p) (pstr_of_string q))
  | ["conj"; p] -> string_of_int (int_of_z (conj_code (pstr_of_string p)))
  | ["weight"; p] -> string_of_int (int_of_z (weight_code (pstr_of_string p)))
  | ["matrix"; p] ->
      let p = pstr_of_string p in
      let d = dense (nat_of_int (List.length p)) (fun r c -> m p r c) in
      String.concat ";" (List.map (fun row -> String.concat " " (List.map gi_str row)) d)
  | "closure" :: n :: gens ->
      (match closure_strs (nat_of_int (int_of_string n)) (List.map pstr_of_string gens) with
       | None -> "None" | Some l -> strs l)
  | "closure_card" :: n :: gens ->
      (match closure_card (nat_of_int (int_of_string n)) (List.map pstr_of_string gens) with
       | None -> "None" | Some c -> string_of_int (int_of_nat c))
  | "lieinv" :: n :: gens ->
      (match lie_inv (nat_of_int (int_of_string n)) (List.map pstr_of_string gens) with
       | None -> "None"
       | Some (c, l) -> String.concat ";" (string_of_int (int_of_nat c) ::
           List.map (fun ((a, b), d) -> Printf.sprintf "%d,%d,%d" (int_of_nat a) (int_of_nat b) (int_of_nat d)) l))
  | "components" :: n :: gens ->
      String.concat ";" (List.map strs (gen_components_strs (nat_of_int (int_of_string n)) (List.map pstr_of_string gens)))
  | ["algprops"; l] -> cres_str props_str (algprops (legs_of l))
  | ["algprops_old"; l] -> cres_str props_str (algprops_old (legs_of l))
  | ["algebra"; ms] -> cres_str terms_str (algebra_terms (morphs_of ms))
  | ["dladim"; ms] -> cres_str (fun z -> string_of_int (int_of_z z)) (dla_dim (morphs_of ms))
  | ["dladim_old"; ms] -> cres_str (fun z -> string_of_int (int_of_z z)) (dla_dim_old (morphs_of ms))
  | ["reduction"; n; gens; ms] ->
      let v = reduction_check_strs (nat_of_int (int_of_string n)) (List.map pstr_of_string (split ',' gens)) (morphl_of ms) in
      Printf.sprintf "shape=%s acct=%s deps=%s closure=%s comps=%s" (bool_str v.v_shape) (bool_str v.v_acct) (bool_str v.v_deps) (bool_str v.v_closure) (bool_str v.v_comps)
  | ["shapeacct"; gens; ms] ->
      let (a, b) = shape_acct_strs (List.map pstr_of_string (split ',' gens)) (morphl_of ms) in
      Printf.sprintf "shape=%s acct=%s" (bool_str a) (bool_str b)
  | ["member"; n; gens; xs] ->
      let a = member_strs (nat_of_int (int_of_string n)) (List.map pstr_of_string (split ',' gens)) (List.map pstr_of_string (split ',' xs)) in
      Printf.sprintf "in=%s eq=%s sel=%s" (bool_str a.m_in) (bool_str a.m_eq) (String.concat "," (List.map string_of_pstr a.m_sel))
  | ["space"; n; gens] -> strs (space_strs (nat_of_int (int_of_string n)) (List.map pstr_of_string (split ',' gens)))
  | "collection" :: fixed :: init :: ops ->
      (* replays the history step by step so that the state after every step is printed *)
      let fx = (fixed = "1") in
      let s0 = mk (List.map pstr_of_string (split ',' init)) in
      let (_, acc) = List.fold_left (fun (s, acc) o ->
          let (s', outs) = run fx s [op_of o] in
          (s', (String.concat "," (List.map string_of_pstr s'.gens) ^ "|" ^ String.concat "" (List.map out_str outs)) :: acc)) (s0, []) ops in
      String.concat ";" ((String.concat "," (List.map string_of_pstr s0.gens)) :: List.rev acc)
  | "edits" :: p :: ops ->
      let o0 = fresh (pstr_of_string p) in
      let (_, acc) = List.fold_left (fun (o, acc) e ->
          match String.split_on_char ':' e with
          | ["S"; start; sub] ->
              let (o', ok) = set_substring o (z_of_int (int_of_string start)) (pstr_of_string sub) in
              (o', (obj_str o' ^ (if ok then ",ok" else ",IndexError")) :: acc)
          | ["N"] -> let o' = inc o in (o', (obj_str o' ^ ",ok") :: acc)
          | _ -> failwith "bad edit") (o0, []) ops in
      String.concat ";" (obj_str o0 :: List.rev acc)
  | ["genall"; n] -> strs (gen_all (nat_of_int (int_of_string n)))
  | ["parse"; fixed; hex] ->
      (match parse_text (fixed = "1") (asciis_of_hex (if hex = "-" then "" else hex)) with POk p -> "ok " ^ string_of_pstr p | PErr -> "ValueError")
  | "klocal" :: n :: gens ->
      res_str strs (k_local_generators (nat_of_int (int_of_string n)) (List.map pstr_of_string gens))
  | ["sufamilies"] -> String.concat ";" (List.map (fun ((k, n0), g) -> Printf.sprintf "a%d %d %s" (int_of_nat k) (int_of_nat n0) (String.concat "," (List.map string_of_pstr g))) su_family_table)
  | ["universal"; n; k] -> res_str strs (universal (nat_of_int (int_of_string n)) (nat_of_int (int_of_string k)))
  | "nested" :: seq -> (match nested_eval (List.map pstr_of_string seq) with None -> "None" | Some r -> string_of_pstr r)
  | "compileok" :: n :: k :: target :: seq ->
      bool_str (compile_ok (nat_of_int (int_of_string n)) (nat_of_int (int_of_string k)) (pstr_of_string target) (List.map pstr_of_string seq))
  | "commutants" :: n :: gens -> strs (commutants (nat_of_int (int_of_string n)) (List.map pstr_of_string gens))
  | "charges" :: n :: gens -> strs (charges (nat_of_int (int_of_string n)) (List.map pstr_of_string gens))
  | "agraph" :: gens ->
      let (_, es) = anticommutation_graph (List.map pstr_of_string gens) in
      String.concat " " (List.map (fun ((a, b), c) -> string_of_pstr a ^ ":" ^ string_of_pstr b ^ ":" ^ string_of_pstr c) es)
  | "cgraph" :: n :: gens ->
      let (vs, es) = commutator_graph (nat_of_int (int_of_string n)) (List.map pstr_of_string gens) in
      string_of_int (List.length vs) ^ " " ^ String.concat " " (List.map (fun ((a, b), _) -> string_of_pstr a ^ ":" ^ string_of_pstr b) es)
  | "acomps" :: gens -> String.concat ";" (List.map strs (anti_components (List.map pstr_of_string gens)))
  | "ccomps" :: n :: gens -> String.concat ";" (List.map strs (commutator_components (nat_of_int (int_of_string n)) (List.map pstr_of_string gens)))
  | "otoc" :: n :: v :: w :: gens ->
      (match otoc_counts (nat_of_int (int_of_string n)) (List.map pstr_of_string gens) (pstr_of_string v) (pstr_of_string w) with
       | None -> "None" | Some (a, s) -> Printf.sprintf "%d %d" (int_of_nat a) (int_of_nat s))
  | "complexity" :: n :: v :: gens ->
      (match complexity_counts (nat_of_int (int_of_string n)) (List.map pstr_of_string gens) (pstr_of_string v) with
       | None -> "None" | Some (a, s) -> Printf.sprintf "%d %d" (int_of_nat a) (int_of_nat s))
  | ["lin"; op; a; b] ->
      let x = lin_of a and y = lin_of b in
      (match op with
       | "simplify" -> lin_str (simplify x)
       | "add" -> lin_str (ladd x y)
       | "herm" -> lin_str (lherm x)
       | "matmul" -> lin_str (lmatmul x y)
       | "matmul_alias_old" -> lin_str (lmatmul_alias_old x)
       | "trace" -> gi_str (ltrace x)
       | "trace_old" -> gi_str (ltrace_old x)
       | "is_zero" -> bool_str (lis_zero x)
       | "is_zero_old" -> bool_str (lis_zero_old x)
       | "eq" -> bool_str (leq x y)
       | "dense" -> dense_str (int_of_nat (size_of x)) x
       | _ -> "ERR lin op")
  | ["linscale"; re; im; a] -> lin_str (lscale (z_of_int (int_of_string re), z_of_int (int_of_string im)) (lin_of a))
  | ["decomp"; n; m] -> let n' = nat_of_int (int_of_string n) in let a = mat_of m in
      let x = decompose n' a and y = decompose_iter n' a in
      if x = y then vecs_str x else "ERR block-recursive and iterative butterfly differ"
  | ["decompdiag"; n; m] -> let v = Array.of_list (List.map gi_of (String.split_on_char '|' m)) in
      let n' = nat_of_int (int_of_string n) in let d = (fun r -> v.(bits_int r)) in
      let x = decompose_diag n' d and y = decompose_diag_iter n' d in
      if x = y then vecs_str y else "ERR block-recursive and iterative diagonal butterfly differ"
  | ["pindex"; p] -> let p = pstr_of_string p in
      Printf.sprintf "%d %s" (int_of_nat (index p)) (match dindex p with None -> "-1" | Some k -> string_of_int (int_of_nat k))
  | ["pweights"; n; pos] -> String.concat " " (List.map (fun k -> string_of_int (int_of_nat k)) (pauli_weights (nat_of_int (int_of_string n)) (nat_of_int (int_of_string pos))))
  | ["weightin"; p; v] -> res_str gi_str (weight_in (pstr_of_string p) (List.map gi_of (String.split_on_char '|' v)))
  | ["shapeok"; a; b; c] -> bool_str (shape_ok (nat_of_int (int_of_string a)) (nat_of_int (int_of_string b)) (nat_of_int (int_of_string c)))
  | ["dshapeok"; a; b] -> bool_str (diag_shape_ok (nat_of_int (int_of_string a)) (nat_of_int (int_of_string b)))
  | "qbasis" :: n :: gens ->
      String.concat "/" (List.map lin_str (full_basis (nat_of_int (int_of_string n)) (List.map pstr_of_string gens)))
  | "twirl" :: n :: m :: gens ->
      String.concat ";" (List.map (fun ((c, den), p) -> Printf.sprintf "%s,%d,%s" (gi_str c) (int_of_nat den) (string_of_pstr p))
        (twirl (nat_of_int (int_of_string n)) (List.map pstr_of_string gens) (lin_of m)))
  | _ -> "ERR unknown request"

let () =
  try
    while true do
      let line = input_line stdin in
      let toks = List.filter (fun s -> s <> "") (String.split_on_char ' ' (String.trim line)) in
      let out = try handle toks with e -> "ERR " ^ Printexc.to_string e in
      print_string out; print_char '\n'
    done
  with End_of_file -> ()
