(* driver.ml — line protocol around the extracted model.  One request per
   line: "op arg ..." (space separated); one answer per line.  Trusted glue:
   text<->constructors, int<->positive/N/Z/nat. *)
open Oracle

let rec pos_of_int n = if n = 1 then XH else if n land 1 = 0 then XO (pos_of_int (n lsr 1)) else XI (pos_of_int (n lsr 1))
let rec int_of_pos = function XH -> 1 | XO p -> 2 * int_of_pos p | XI p -> 2 * int_of_pos p + 1
let n_of_int n = if n = 0 then N0 else Npos (pos_of_int n)
let int_of_n = function N0 -> 0 | Npos p -> int_of_pos p
let z_of_int n = if n = 0 then Z0 else if n > 0 then Zpos (pos_of_int n) else Zneg (pos_of_int (-n))
let int_of_z = function Z0 -> 0 | Zpos p -> int_of_pos p | Zneg p -> - (int_of_pos p)
let rec nat_of_int n = if n <= 0 then O else S (nat_of_int (n - 1))
let int_of_nat n = let rec go acc = function O -> acc | S k -> go (acc + 1) k in go 0 n

let pl_of_char = function 'I' -> PI | 'X' -> PX | 'Y' -> PY | 'Z' -> PZ | c -> failwith (Printf.sprintf "bad letter %c" c)
let char_of_pl = function PI -> 'I' | PX -> 'X' | PY -> 'Y' | PZ -> 'Z'
let pstr_of_string s = if s = "-" then [] else List.init (String.length s) (fun i -> pl_of_char s.[i])
let string_of_pstr p = if p = [] then "-" else String.of_seq (List.to_seq (List.map char_of_pl p))
let gi_str (a, b) = Printf.sprintf "%d,%d" (int_of_z a) (int_of_z b)
let res_str f = function Ok a -> f a | ValueError -> "ValueError"
let bool_str b = if b then "1" else "0"
let strs l = String.concat " " (List.map string_of_pstr l)

let handle (toks : string list) : string =
  match toks with
  | ["sign"; p; q] -> res_str gi_str (sign_code (pstr_of_string p) (pstr_of_string q))
  | ["commutes"; p; q] -> res_str bool_str (commutes_code (pstr_of_string p) (pstr_of_string q))
  | ["multiply"; p; q] -> res_str string_of_pstr (multiply_code (pstr_of_string p) (pstr_of_string q))
  | ["adjoint"; p; q] -> res_str (function None -> "None" | Some r -> string_of_pstr r) (adjoint_code (pstr_of_string p) (pstr_of_string q))
  | ["conj"; p] -> string_of_int (int_of_z (conj_code (pstr_of_string p)))
  | ["weight"; p] -> string_of_int (int_of_z (weight_code (pstr_of_string p)))
  | ["matrix"; p] ->
      let p = pstr_of_string p in
      let d = dense (nat_of_int (List.length p)) (fun r c -> m p r c) in
      String.concat ";" (List.map (fun row -> String.concat " " (List.map gi_str row)) d)
  | "closure" :: n :: gens ->
      (match closure_strs (nat_of_int (int_of_string n)) (List.map pstr_of_string gens) with
       | None -> "None" | Some l -> strs l)
  | "closure_card" :: n :: gens ->
      (match closure_card (nat_of_int (int_of_string n)) (List.map pstr_of_string gens) with
       | None -> "None" | Some c -> string_of_int (int_of_nat c))
  | _ -> "ERR unknown request"

let () =
  try
    while true do
      let line = input_line stdin in
      let toks = List.filter (fun s -> s <> "") (String.split_on_char ' ' (String.trim line)) in
      let out = try handle toks with e -> "ERR " ^ Printexc.to_string e in
      print_string out; print_char '\n'
    done
  with End_of_file -> ()
