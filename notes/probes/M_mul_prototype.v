From Coq Require Import ZArith List Bool Lia.
Import ListNotations.
Open Scope Z_scope.
(* Gaussian integers *)
Definition gi := (Z * Z)%type.
Definition g0 : gi := (0,0). Definition g1 : gi := (1,0).
Definition gadd (a b: gi) : gi := (fst a + fst b, snd a + snd b).
Definition gmul (a b: gi) : gi := (fst a * fst b - snd a * snd b, fst a * snd b + snd a * fst b).
Inductive pl := I | X | Y | Z_.
Definition sig (p: pl) (r c: bool) : gi :=
  match p, r, c with
  | I, false, false | I, true, true => g1
  | X, false, true | X, true, false => g1
  | Y, false, true => (0,-1) | Y, true, false => (0,1)
  | Z_, false, false => g1 | Z_, true, true => (-1,0)
  | _, _, _ => g0 end.
Fixpoint M (p: list pl) (r c: list bool) : gi :=
  match p, r, c with
  | [], [], [] => g1
  | a::p', b::r', d::c' => gmul (sig a b d) (M p' r' c')
  | _, _, _ => g0 end.
Fixpoint bv (n: nat) : list (list bool) :=
  match n with O => [[]] | S n' => map (cons false) (bv n') ++ map (cons true) (bv n') end.
Definition gsum {A} (l: list A) (f: A -> gi) : gi := fold_right (fun x acc => gadd (f x) acc) g0 l.
Definition mmul n (A B: list bool -> list bool -> gi) r c := gsum (bv n) (fun k => gmul (A r k) (B k c)).
Definition xb p := match p with X | Y => true | _ => false end.
Definition zb p := match p with Y | Z_ => true | _ => false end.
Definition ofb (x z: bool) := match x, z with false,false => I | true,false => X | true,true => Y | false,true => Z_ end.
Definition pm a b := ofb (xorb (xb a) (xb b)) (xorb (zb a) (zb b)).
Definition ph1 (a b: pl) : gi :=
  match a, b with
  | X, Y | Y, Z_ | Z_, X => (0,1)
  | Y, X | Z_, Y | X, Z_ => (0,-1)
  | _, _ => g1 end.
Fixpoint smul (p q: list pl) := match p, q with a::p', b::q' => pm a b :: smul p' q' | _, _ => [] end.
Fixpoint phase (p q: list pl) : gi := match p, q with a::p', b::q' => gmul (ph1 a b) (phase p' q') | _, _ => g1 end.

Lemma gi_eq (a b: gi) : fst a = fst b -> snd a = snd b -> a = b.
Proof. destruct a, b; simpl; congruence. Qed.
Ltac gring := apply gi_eq; unfold gmul, gadd, g0, g1; simpl; ring.
Lemma gsum_app {A} (l1 l2: list A) f : gsum (l1 ++ l2) f = gadd (gsum l1 f) (gsum l2 f).
Proof. induction l1; simpl. - destruct (gsum l2 f); reflexivity. - rewrite IHl1. gring. Qed.
Lemma gsum_map {A B} (g: A -> B) l f : gsum (map g l) f = gsum l (fun x => f (g x)).
Proof. induction l; simpl; congruence. Qed.
Lemma gsum_scale {A} (l: list A) f c : gsum l (fun x => gmul c (f x)) = gmul c (gsum l f).
Proof. induction l; simpl. - gring. - rewrite IHl. gring. Qed.
Lemma gsum_ext {A} (l: list A) f g : (forall x, In x l -> f x = g x) -> gsum l f = gsum l g.
Proof. induction l; simpl; intros H; [reflexivity|]. rewrite H by auto. rewrite IHl; auto. Qed.
Lemma bv_len n k : In k (bv n) -> length k = n.
Proof. revert k; induction n; simpl; intros k H. - destruct H as [<-|[]]; reflexivity.
  - apply in_app_or in H. destruct H as [H|H]; apply in_map_iff in H; destruct H as [k' [<- H]]; simpl; f_equal; auto. Qed.
Lemma sig_mul a b r c : gadd (gmul (sig a r false) (sig b false c)) (gmul (sig a r true) (sig b true c)) = gmul (ph1 a b) (sig (pm a b) r c).
Proof. destruct a, b, r, c; reflexivity. Qed.

Theorem M_mul : forall n p q r c, length p = n -> length q = n -> length r = n -> length c = n ->
  mmul n (M p) (M q) r c = gmul (phase p q) (M (smul p q) r c).
Proof.
  induction n; intros p q r c Hp Hq Hr Hc.
  - destruct p, q, r, c; try discriminate. reflexivity.
  - destruct p as [|a p], q as [|b q], r as [|r0 r], c as [|c0 c]; try discriminate.
    injection Hp as Hp; injection Hq as Hq; injection Hr as Hr; injection Hc as Hc.
    unfold mmul. simpl bv. rewrite gsum_app, !gsum_map. cbn [M smul phase].
    specialize (IHn p q r c Hp Hq Hr Hc). unfold mmul in IHn.
    rewrite (gsum_ext _ _ (fun k => gmul (gmul (sig a r0 false) (sig b false c0)) (gmul (M p r k) (M q k c)))).
    2:{ intros; gring. }
    rewrite (gsum_ext (bv n) (fun x => gmul (gmul (sig a r0 true) (M p r x)) _) (fun k => gmul (gmul (sig a r0 true) (sig b true c0)) (gmul (M p r k) (M q k c)))).
    2:{ intros; gring. }
    rewrite !gsum_scale, IHn.
    replace (gmul (gmul (ph1 a b) (phase p q)) (gmul (sig (pm a b) r0 c0) (M (smul p q) r c)))
      with (gmul (gmul (ph1 a b) (sig (pm a b) r0 c0)) (gmul (phase p q) (M (smul p q) r c))) by gring.
    rewrite <- (sig_mul a b r0 c0).
    gring.
Qed.
Print Assumptions M_mul.
