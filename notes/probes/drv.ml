open Clo
let rec pos_of_int n = if n = 1 then XH else if n land 1 = 0 then XO (pos_of_int (n lsr 1)) else XI (pos_of_int (n lsr 1))
let n_of_int n = if n = 0 then N0 else Npos (pos_of_int n)
let rec int_of_nat = function O -> 0 | S k -> 1 + int_of_nat k
let enc s =
  let x = ref 0 and z = ref 0 in
  String.iter (fun ch -> x := (!x lsl 1) lor (if ch='X'||ch='Y' then 1 else 0); z := (!z lsl 1) lor (if ch='Y'||ch='Z' then 1 else 0)) s;
  (n_of_int !x, n_of_int !z)
let () =
  let n = int_of_string Sys.argv.(1) in
  let gens = List.tl (List.tl (Array.to_list Sys.argv)) in
  match closure_card (n_of_int n) (List.map enc gens) with
  | Some c -> Printf.printf "%d\n" (int_of_nat c)
  | None -> print_endline "None"
