import sys, random, signal
sys.path.insert(0,'/repo/src')
from fastcl import *
from paulie import get_pauli_string as p, get_optimal_su_2_n_generators, G_LIE, construct_universal_set
class TO(Exception): pass
def h(*a): raise TO()
signal.signal(signal.SIGALRM,h)
for n in (3,4,5):
  for name in ("a12","a17","a19","a22"):
    for seed in range(3):
        random.seed(seed)
        g=p(G_LIE[name],n=n)
        if n==3 and name in('a12','a17'): continue
        signal.alarm(20)
        try:
            r=get_optimal_su_2_n_generators(g)
            signal.alarm(0)
            rs=[str(x) for x in r]
            c1=closure([enc(str(x)) for x in g],n); c2=closure([enc(x) for x in rs],n)
            print(n,name,seed,'in',len(g),'out',len(rs),'distinct',len(set(rs)),'2n+1',2*n+1,'closure eq',c1==c2, len(c1),len(c2))
        except TO: print(n,name,seed,'TIMEOUT')
        except Exception as e:
            signal.alarm(0); print(n,name,seed,'EXC',repr(e))
