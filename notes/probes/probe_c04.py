import sys, itertools, numpy as np
sys.path.insert(0,'/repo/src')
from paulie import PauliString
bad=0
for n in (1,2,3):
    strs=[''.join(t) for t in itertools.product('IXYZ',repeat=n)]
    mats={s:PauliString(pauli_str=s).get_matrix() for s in strs}
    for a in strs:
        A=PauliString(pauli_str=a)
        cs,_=A.complex_conj()
        if not np.array_equal(np.conj(mats[a]), cs*mats[a]): bad+=1; print('conj',a)
        for b in strs:
            B=PauliString(pauli_str=b)
            R=A@B; s=A.sign(B)
            if not np.array_equal(mats[a]@mats[b], s*mats[str(R)]): bad+=1; print('prod',a,b)
            comm=np.array_equal(mats[a]@mats[b],mats[b]@mats[a])
            if (A|B)!=comm: bad+=1; print('comm',a,b)
            adj=A^B
            if (adj is None)!=comm or (adj is not None and str(adj)!=str(R)): bad+=1; print('adj',a,b)
print('bad',bad)
for f in ('sign','commutes_with','multiply','adjoint_map'):
    try:
        print(f, getattr(PauliString(pauli_str='XY'),f)(PauliString(pauli_str='X')))
    except ValueError as e: print(f,'ValueError')
    except Exception as e: print(f,type(e))
