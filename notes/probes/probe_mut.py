import sys, random
sys.path.insert(0,'/repo/src')
from paulie import get_pauli_string as p
random.seed(7); bad=0; N=1500
for t in range(N):
    n=random.randint(2,5)
    gens=[''.join(random.choice('IXYZ') for _ in range(n)) for _ in range(random.randint(2,8))]
    xs=[''.join(random.choice('IXYZ') for _ in range(n)) for _ in range(random.randint(1,4))]
    G=p(gens)
    before=(G.get_algebra(), sorted(sorted(tuple(tuple(map(str,leg)) for leg in m.get_legs())) for m in G.get_class().get_morphs()))
    q=random.choice(('is_in','select','space','is_eq'))
    try:
        if q=='is_in': G.is_in(p(xs))
        elif q=='select': G.select_dependents(p(xs))
        elif q=='space' and n<=3: G.get_space()
        else: G.is_eq(p(xs))
    except Exception as e: pass
    after=(G.get_algebra(), sorted(sorted(tuple(tuple(map(str,leg)) for leg in m.get_legs())) for m in G.get_class().get_morphs()))
    if before!=after:
        bad+=1
        if bad<4: print(q,gens,xs,before,after)
print('mutated',bad,'of',N)
