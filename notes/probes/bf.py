import sys, itertools, random, collections
sys.path.insert(0,'/repo/src')
from paulie import get_pauli_string as p, PauliString, PauliStringCollection

L='IXYZ'
def enc(s):
    x=z=0
    for ch in s:
        x=(x<<1)|(ch in 'XY'); z=(z<<1)|(ch in 'YZ')
    return (x,z)
def dec(v,n):
    x,z=v
    return ''.join('IXZY'[((x>>(n-1-i))&1)+2*((z>>(n-1-i))&1)] for i in range(n))
def anti(a,b):
    return (bin(a[0]&b[1]).count('1')+bin(a[1]&b[0]).count('1'))&1
def closure(gens):
    S=set(gens); 
    frontier=list(S)
    while frontier:
        new=[]
        for a in frontier:
            for b in list(S):
                if anti(a,b):
                    c=(a[0]^b[0],a[1]^b[1])
                    if c not in S:
                        S.add(c); new.append(c)
        frontier=new
    return S
def components(S):
    S=list(S); idx={v:i for i,v in enumerate(S)}
    par=list(range(len(S)))
    def f(i):
        while par[i]!=i:
            par[i]=par[par[i]]; i=par[i]
        return i
    for i,a in enumerate(S):
        for j in range(i):
            if anti(a,S[j]):
                par[f(i)]=f(j)
    comps=collections.defaultdict(list)
    for i,a in enumerate(S): comps[f(i)].append(a)
    return list(comps.values())
if __name__=='__main__':
    n=int(sys.argv[1]); m=int(sys.argv[2]); N=int(sys.argv[3])
    random.seed(1)
    dimf={'su':lambda k:k*k-1,'so':lambda k:k*(k-1)//2,'sp':lambda k:k*(2*k+1),'u':lambda k:1}
    bad=0
    for t in range(N):
        gens=[''.join(random.choice(L) for _ in range(n)) for _ in range(random.randint(1,m))]
        try:
            alg=p(gens).get_algebra()
        except Exception as e:
            alg='EXC '+repr(e)
        cl=closure(set(enc(g) for g in gens))
        # dim from name
        try:
            d=0
            for term in alg.split('+'):
                mult=1
                if '*' in term:
                    a,b=term.split('*'); mult=float(a); term=b
                fam=term[:term.index('(')]; k=int(term[term.index('(')+1:-1])
                d+=mult*dimf[fam](k)
        except Exception as e:
            d=-1
        if d!=len(cl):
            bad+=1
            if bad<15: print(gens,alg,d,len(cl))
    print('bad',bad,'of',N)
