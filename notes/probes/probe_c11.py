import sys, random
sys.path.insert(0,'/repo/src')
from fastcl import *
from paulie import get_pauli_string as p, RecordGraph
n=int(sys.argv[1]); N=int(sys.argv[2]); random.seed(int(sys.argv[3]))
bad=0;exc=0;lastbad=0
for t in range(N):
    gens=[''.join(random.choice('IXYZ') for _ in range(n)) for _ in range(random.randint(1,7))]
    a=p(gens); b=p(gens); rec=RecordGraph(); b.set_record(rec)
    try:
        ra=(sorted(a.get_algebra().split('+')), sorted(map(str,a.get_dependents())))
        rb=(sorted(b.get_algebra().split('+')), sorted(map(str,b.get_dependents())))
    except Exception as e:
        exc+=1
        if exc<4: print('EXC',gens,repr(e))
        continue
    if ra!=rb:
        bad+=1
        if bad<5: print(gens,ra,rb)
    # last frame
    if rec.get_size()>0:
        g=rec.get_graph(rec.get_size()-1)
        if g is not None:
            if sorted(g[0])!=sorted(map(str,b.get_canonic_vertices())):
                lastbad+=1
                if lastbad<4: print('LAST',gens,sorted(g[0]),sorted(map(str,b.get_canonic_vertices())))
print('bad',bad,'exc',exc,'lastbad',lastbad,'of',N)
