import sys, itertools, random
sys.path.insert(0,'/repo/src')
import numpy as np
from paulie import PauliString, matrix_decomposition, matrix_decomposition_diagonal, get_pauli_weights
rng=np.random.default_rng(0)
bad=0
for n in (1,2,3,4):
    strs=[''.join(t) for t in itertools.product('IXYZ',repeat=n)]
    P={s:PauliString(pauli_str=s) for s in strs}
    A=rng.integers(-3,4,(2**n,2**n))+1j*rng.integers(-3,4,(2**n,2**n))
    w=matrix_decomposition(A)
    R=sum(P[s].get_weight_in_matrix(w)*P[s].get_matrix() for s in strs)
    if not np.array_equal(R,A): bad+=1; print('recon',n)
    for s in strs:
        if P[s].get_weight_in_matrix(w)!=np.trace(P[s].get_matrix()@A)/2**n: bad+=1; print('coef',n,s); break
    d=rng.integers(-3,4,2**n)+1j*rng.integers(-3,4,2**n)
    wd=matrix_decomposition_diagonal(d); wg=matrix_decomposition(np.diag(d))
    for s in strs:
        if P[s].get_weight_in_matrix(wd)!=P[s].get_weight_in_matrix(wg): bad+=1; print('diag',n,s); break
    pw=get_pauli_weights(n)
    for s in strs:
        if pw[P[s].get_index()]!=sum(ch!='I' for ch in s): bad+=1; print('wt',n,s); break
print('bad',bad)
for M in (np.zeros((2,3)),np.zeros((3,3)),np.zeros((1,1)),np.zeros(4),np.array(5.0),np.zeros((0,0)),np.zeros((2,2,2))):
    try: matrix_decomposition(M); print(M.shape,'accepted')
    except ValueError: print(M.shape,'ValueError')
    except Exception as e: print(M.shape,type(e))
for d in (np.zeros(3),np.zeros(1),np.zeros((2,2)),np.zeros(0)):
    try: matrix_decomposition_diagonal(d); print(d.shape,'accepted')
    except ValueError: print(d.shape,'ValueError')
    except Exception as e: print(d.shape,type(e))
