import sys, itertools, collections, dis
sys.path.insert(0,'/repo/src')
from paulie import get_pauli_string as p, compile_target
from paulie.application import pauli_compiler as pc
code=pc.OptimalPauliCompiler.compile.__code__
code2=pc.left_map_over_a.__code__
offs={i.offset:(i.positions.lineno if i.positions else None) for c in (code,code2) for i in dis.get_instructions(c)}
mon=sys.monitoring; TID=3
mon.use_tool_id(TID,'verif')
last={}
def on_ret(c,off,val):
    if c is code: last['ret']=list(code.co_positions())[off//2][0]
def on_raise(c,off,exc):
    if c is code or c is code2: last.setdefault('raise',(c.co_name,list(c.co_positions())[off//2][0]))
mon.register_callback(TID,mon.events.PY_RETURN,on_ret)
mon.register_callback(TID,mon.events.RAISE,on_raise)
mon.set_local_events(TID,code,mon.events.PY_RETURN); mon.set_events(TID,mon.events.RAISE)

stats=collections.Counter()
for N,k in [(4,2),(4,3)]:
    for tgt in itertools.product('IXYZ',repeat=N):
        s=''.join(tgt)
        if set(s)=={'I'}: continue
        last.clear()
        try:
            seq=compile_target(p(s),k)
            cur=seq[-1] if seq else None
            for op in reversed(seq[:-1]):
                cur=op^cur
                if cur is None: break
            ok=bool(seq) and cur is not None and str(cur)==s
            stats[(N,k,'ret',last.get('ret'),ok)]+=1
        except RuntimeError as e:
            stats[(N,k,'exc',str(e),last.get('raise'))]+=1
for k,v in sorted(stats.items(),key=str): print(k,v)
