import sys
sys.path.insert(0,'/repo/src')
import numpy as np
from paulie import get_pauli_string as p, PauliStringLinear
a=p([(1,'X'),(1,'Z')])
print('a@a =',a@a, ' expected 2*I'); 
b=p([(1,'X'),(1,'Z')]); print('a@b =',a@b)
print('trace dup I:',PauliStringLinear([(1,'I'),(2,'I')]).trace(),'expected 6')
print('is_zero X-X:',PauliStringLinear([(1,'X'),(-1,'X')]).is_zero())
print('eq',PauliStringLinear([(1,'X'),(-1,'X')])==PauliStringLinear([(0,'I')]))
print(str(PauliStringLinear([(1,'X'),(-1,'X')])))
try: print(PauliStringLinear([]).get_matrix())
except Exception as e: print('empty get_matrix',repr(e))
z=a+PauliStringLinear([(-1,'X'),(-1,'Z')]); print('sum zero:',z, len(z), z.is_zero())
try: print((z@a))
except Exception as e: print('zero@a',repr(e))
print((a*2).get_matrix())
print(PauliStringLinear([(1j,'Y')]).h)
