import sys, collections, random
sys.path.insert(0,'/repo/src')
from fastcl import *
def comps_of(gens,n):
    G=list(set(gens)); par=list(range(len(G)))
    def f(i):
        while par[i]!=i: par[i]=par[par[i]]; i=par[i]
        return i
    for i in range(len(G)):
        for j in range(i):
            if anti(G[i],G[j],n): par[f(i)]=f(j)
    d=collections.defaultdict(list)
    for i,g in enumerate(G): d[f(i)].append(g)
    return list(d.values())
def lie_inv(gens,n):
    out=[]; centre=0
    for comp in comps_of(gens,n):
        if len(comp)==1: centre+=1; continue
        C=closure(comp,n)
        c0=comp[0]
        zs=0
        for c in C:
            z=c0^c
            if all(not anti(z,g,n) for g in comp) and all((z^g) in C for g in comp): zs+=1
        deg=sum(anti(c0,b,n) for b in C)
        out.append((len(C),zs,deg))
    return centre, sorted(out)
dimf={'su':lambda k:k*k-1,'so':lambda k:k*(k-1)//2,'sp':lambda k:k*(2*k+1)}
def degf(fam,k):
    # anticommutation degree of an element in the standard Pauli realisation of ONE simple copy
    if fam=='so': return 2*(k-2)
    if fam=='su': return k*k//2
    if fam=='sp': return None
def name_inv(alg):
    centre=0; out=collections.Counter()
    for term in alg.replace(' ','').split('+'):
        mult=1
        if '*' in term: a,b=term.split('*'); mult=int(float(a)); term=b
        fam=term[:term.index('(')]; k=int(term[term.index('(')+1:-1])
        if fam=='u' or (fam=='so' and k==2): centre+=mult; continue
        out[(fam,k)]+=mult
    return centre,out
if __name__=='__main__':
    from paulie import get_pauli_string as p, G_LIE, two_local_algebras
    for name,n in [('a1',4),('a3',4),('b4',3),('a2',4),('a13',4),('a9',4),('a8',5),('a6',4),('a5',6),('b3',3),('a3',3)]:
        g=[enc(str(x)) for x in p(G_LIE[name],n=n)]
        print(name,n,two_local_algebras(n)[name],'|',p(G_LIE[name],n=n).get_algebra(),'|',lie_inv(g,n))
    g=['XX','YY','ZZ','ZY']; print('III.8',p(g).get_algebra(), lie_inv([enc(x) for x in g],2))
