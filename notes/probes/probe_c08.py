import sys, random, itertools
sys.path.insert(0,'/repo/src')
from fastcl import *
from paulie import get_pauli_string as p, PauliStringCollection, PauliString
n=int(sys.argv[1]); N=int(sys.argv[2]); random.seed(int(sys.argv[3]))
stats=dict(space=0,isin=0,seldep=0,iseq=0,dim=0,exc=0)
ex={}
for t in range(N):
    gens=[''.join(random.choice('IXYZ') for _ in range(n)) for _ in range(random.randint(1,5))]
    xs=[''.join(random.choice('IXYZ') for _ in range(n)) for _ in range(random.randint(1,3))]
    cl=closure([enc(g) for g in gens],n)
    G=p(gens)
    try:
        sp=G.get_space()
        got=set(enc(str(s)) for s in sp) if sp is not False else None
        if got!=set(c for c in cl if c!=0):
            stats['space']+=1; ex.setdefault('space',(gens,sorted(dec(c,n) for c in cl),sorted(dec(c,n) for c in got) if got is not None else None))
    except Exception as e:
        stats['exc']+=1; ex.setdefault('exc',(gens,repr(e)))
    try:
        r=p(gens).is_in(p(xs))
        want=all(enc(x) in cl for x in xs)
        if r!=want: stats['isin']+=1; ex.setdefault('isin',(gens,xs,r,want))
    except Exception as e:
        stats['exc']+=1; ex.setdefault('exc2',(gens,xs,repr(e)))
    try:
        r=p(gens).select_dependents(p(xs))
        got=sorted(set(str(s) for s in r))
        want=sorted(set(x for x in xs if enc(x) in cl))
        if got!=want: stats['seldep']+=1; ex.setdefault('seldep',(gens,xs,got,want))
    except Exception as e:
        stats['exc']+=1; ex.setdefault('exc3',(gens,xs,repr(e)))
    d=p(gens).get_dla_dim()
    if d!=len(cl): stats['dim']+=1; ex.setdefault('dim',(gens,d,len(cl),p(gens).get_algebra()))
print(stats)
for k,v in ex.items(): print(k,v)
