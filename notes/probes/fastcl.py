import sys
sys.path.insert(0,'/repo/src')
def enc(s):
    v=0
    for ch in s:
        v=(v<<2)|{'I':0,'X':2,'Y':3,'Z':1}[ch]
    return v
def dec(v,n):
    return ''.join('IZXY'[(v>>(2*(n-1-i)))&3] for i in range(n))
def masks(n):
    mx=0
    for i in range(n): mx|=2<<(2*i)
    return mx, mx>>1
def anti(a,b,n,_c={}):
    if n not in _c: _c[n]=masks(n)
    mx,mz=_c[n]
    ax=(a&mx)>>1; az=a&mz; bx=(b&mx)>>1; bz=b&mz
    return (bin(ax&bz).count('1')+bin(az&bx).count('1'))&1
def closure(gens,n):
    G=list(set(gens)); S=set(G); fr=list(G)
    while fr:
        nf=[]
        for a in fr:
            for g in G:
                if anti(a,g,n):
                    c=a^g
                    if c not in S: S.add(c); nf.append(c)
        fr=nf
    return S
