import sys, random, itertools
sys.path.insert(0,'/repo/src')
import numpy as np
from paulie import get_pauli_string as p, second_moment, PauliStringLinear, average_otoc, average_graph_complexity, PauliString
random.seed(1)
def mat(s): return PauliString(pauli_str=s).get_matrix()
for n in (1,2):
    for t in range(6):
        gens=list({''.join(random.choice('IXYZ') for _ in range(n)) for _ in range(random.randint(1,3))})
        G=p(gens)
        basis=G.get_full_quadratic_basis()
        d=2**n
        # constraint matrix: vec of [g⊗1+1⊗g, X]=0
        I=np.eye(d)
        rows=[]
        for g in gens:
            A=np.kron(mat(g),I)+np.kron(I,mat(g))
            D=d*d
            rows.append(np.kron(A,np.eye(D))-np.kron(np.eye(D),A.T))
        K=np.vstack(rows)
        rank=np.linalg.matrix_rank(K)
        nulld=(d*d)**2-rank
        ms=[q.get_matrix() for q in basis]
        inv=all(np.allclose((np.kron(mat(g),I)+np.kron(I,mat(g)))@m, m@(np.kron(mat(g),I)+np.kron(I,mat(g)))) for g in gens for m in ms)
        orth=all(abs(np.trace(ms[i].conj().T@ms[j]))<1e-9 for i in range(len(ms)) for j in range(i))
        print(n,gens,'basis',len(basis),'nulldim',nulld,'inv',inv,'orth',orth)
# otoc symmetry
bad=0
for t in range(300):
    n=random.choice((2,3))
    gens=list({''.join(random.choice('IXYZ') for _ in range(n)) for _ in range(random.randint(1,4))})
    V=p(''.join(random.choice('IXYZ') for _ in range(n))); W=p(''.join(random.choice('IXYZ') for _ in range(n)))
    a=average_otoc(p(gens),V,W); b=average_otoc(p(gens),W,V)
    if abs(a-b)>1e-12: bad+=1; print('asym',gens,V,W,a,b)
print('otoc asym',bad)
