import sys,time,random
sys.path.insert(0,'/repo/src')
from paulie import get_pauli_string as p, compile_target, construct_universal_set
import bitarray; print('bitarray',bitarray.__version__)
random.seed(0)
for n,m in [(3,6),(5,10),(8,16),(12,24),(16,32)]:
    t=time.time(); k=0
    while time.time()-t<2:
        g=[''.join(random.choice('IXYZ') for _ in range(n)) for _ in range(m)]
        p(g).get_algebra(); k+=1
    print(n,m,k/2,'classifications/s')
t=time.time()
import itertools
bad=0;exc=0;tot=0
for N,k in [(3,2),(4,2),(4,3),(5,2),(5,3),(5,4)]:
    b=e=0;tt=time.time()
    for tgt in itertools.product('IXYZ',repeat=N):
        s=''.join(tgt)
        if set(s)=={'I'}: continue
        try:
            seq=compile_target(p(s),k)
            cur=seq[-1] if seq else None
            for op in reversed(seq[:-1]):
                cur = op^cur
                if cur is None: break
            U=set(map(str,construct_universal_set(N,k)))
            if not seq or cur is None or str(cur)!=s or any(str(x) not in U for x in seq): b+=1
        except RuntimeError as ex:
            e+=1
    print(N,k,'bad',b,'exc',e,'of',4**N-1,'time',round(time.time()-tt,1))
