import sys, random, collections
sys.path.insert(0,'/repo/src')
from paulie import get_pauli_string as p
def ms(alg):
    c=collections.Counter()
    for term in alg.split('+'):
        mult=1
        if '*' in term: a,b=term.split('*'); mult=float(a); term=b
        c[term]+=mult
    return c
def anti(a,b): return sum(1 for x,y in zip(a,b) if x!='I' and y!='I' and x!=y)%2
def mul(a,b):
    t={('I','I'):'I',('X','X'):'I',('Y','Y'):'I',('Z','Z'):'I'}
    out=''
    for x,y in zip(a,b):
        if x=='I': out+=y
        elif y=='I': out+=x
        elif x==y: out+='I'
        else: out+=({'X','Y','Z'}-{x,y}).pop()
    return out
random.seed(int(sys.argv[1])); N=int(sys.argv[2]); bad=collections.Counter()
for t in range(N):
    n=random.randint(2,12)
    k=random.randint(2,min(2*n+3,14))
    if random.random()<0.5:
        gens=[''.join(random.choice('IXYZ') for _ in range(n)) for _ in range(k)]
    else:
        gens=[]
        for _ in range(k):
            s=['I']*n; pos=random.randrange(n-1)
            s[pos]=random.choice('XYZ'); s[pos+1]=random.choice('IXYZ'); gens.append(''.join(s))
    base=ms(p(gens).get_algebra())
    # transformations
    g2=gens[:]; random.shuffle(g2)
    g3=gens+[random.choice(gens)]
    perm=list(range(n)); random.shuffle(perm)
    g4=[''.join(s[i] for i in perm) for s in gens]
    rel=[dict(zip('IXYZ','I'+''.join(random.sample('XYZ',3)))) for _ in range(n)]
    g5=[''.join(rel[i][ch] for i,ch in enumerate(s)) for s in gens]
    g6=[s+'II' for s in gens]
    pairs=[(i,j) for i in range(len(gens)) for j in range(len(gens)) if i!=j and anti(gens[i],gens[j])]
    g7=gens[:]; g8=gens[:]
    if pairs:
        i,j=random.choice(pairs); g7[i]=mul(gens[i],gens[j]); g8=gens+[mul(gens[i],gens[j])]
    for name,g in (('shuffle',g2),('dup',g3),('perm',g4),('relabel',g5),('padI',g6),('contract',g7),('addprod',g8)):
        try: r=ms(p(g).get_algebra())
        except Exception as e: r='EXC '+repr(e)
        if r!=base:
            bad[name]+=1
            if bad[name]<3: print(name,n,gens,g,dict(base),r if isinstance(r,str) else dict(r))
print(dict(bad),'of',N)
