import sys
sys.path.insert(0,'/repo/src')
from paulie import PauliString, get_pauli_string as p
for t in ["X_4s10","ZYX_4s10","Xs 5","Xs+5","Xs1_0","X_٣","X_1","X_0","X_2Y_2","X_","X_s3","Xs","X_3Y","XY_3","X_12","X_1_2","x","X 1","X_2s1","Xs-1","X_+3","X_ 3","s3","","X_3s","X__3","X_3_","IIs2","X_2X_10s12","Xs٣", "X_1s²"]:
    try:
        r=str(PauliString(pauli_str=t)); print(repr(t),'->',r)
    except ValueError as e: print(repr(t),'ValueError',e)
    except Exception as e: print(repr(t),type(e).__name__,e)
print(p(["XY","XZ","Z"],n=4))
print(p(["XX","XX","IXX"],n=4))
