From Coq Require Import NArith PArith Bool Lia.
Open Scope N_scope.
Fixpoint ppar (p : positive) : bool :=
  match p with xH => true | xO q => ppar q | xI q => negb (ppar q) end.
Definition npar (n : N) : bool := match n with N0 => false | Npos p => ppar p end.
Lemma npar_double n : npar (N.double n) = npar n. Proof. destruct n; reflexivity. Qed.
Lemma npar_sdouble n : npar (N.succ_double n) = negb (npar n). Proof. destruct n; reflexivity. Qed.
Lemma ppar_lxor p q : npar (Pos.lxor p q) = xorb (ppar p) (ppar q).
Proof.
  revert q; induction p as [p IH|p IH|]; intros [q|q|]; cbn [Pos.lxor ppar];
    rewrite ?npar_double, ?npar_sdouble, ?IH; cbn [npar ppar].
  all: repeat match goal with |- context[ppar ?x] => destruct (ppar x) end; reflexivity.
Qed.
Lemma npar_lxor a b : npar (N.lxor a b) = xorb (npar a) (npar b).
Proof. destruct a, b; cbn [N.lxor npar]; rewrite ?ppar_lxor, ?xorb_false_r, ?xorb_false_l; reflexivity. Qed.
Lemma land_lxor_distr a b c : N.land a (N.lxor b c) = N.lxor (N.land a b) (N.land a c).
Proof. apply N.bits_inj; intro i. rewrite N.land_spec, !N.lxor_spec, !N.land_spec.
  destruct (N.testbit a i), (N.testbit b i), (N.testbit c i); reflexivity. Qed.
Definition P := (N * N)%type.
Definition mul (a b : P) : P := (N.lxor (fst a) (fst b), N.lxor (snd a) (snd b)).
Definition anti (a b : P) : bool := xorb (npar (N.land (fst a) (snd b))) (npar (N.land (snd a) (fst b))).
Lemma anti_mul_r a b c : anti a (mul b c) = xorb (anti a b) (anti a c).
Proof. unfold anti, mul; cbn [fst snd]. rewrite !land_lxor_distr, !npar_lxor.
  repeat match goal with |- context[npar ?x] => generalize (npar x); intro end.
  repeat match goal with b : bool |- _ => destruct b end; reflexivity. Qed.
Lemma mul_self a b : mul (mul a b) b = a.
Proof. destruct a, b; unfold mul; cbn [fst snd]. rewrite !N.lxor_assoc, !N.lxor_nilpotent, !N.lxor_0_r. reflexivity. Qed.
Lemma anti_self a : anti a a = false.
Proof. unfold anti. rewrite (N.land_comm (snd a)). apply xorb_nilpotent. Qed.
Print Assumptions anti_mul_r.
