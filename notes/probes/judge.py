import sys, collections, random
sys.path.insert(0,'/repo/src')
from fastcl import *
from inv2 import lie_inv
def simple_label(d,c,deg):
    """simple type of each of the c copies in a component of size d*c"""
    cands=[]
    m=2
    while m*(m-1)//2<=d:
        if m*(m-1)//2==d and m>=3: cands.append(('so',m))
        m+=1
    j=0
    while (2**j)*(2**(j+1)+1)<=d:
        if (2**j)*(2**(j+1)+1)==d: cands.append(('sp',2**j))
        j+=1
    j=1
    while 4**j-1<=d:
        if 4**j-1==d: cands.append(('su',2**j))
        j+=1
    norm=set(normal(f,k) for f,k in cands)
    if len(norm)==1: return norm.pop()
    # tie so(2m+1) vs sp(m)
    out=[]
    for f,k in cands:
        if f=='so' and deg==c*2*(k-2): out.append(normal(f,k))
        if f=='sp' and deg==c*k*(k+1): out.append(normal(f,k))
    assert len(set(out))==1,(d,c,deg,cands)
    return out[0]
def normal(f,k):
    if (f,k) in (('so',3),('su',2),('sp',1)): return ('A',1)
    if (f,k) in (('so',5),('sp',2)): return ('B',2)
    if (f,k) in (('so',6),('su',4)): return ('A',3)
    return (f,k)
def inv_multiset(gens,n):
    centre,comps=lie_inv(gens,n)
    ms=collections.Counter()
    for (size,c,deg) in comps:
        assert size%c==0
        ms[simple_label(size//c,c,deg)]+=c
    return centre,ms
def name_multiset(alg, fix_so2=False):
    centre=0; ms=collections.Counter()
    for term in alg.replace(' ','').split('+'):
        mult=1
        if '*' in term: a,b=term.split('*'); mult=float(a); term=b
        assert mult==int(mult); mult=int(mult)
        f=term[:term.index('(')]; k=int(term[term.index('(')+1:-1])
        if f=='so' and k==2 and fix_so2 and mult>=4: k=3
        if f=='u' or (f=='so' and k==2): centre+=mult; continue
        if f=='so' and k==4: ms[('A',1)]+=2*mult; continue
        ms[normal(f,k)]+=mult
    return centre,ms
if __name__=='__main__':
    from paulie import get_pauli_string as p
    n=int(sys.argv[1]); m=int(sys.argv[2]); N=int(sys.argv[3]); random.seed(int(sys.argv[4]))
    bad=0; kinds=collections.Counter()
    for t in range(N):
        gens=[''.join(random.choice('IXYZ') for _ in range(n)) for _ in range(random.randint(1,m))]
        alg=p(gens).get_algebra()
        a=inv_multiset([enc(g) for g in gens],n); b=name_multiset(alg,True)
        for k in a[1]: kinds[k]+=1
        if a!=b:
            bad+=1
            if bad<8: print(gens,alg,a,b)
    print('bad',bad,'of',N,dict(kinds))
