import sys, random
sys.path.insert(0,'/repo/src')
from paulie import get_pauli_string as p, RecordGraph
random.seed(2); N=800; single=0; bad=0; ex=[]
for t in range(N):
    n=random.randint(2,4)
    gens=list({''.join(random.choice('IXYZ') for _ in range(n)) for _ in range(random.randint(2,7))})
    b=p(gens)
    if len(b.get_subgraphs())!=1: continue
    single+=1
    rec=RecordGraph(); b.set_record(rec)
    try:
        cv=sorted(map(str,b.get_canonic_vertices()))
    except Exception as e:
        continue
    g=rec.get_graph(rec.get_size()-1) if rec.get_size() else None
    lv=sorted(g[0]) if g else None
    if lv!=cv:
        bad+=1
        if len(ex)<4: ex.append((gens,lv,cv,rec.get_size()))
print('single-component',single,'last-frame mismatch',bad)
for e in ex: print(e)
