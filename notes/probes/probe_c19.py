import sys, re
sys.path.insert(0,'/repo/src')
from fastcl import *
from paulie import get_pauli_string as p, G_LIE, two_local_algebras
dimf={'su':lambda k:k*k-1,'so':lambda k:k*(k-1)//2,'sp':lambda k:k*(2*k+1),'u':lambda k:1}
def dim(alg):
    d=0
    for term in alg.replace(' ','').split('+'):
        mult=1
        if '*' in term: a,b=term.split('*'); mult=int(a); term=b
        fam=term[:term.index('(')]; k=int(term[term.index('(')+1:-1]); d+=mult*dimf[fam](k)
    return d
for n in range(3,8):
    tab=two_local_algebras(n)
    for name,gens in G_LIE.items():
        c=p(gens,n=n)
        cl=closure([enc(str(g)) for g in c],n)
        alg=c.get_algebra()
        ok_tab=dim(tab[name])==len(cl)
        try: ok_cls=c.is_algebra(tab[name])
        except Exception as e: ok_cls=repr(e)
        if not ok_tab or ok_cls is not True:
            print(n,name,'table',tab[name],dim(tab[name]),'closure',len(cl),'classifier',alg,'is_algebra',ok_cls)
