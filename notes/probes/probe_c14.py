import sys, random, itertools
sys.path.insert(0,'/repo/src')
from fastcl import *
from paulie import get_pauli_string as p, PauliString, non_commuting_charges
random.seed(5); bad=collections=0
import collections as C
bad=C.Counter()
for t in range(150):
    n=random.choice((1,2,3))
    gens=[''.join(random.choice('IXYZ') for _ in range(random.choice((n,n,max(1,n-1))))) for _ in range(random.randint(1,4))]
    G=p(gens); n=G.get_size()
    ge=[str(g) for g in G]
    allp=[''.join(t) for t in itertools.product('IXYZ',repeat=n)]
    com=sorted(str(x) for x in G.get_commutants())
    want=sorted(s for s in allp if all(not anti(enc(s),enc(g),n) for g in ge))
    if com!=want: bad['comm']+=1
    v,e,l=G.get_graph()
    we=[(a,b) for a,b in itertools.combinations(ge,2) if anti(enc(a),enc(b),n)]
    if v!=ge or e!=we or any(l[(a,b)]!=dec(enc(a)^enc(b),n) for a,b in we): bad['graph']+=1
    sub=sorted(sorted(str(x) for x in s) for s in G.get_subgraphs())
    # components
    S=sorted(set(ge)); par={s:s for s in S}
    def f(x):
        while par[x]!=x: x=par[x]
        return x
    for a,b in we: par[f(a)]=f(b)
    comp=C.defaultdict(list)
    for s in S: comp[f(s)].append(s)
    if sub!=sorted(sorted(c) for c in comp.values()): bad['sub']+=1
    cv,ce=G.get_commutator_graph()
    wce=set(frozenset((P,dec(enc(P)^enc(g),n))) for P in allp for g in ge if anti(enc(P),enc(g),n))
    if sorted(cv)!=sorted(allp) or set(map(frozenset,ce))!=wce or len(ce)!=len(wce): bad['cgraph']+=1; print(gens, len(ce), len(wce))
    if G.get_anticommutation_pair()!=len(we): bad['pair']+=1
    if len(ge)>1 and abs(G.get_anticommutation_fraction()-len(we)/(len(ge)*(len(ge)-1)/2))>1e-15: bad['frac']+=1
print(dict(bad))
