import sys, random
sys.path.insert(0,'/repo/src')
from bf import *
from paulie import get_pauli_string as p
n=int(sys.argv[1]); m=int(sys.argv[2]); N=int(sys.argv[3]); random.seed(int(sys.argv[4]))
bad=0; baddep=0; badacc=0
for t in range(N):
    gens=[''.join(random.choice(L) for _ in range(n)) for _ in range(random.randint(1,m))]
    c=p(gens)
    cv=[str(v) for v in c.get_canonic_vertices()]
    dep=[str(v) for v in c.get_dependents()]
    cl=closure(set(enc(g) for g in gens))
    cl2=closure(set(enc(g) for g in cv))
    if cl!=cl2:
        bad+=1
        if bad<6: print('CL',gens,cv,dep,len(cl),len(cl2))
    if any(enc(d) not in cl2 for d in dep):
        baddep+=1
        if baddep<6: print('DEP',gens,cv,dep)
    if len(set(gens))!=len(cv)+len(set(dep)):
        badacc+=1
        if badacc<6: print('ACC',gens,cv,dep)
print('bad',bad,baddep,badacc,'of',N)
