From Coq Require Import List Bool NArith PArith.
Require Import Par Clo.
Require Import Extraction ExtrOcamlBasic.
Import ListNotations.
Open Scope N_scope.
Definition codeN (n : N) (a : Par.P) : positive := N.succ_pos (N.shiftl (fst a) n + snd a).
Definition decodeN (n : N) (c : positive) : Par.P :=
  let k := Pos.pred_N c in (N.shiftr k n, N.land k (N.ones n)).
Fixpoint range (k : nat) (acc : list positive) (c : positive) : list positive :=
  match k with O => acc | S k' => range k' (c :: acc) (Pos.succ c) end.
Definition universeN (n : N) : list positive := range (N.to_nat (N.shiftl 1 (2*n))) [] 1%positive.
Definition closureN (n : N) (G : list Par.P) : option Clo.PS.t :=
  closure Par.P Par.mul Par.anti (codeN n) (decodeN n) (universeN n) G.
Definition closure_card n G := match closureN n G with Some s => Some (Clo.PS.cardinal s) | None => None end.
Extraction "clo.ml" closure_card.
