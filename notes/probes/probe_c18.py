import sys, random, itertools
sys.path.insert(0,'/repo/src')
from paulie import PauliString
random.seed(3)
def obs(P,others):
    o=[str(P),len(P),[str(x) for x in P],P.get_index(),hash(P),str(P.get_substring(0,len(P))),P.get_count_non_trivially(),P.is_identity()]
    for Q in others:
        o+= [P==Q,P<Q,P|Q,str(P@Q),P.sign(Q),str(P^Q)]
    o.append(P.get_matrix().tolist() if len(P)<=3 and len(P)>0 else None)
    return o
bad=0;exc={}
for t in range(3000):
    n=random.randint(1,5)
    s=''.join(random.choice('IXYZ') for _ in range(n))
    P=PauliString(pauli_str=s)
    others=[PauliString(pauli_str=''.join(random.choice('IXYZ') for _ in range(n))) for _ in range(2)]
    for step in range(random.randint(1,6)):
        k=random.random()
        try:
            if k<0.4: P[random.randint(-n-1,n)]=random.choice('IXYZ')
            elif k<0.7:
                P[random.randint(-n,n)]=''.join(random.choice('IXYZ') for _ in range(random.randint(1,3)))
            else: P.inc()
        except Exception as e:
            exc[type(e).__name__]=exc.get(type(e).__name__,0)+1
        F=PauliString(pauli_str=str(P))
        if obs(P,others)!=obs(F,others):
            bad+=1
            if bad<5: print('MISMATCH',s,str(P))
print('bad',bad,exc)
for n in (1,2,3):
    L=[x.get_index() for x in PauliString(n=n).gen_all_pauli_strings()]
    print(n, L==list(range(4**n)))
a=PauliString(pauli_str='XY'); b=a.copy(); b[0]='Z'; c=a+PauliString(pauli_str='Z'); e=a.expand(4); e[0]='I'; print(a,b,c,e)
