(* Refine/NumpyRefine.v — the in-place butterfly of src/paulie/application/matrix_decomposition.py (matrix_decomposition_diagonal), as
   tools/py2coq.py (py2coq_numpy.py) generates it from /repo's working tree on every run of C13, computes the iterative model
   Model/Decomp.dbfly_iter (which Theory/ButterflyT.v proves equal to the block recursion the C13 theorems are about): on a diagonal of
   2^n Gaussian integers it returns, entry by entry, (numerator of dbfly_iter, exponent n) — i.e. decompose_diag / 2^n — and it rejects the
   shapes the property lists with ValueError. *)
From PauLie Require Import Pauli Matrix Decomp DecompT ButterflyT.
From PauLieRefine Require Import PySem.
From PauLieGen Require Import NumpyGen.
From Coq Require Import Lia ZifyBool.
Open Scope Z_scope.

Definition lift (e : nat) (d : gvec) : list num := map (fun z => (z, e)) d.
Lemma lift_app e a b : lift e (a ++ b) = lift e a ++ lift e b. Proof. apply map_app. Qed.
Lemma lift_length e a : length (lift e a) = length a. Proof. apply map_length. Qed.
Lemma gscale2_0 z : gscale2 0 z = z. Proof. unfold gscale2. destruct z as [a b]. cbn. f_equal; lia. Qed.
Lemma vnadd_lift e : forall x y, vnadd (lift e x) (lift e y) = lift e (vadd x y).
Proof.
  induction x as [|a x IH]; intros [|b y]; try reflexivity. unfold vnadd, vadd, lift in *. cbn [map combine fst snd]. f_equal; [|apply IH].
  unfold nalign. cbn [fst snd]. rewrite Nat.max_id, Nat.sub_diag, !gscale2_0. reflexivity.
Qed.
Lemma vnsub_lift e : forall x y, vnsub (lift e x) (lift e y) = lift e (vsub x y).
Proof.
  induction x as [|a x IH]; intros [|b y]; try reflexivity. unfold vnsub, vsub, lift in *. cbn [map combine fst snd]. f_equal; [|apply IH].
  unfold nalign. cbn [fst snd]. rewrite Nat.max_id, Nat.sub_diag, !gscale2_0. reflexivity.
Qed.
Lemma vnhalf_lift e x : vnhalf (lift e x) = lift (S e) x.
Proof. unfold vnhalf, lift. rewrite map_map. reflexivity. Qed.

Lemma clamp_nat {A} (l : list A) (k : nat) : clamp l (Z.of_nat k) = Nat.min k (length l).
Proof. unfold clamp. assert (E : (Z.of_nat k <? 0) = false) by lia. rewrite E, Nat2Z.id. reflexivity. Qed.
(* slices of P ++ X ++ Y ++ R at the block that starts at |P| *)
Section Slices.
Context {A : Type}.
Variables (P X Y R : list A) (h : nat).
Hypothesis HX : length X = h.
Hypothesis HY : length Y = h.
Let p := Z.of_nat (length P).
Lemma slice1 : slice_range (P ++ X ++ Y ++ R) p (p + Z.of_nat h) = X.
Proof.
  unfold slice_range, p. rewrite <- Nat2Z.inj_add, !clamp_nat, !app_length, HX, HY.
  rewrite (Nat.min_l (length P)) by lia. rewrite (Nat.min_l (length P + h)) by lia. replace (length P + h - length P)%nat with h by lia.
  rewrite skipn_app_exact by reflexivity. apply firstn_app_exact. exact HX.
Qed.
Lemma slice2 : slice_range (P ++ X ++ Y ++ R) (p + Z.of_nat h) (p + 2 * Z.of_nat h) = Y.
Proof.
  unfold slice_range, p. replace (Z.of_nat (length P) + 2 * Z.of_nat h) with (Z.of_nat (length P + 2 * h)) by lia. rewrite <- Nat2Z.inj_add, !clamp_nat, !app_length, HX, HY.
  rewrite (Nat.min_l (length P + h)) by lia. rewrite (Nat.min_l (length P + 2 * h)) by lia. replace (length P + 2 * h - (length P + h))%nat with h by lia.
  replace (P ++ X ++ Y ++ R) with ((P ++ X) ++ Y ++ R) by (rewrite <- app_assoc; reflexivity).
  rewrite skipn_app_exact by (rewrite app_length; lia). apply firstn_app_exact. exact HY.
Qed.
End Slices.
Lemma assign_mid {A} (P X R X' : list A) : slice_assign (P ++ X ++ R) (Z.of_nat (length P)) (Z.of_nat (length P) + Z.of_nat (length X)) X' = P ++ X' ++ R.
Proof.
  unfold slice_assign. rewrite <- Nat2Z.inj_add, !clamp_nat, !app_length.
  rewrite (Nat.min_l (length P)) by lia. rewrite (Nat.min_l (length P + length X)) by lia. rewrite Nat.max_r by lia.
  rewrite firstn_app_exact by reflexivity. f_equal. f_equal.
  replace (P ++ X ++ R) with ((P ++ X) ++ R) by (rewrite <- app_assoc; reflexivity). apply skipn_app_exact. rewrite app_length. lia.
Qed.
Lemma assign1 {A} (P X Y R : list A) (h : nat) X' : length X = h ->
  slice_assign (P ++ X ++ Y ++ R) (Z.of_nat (length P)) (Z.of_nat (length P) + Z.of_nat h) X' = P ++ X' ++ Y ++ R.
Proof. intros <-. apply (assign_mid P X (Y ++ R) X'). Qed.
Lemma assign2 {A} (P X Y R : list A) (h : nat) Y' : length X = h -> length Y = h ->
  slice_assign (P ++ X ++ Y ++ R) (Z.of_nat (length P) + Z.of_nat h) (Z.of_nat (length P) + 2 * Z.of_nat h) Y' = P ++ X ++ Y' ++ R.
Proof.
  intros HX HY. pose proof (assign_mid (P ++ X) Y R Y') as E. rewrite app_length, HX, HY in E.
  replace (Z.of_nat (length P + h)) with (Z.of_nat (length P) + Z.of_nat h) in E by lia.
  replace (Z.of_nat (length P) + Z.of_nat h + Z.of_nat h) with (Z.of_nat (length P) + 2 * Z.of_nat h) in E by lia.
  rewrite <- !app_assoc in E. exact E.
Qed.

Lemma pow2_nat l : Z.of_nat (Nat.pow 2 l) = 2 ^ Z.of_nat l.
Proof. induction l as [|l IH]; [reflexivity|]. rewrite Nat2Z.inj_succ, Z.pow_succ_r by lia. cbn [Nat.pow]. lia. Qed.
Lemma popcount_pow2 l : popcountZ (Z.of_nat (Nat.pow 2 l)) = 1.
Proof.
  assert (E : forall l, exists p, Z.of_nat (Nat.pow 2 l) = Zpos p /\ (fix pc (q : positive) : Z := match q with xH => 1 | xO r => pc r | xI r => 1 + pc r end) p = 1).
  { induction l0 as [|l0 [p [E1 E2]]]; [exists xH; split; reflexivity|]. exists (xO p). split; [cbn [Nat.pow]; lia|exact E2]. }
  destruct (E l) as [p [E1 E2]]. rewrite E1. exact E2.
Qed.

(* the body of the loop over the blocks, as generated *)
Definition blk_body (o_ : outcome (list num * Z) (list num)) (it_ : Z) : outcome (list num * Z) (list num) :=
  seqo o_ (fun '(v_b, v_h) => let v_i := it_ in uncont (
        let '(u0_, u1_) := (slice_range v_b v_i (v_i + v_h), slice_range v_b (v_i + v_h) (v_i + 2 * v_h)) in let v_x := u0_ in let v_y := u1_ in
        if Nat.eqb (length v_x) (length v_y) then if Nat.eqb (length v_x) (length v_y) then
          let rhs0_ := vnhalf (vnadd v_x v_y) in let rhs1_ := vnhalf (vnsub v_x v_y) in
          if Nat.eqb (length rhs0_) (length (slice_range v_b v_i (v_i + v_h))) then let v_b := slice_assign v_b v_i (v_i + v_h) rhs0_ in
            if Nat.eqb (length rhs1_) (length (slice_range v_b (v_i + v_h) (v_i + 2 * v_h))) then let v_b := slice_assign v_b (v_i + v_h) (v_i + 2 * v_h) rhs1_ in Next (v_b, v_h)
            else Raised (EUser "ValueError")
          else Raised (EUser "ValueError") else Raised (EUser "ValueError") else Raised (EUser "ValueError"))).

Lemma blk_step e hn pre x y rest' : length x = hn -> length y = hn ->
  blk_body (Next (lift (S e) pre ++ lift e (x ++ y ++ rest'), Z.of_nat hn)) (Z.of_nat (length pre)) =
  Next (lift (S e) (pre ++ vadd x y ++ vsub x y) ++ lift e rest', Z.of_nat hn).
Proof.
  intros Hx Hy. unfold blk_body. cbn [seqo]. cbv zeta. rewrite !lift_app.
  assert (LP : length (lift (S e) pre) = length pre) by apply lift_length. rewrite <- LP.
  assert (Lx : length (lift e x) = hn) by (rewrite lift_length; exact Hx). assert (Ly : length (lift e y) = hn) by (rewrite lift_length; exact Hy).
  rewrite (slice1 (lift (S e) pre) (lift e x) (lift e y) (lift e rest') hn Lx Ly), (slice2 (lift (S e) pre) (lift e x) (lift e y) (lift e rest') hn Lx Ly).
  cbv beta iota. rewrite Lx, Ly, Nat.eqb_refl. rewrite vnadd_lift, vnsub_lift, !vnhalf_lift.
  rewrite !lift_length, vadd_length, vsub_length, Hx, Hy, Nat.min_id, Nat.eqb_refl. rewrite <- LP.
  rewrite (assign1 (lift (S e) pre) (lift e x) (lift e y) (lift e rest') hn _ Lx).
  assert (La : length (lift (S e) (vadd x y)) = hn) by (rewrite lift_length, vadd_length, Hx, Hy; apply Nat.min_id).
  rewrite (slice2 (lift (S e) pre) (lift (S e) (vadd x y)) (lift e y) (lift e rest') hn La Ly), Ly, Nat.eqb_refl.
  rewrite (assign2 (lift (S e) pre) (lift (S e) (vadd x y)) (lift e y) (lift e rest') hn _ La Ly).
  cbn [uncont]. rewrite <- !app_assoc. reflexivity.
Qed.

Lemma blk_pass e hn : (0 < hn)%nat -> forall k pre rest, length rest = (k * (2 * hn))%nat ->
  fold_left blk_body (map (fun j => Z.of_nat (length pre + j * (2 * hn))) (seq 0 k)) (Next (lift (S e) pre ++ lift e rest, Z.of_nat hn)) =
  Next (lift (S e) (pre ++ dpass k hn rest), Z.of_nat hn).
Proof.
  intros Hh. induction k as [|k IH]; intros pre rest Hr.
  - destruct rest; [|cbn in Hr; lia]. cbn. rewrite !app_nil_r. reflexivity.
  - destruct (dsplit_block hn Hh k rest Hr) as [x [y [rest' [-> [Hx [Hy Hr']]]]]].
    cbn [seq map fold_left]. rewrite Nat.mul_0_l, Nat.add_0_r. rewrite (blk_step e hn pre x y rest' Hx Hy).
    rewrite (dpass_block hn Hh k x y rest' Hx Hy).
    rewrite <- seq_shift, map_map.
    rewrite (map_ext _ (fun j => Z.of_nat (length (pre ++ vadd x y ++ vsub x y) + j * (2 * hn)))).
    + rewrite IH by assumption. rewrite <- !app_assoc. reflexivity.
    + intros j. rewrite !app_length, vadd_length, vsub_length, Hx, Hy, Nat.min_id. f_equal. lia.
Qed.

Lemma pow2_pos' l : (0 < Nat.pow 2 l)%nat. Proof. apply pow2_pos. Qed.
Lemma range_blocks (k hn : nat) : (0 < hn)%nat ->
  pyrange_step 0 (Z.of_nat (k * (2 * hn))) (2 * Z.of_nat hn) = map (fun j => Z.of_nat (length (@nil gi) + j * (2 * hn))) (seq 0 k).
Proof.
  intros Hh. unfold pyrange_step. replace ((Z.of_nat (k * (2 * hn)) - 0 + 2 * Z.of_nat hn - 1) / (2 * Z.of_nat hn)) with (Z.of_nat k).
  - rewrite Nat2Z.id. apply map_ext. intros j. cbn [length]. lia.
  - apply Z.div_unique with (r := 2 * Z.of_nat hn - 1); [lia|nia].
Qed.

(* the while loop over the strides: r more levels from stride 2^l *)
Definition lvl_body (s : list num * Z) : outcome (list num * Z) (list num) :=
  let '(v_b, v_h) := s in
  if 0 <? 2 * v_h then seqo (unloop (fold_left blk_body (pyrange_step 0 (Z.of_nat (length v_b)) (2 * v_h)) (Next (v_b, v_h)))) (fun '(v_b, v_h) => let v_h := v_h * 2 in Next (v_b, v_h))
  else Raised (EUser "ValueError").
Definition lvl_cond (s : list num * Z) : bool := let '(v_b, v_h) := s in v_h <? Z.of_nat (length v_b).

Lemma levels (N : nat) : forall r l c f, length c = Nat.pow 2 N -> (l + r = N)%nat -> (r < f)%nat ->
  while_loop f lvl_cond lvl_body (lift l c, Z.of_nat (Nat.pow 2 l)) = Next (lift N (dpasses r (Nat.pow 2 l) c), Z.of_nat (Nat.pow 2 N)).
Proof.
  induction r as [|r IH]; intros l c f Hc Hl Hf; (destruct f as [|f]; [lia|]); cbn [while_loop]; unfold lvl_cond at 1; cbv beta iota; rewrite lift_length, Hc.
  - assert (l = N) by lia. subst l. assert (E : (Z.of_nat (Nat.pow 2 N) <? Z.of_nat (Nat.pow 2 N)) = false) by lia. rewrite E. reflexivity.
  - assert (Hlt : (Nat.pow 2 l < Nat.pow 2 N)%nat) by (apply Nat.pow_lt_mono_r; lia).
    assert (E : (Z.of_nat (Nat.pow 2 l) <? Z.of_nat (Nat.pow 2 N)) = true) by lia. rewrite E.
    set (hn := Nat.pow 2 l). assert (Hh : (0 < hn)%nat) by apply pow2_pos.
    set (k := Nat.pow 2 (N - l - 1)).
    assert (Hk : Nat.pow 2 N = (k * (2 * hn))%nat).
    { unfold k, hn. replace N with ((N - l - 1) + S l)%nat at 1 by lia. rewrite Nat.pow_add_r. cbn [Nat.pow]. lia. }
    unfold lvl_body at 1. cbv beta iota. assert (G : (0 <? 2 * Z.of_nat hn) = true) by lia. rewrite G, lift_length, Hc, Hk.
    rewrite (range_blocks k hn Hh). change (lift l c) with (lift (S l) [] ++ lift l c).
    rewrite (blk_pass l hn Hh k [] c (eq_trans Hc Hk)). cbn [unloop seqo uncont app]. cbv beta iota zeta.
    replace (Z.of_nat hn * 2) with (Z.of_nat (Nat.pow 2 (S l))) by (unfold hn; cbn [Nat.pow]; lia).
    assert (Hc' : length (dpass k hn c) = Nat.pow 2 N) by (rewrite (dpass_length hn Hh k c (eq_trans Hc Hk)); exact Hc).
    pose proof (IH (S l) (dpass k hn c) f Hc' ltac:(lia) ltac:(lia)) as E2. rewrite E2.
    rewrite <- Hk. cbn [dpasses]. rewrite (dpass_len_fuel hn Hh k c (eq_trans Hc Hk)).
    replace (2 * hn)%nat with (Nat.pow 2 (S l)) by (unfold hn; cbn [Nat.pow]; lia). reflexivity.
Qed.

Theorem gen_n_diag (fuel N : nat) (d : gvec) : length d = Nat.pow 2 N -> (1 <= N)%nat -> (N < fuel)%nat ->
  py_N_matrix_decomposition_diagonal fuel 1 (lift 0 d) = FRet (lift N (dbfly_iter N d)).
Proof.
  intros Hd HN Hf. unfold py_N_matrix_decomposition_diagonal. cbv zeta. cbn [Z.eqb negb seqo]. rewrite lift_length, Hd.
  assert (P1 : (Z.of_nat (Nat.pow 2 N) =? 1) = false).
  { destruct N as [|N']; [lia|]. cbn [Nat.pow]. pose proof (pow2_pos N'). lia. }
  rewrite P1, popcount_pow2. cbn [Z.eqb negb seqo Pos.eqb]. cbv beta iota.
  change (while_loop fuel _ _ (lift 0 d, 1)) with (while_loop fuel lvl_cond lvl_body (lift 0 d, Z.of_nat (Nat.pow 2 0))).
  rewrite (levels N N 0%nat d fuel Hd ltac:(lia) Hf). reflexivity.
Qed.

(* the shapes the property lists are rejected *)
Theorem gen_n_diag_rejects fuel ndim (v : list num) :
  (ndim <> 1 -> py_N_matrix_decomposition_diagonal fuel ndim v = FRaised (EUser "ValueError")) /\
  (length v = 1%nat -> py_N_matrix_decomposition_diagonal fuel 1 v = FRaised (EUser "ValueError")) /\
  (popcountZ (Z.of_nat (length v)) <> 1 -> py_N_matrix_decomposition_diagonal fuel 1 v = FRaised (EUser "ValueError")).
Proof.
  unfold py_N_matrix_decomposition_diagonal. cbv zeta. repeat split.
  - intros H. assert (E : (ndim =? 1) = false) by lia. rewrite E. reflexivity.
  - intros H. rewrite H. reflexivity.
  - intros H. cbn [Z.eqb negb seqo]. destruct (Z.of_nat (length v) =? 1); [reflexivity|]. cbn [seqo]. cbv beta iota.
    assert (E : (popcountZ (Z.of_nat (length v)) =? 1) = false) by lia. rewrite E. reflexivity.
Qed.

(* C13 read on the source: the diagonal variant returns decompose_diag n d / 2^n, entry by entry *)
Theorem gen_n_diag_decompose (fuel N : nat) (d : list bool -> gi) : (1 <= N)%nat -> (N < fuel)%nat ->
  py_N_matrix_decomposition_diagonal fuel 1 (lift 0 (dvec N d)) = FRet (lift N (decompose_diag N d)).
Proof.
  intros HN Hf. rewrite (gen_n_diag fuel N (dvec N d) (dvec_length N d) HN Hf). f_equal. f_equal. apply (decompose_diag_iter_eq N d).
Qed.

Example gen_numpy_runs :
  py_N_matrix_decomposition_diagonal 5 1 (lift 0 [(1,0); (2,0); (3,0); (5,0)]) = FRet (lift 2 [(11,0); (-3,0); (-5,0); (1,0)]) /\
  py_N_matrix_decomposition_diagonal 5 1 (lift 0 [(1,0); (2,0); (3,0)]) = FRaised (EUser "ValueError") /\
  py_N_matrix_decomposition_diagonal 5 2 (lift 0 [(1,0); (2,0)]) = FRaised (EUser "ValueError") /\
  py_N_matrix_decomposition_diagonal 1 1 (lift 0 [(1,0); (2,0); (3,0); (5,0)]) = FOutOfFuel.
Proof. repeat split; vm_compute; reflexivity. Qed.

(* ---------- the general variant: four-way butterfly ---------- *)
Lemma vnimul_lift e x : vnimul (lift e x) = lift e (vimul x).
Proof. unfold vnimul, vimul, lift. rewrite !map_map. reflexivity. Qed.
Lemma vimul_length x : length (vimul x) = length x. Proof. apply map_length. Qed.

Lemma slice_at {A} (l pre X post : list A) (a b : Z) : l = pre ++ X ++ post -> a = Z.of_nat (length pre) -> b = a + Z.of_nat (length X) -> slice_range l a b = X.
Proof.
  intros -> -> ->. unfold slice_range. rewrite <- Nat2Z.inj_add, !clamp_nat, !app_length.
  rewrite (Nat.min_l (length pre)) by lia. rewrite (Nat.min_l (length pre + length X)) by lia. replace (length pre + length X - length pre)%nat with (length X) by lia.
  rewrite skipn_app_exact by reflexivity. apply firstn_app_exact. reflexivity.
Qed.
Lemma assign_at {A} (l pre X post X' : list A) (a b : Z) : l = pre ++ X ++ post -> a = Z.of_nat (length pre) -> b = a + Z.of_nat (length X) ->
  slice_assign l a b X' = pre ++ X' ++ post.
Proof. intros -> -> ->. apply assign_mid. Qed.

Definition blk4_body (o_ : outcome (list num * Z) (list num)) (it_ : Z) : outcome (list num * Z) (list num) :=
  seqo o_ (fun '(v_b, v_h) => let v_i := it_ in uncont (
    let '(u0_, u1_) := (slice_range v_b v_i (v_i + v_h), slice_range v_b (v_i + v_h) (v_i + 2 * v_h)) in let v_x := u0_ in let v_y := u1_ in
    if Nat.eqb (length v_x) (length v_y) then if Nat.eqb (length v_x) (length v_y) then
      let rhs0_ := vnhalf (vnadd v_x v_y) in let rhs1_ := vnhalf (vnsub v_x v_y) in
      if Nat.eqb (length rhs0_) (length (slice_range v_b v_i (v_i + v_h))) then let v_b := slice_assign v_b v_i (v_i + v_h) rhs0_ in
        if Nat.eqb (length rhs1_) (length (slice_range v_b (v_i + v_h) (v_i + 2 * v_h))) then let v_b := slice_assign v_b (v_i + v_h) (v_i + 2 * v_h) rhs1_ in
          let '(u0_, u1_) := (slice_range v_b (v_i + 2 * v_h) (v_i + 3 * v_h), slice_range v_b (v_i + 3 * v_h) (v_i + 4 * v_h)) in let v_z := u0_ in let v_w := u1_ in
          if Nat.eqb (length v_z) (length v_w) then if Nat.eqb (length v_z) (length v_w) then
            let rhs0_ := vnhalf (vnadd v_z v_w) in let rhs1_ := vnhalf (vnimul (vnsub v_z v_w)) in
            if Nat.eqb (length rhs0_) (length (slice_range v_b (v_i + 2 * v_h) (v_i + 3 * v_h))) then let v_b := slice_assign v_b (v_i + 2 * v_h) (v_i + 3 * v_h) rhs0_ in
              if Nat.eqb (length rhs1_) (length (slice_range v_b (v_i + 3 * v_h) (v_i + 4 * v_h))) then let v_b := slice_assign v_b (v_i + 3 * v_h) (v_i + 4 * v_h) rhs1_ in Next (v_b, v_h)
              else Raised (EUser "ValueError")
            else Raised (EUser "ValueError") else Raised (EUser "ValueError") else Raised (EUser "ValueError")
        else Raised (EUser "ValueError")
      else Raised (EUser "ValueError") else Raised (EUser "ValueError") else Raised (EUser "ValueError"))).

Ltac sl := first [reflexivity | rewrite <- ?app_assoc; reflexivity | rewrite ?app_length, ?lift_length, ?vadd_length, ?vsub_length, ?vimul_length; lia].

Lemma blk4_step e hn pre x y z w rest' : length x = hn -> length y = hn -> length z = hn -> length w = hn ->
  blk4_body (Next (lift (S e) pre ++ lift e (x ++ y ++ z ++ w ++ rest'), Z.of_nat hn)) (Z.of_nat (length pre)) =
  Next (lift (S e) (pre ++ combS x y z w) ++ lift e rest', Z.of_nat hn).
Proof.
  intros Hx Hy Hz Hw. unfold blk4_body. cbn [seqo]. cbv zeta. rewrite !lift_app.
  set (P := lift (S e) pre). set (X := lift e x). set (Y := lift e y). set (Zz := lift e z). set (W := lift e w). set (R := lift e rest').
  assert (LP : length P = length pre) by apply lift_length.
  assert (LX : length X = hn) by (unfold X; rewrite lift_length; exact Hx). assert (LY : length Y = hn) by (unfold Y; rewrite lift_length; exact Hy).
  assert (LZ : length Zz = hn) by (unfold Zz; rewrite lift_length; exact Hz). assert (LW : length W = hn) by (unfold W; rewrite lift_length; exact Hw).
  set (i := Z.of_nat (length pre)). set (h := Z.of_nat hn).
  rewrite (slice_at _ P X (Y ++ Zz ++ W ++ R) i (i + h)) by (unfold i, h; sl).
  rewrite (slice_at _ (P ++ X) Y (Zz ++ W ++ R) (i + h) (i + 2 * h)) by (unfold i, h; sl).
  cbv beta iota. rewrite LX, LY, Nat.eqb_refl.
  set (X1 := vnhalf (vnadd X Y)). set (Y1 := vnhalf (vnsub X Y)).
  assert (EX1 : X1 = lift (S e) (vadd x y)) by (unfold X1, X, Y; rewrite vnadd_lift, vnhalf_lift; reflexivity).
  assert (EY1 : Y1 = lift (S e) (vsub x y)) by (unfold Y1, X, Y; rewrite vnsub_lift, vnhalf_lift; reflexivity).
  assert (LX1 : length X1 = hn) by (rewrite EX1, lift_length, vadd_length, Hx, Hy; apply Nat.min_id).
  assert (LY1 : length Y1 = hn) by (rewrite EY1, lift_length, vsub_length, Hx, Hy; apply Nat.min_id).
  rewrite LX1, Nat.eqb_refl.
  rewrite (assign_at _ P X (Y ++ Zz ++ W ++ R) X1 i (i + h)) by (unfold i, h; sl).
  rewrite (slice_at _ (P ++ X1) Y (Zz ++ W ++ R) (i + h) (i + 2 * h)) by (unfold i, h; sl).
  rewrite LY1, LY, Nat.eqb_refl.
  rewrite (assign_at _ (P ++ X1) Y (Zz ++ W ++ R) Y1 (i + h) (i + 2 * h)) by (unfold i, h; sl).
  rewrite (slice_at _ (P ++ X1 ++ Y1) Zz (W ++ R) (i + 2 * h) (i + 3 * h)) by (unfold i, h; sl).
  rewrite (slice_at _ (P ++ X1 ++ Y1 ++ Zz) W R (i + 3 * h) (i + 4 * h)) by (unfold i, h; sl).
  cbv beta iota. rewrite LZ, LW, Nat.eqb_refl.
  set (Z1 := vnhalf (vnadd Zz W)). set (W1 := vnhalf (vnimul (vnsub Zz W))).
  assert (EZ1 : Z1 = lift (S e) (vadd z w)) by (unfold Z1, Zz, W; rewrite vnadd_lift, vnhalf_lift; reflexivity).
  assert (EW1 : W1 = lift (S e) (vimul (vsub z w))) by (unfold W1, Zz, W; rewrite vnsub_lift, vnimul_lift, vnhalf_lift; reflexivity).
  assert (LZ1 : length Z1 = hn) by (rewrite EZ1, lift_length, vadd_length, Hz, Hw; apply Nat.min_id).
  assert (LW1 : length W1 = hn) by (rewrite EW1, lift_length, vimul_length, vsub_length, Hz, Hw; apply Nat.min_id).
  rewrite LZ1, Nat.eqb_refl.
  rewrite (assign_at _ (P ++ X1 ++ Y1) Zz (W ++ R) Z1 (i + 2 * h) (i + 3 * h)) by (unfold i, h; sl).
  rewrite (slice_at _ (P ++ X1 ++ Y1 ++ Z1) W R (i + 3 * h) (i + 4 * h)) by (unfold i, h; sl).
  rewrite LW1, LW, Nat.eqb_refl.
  rewrite (assign_at _ (P ++ X1 ++ Y1 ++ Z1) W R W1 (i + 3 * h) (i + 4 * h)) by (unfold i, h; sl).
  cbn [uncont]. rewrite EX1, EY1, EZ1, EW1. unfold P, R, combS. rewrite !lift_app, <- !app_assoc. reflexivity.
Qed.

Lemma blk4_pass e hn : (0 < hn)%nat -> forall k pre rest, length rest = (k * (4 * hn))%nat ->
  fold_left blk4_body (map (fun j => Z.of_nat (length pre + j * (4 * hn))) (seq 0 k)) (Next (lift (S e) pre ++ lift e rest, Z.of_nat hn)) =
  Next (lift (S e) (pre ++ pass k hn rest), Z.of_nat hn).
Proof.
  intros Hh. induction k as [|k IH]; intros pre rest Hr.
  - destruct rest; [|cbn in Hr; lia]. cbn. rewrite !app_nil_r. reflexivity.
  - destruct (split_block hn Hh k rest Hr) as [x [y [z [w [rest' [-> [Hx [Hy [Hz [Hw Hr']]]]]]]]]].
    cbn [seq map fold_left]. rewrite Nat.mul_0_l, Nat.add_0_r. rewrite (blk4_step e hn pre x y z w rest' Hx Hy Hz Hw).
    rewrite (pass_block hn Hh k x y z w rest' Hx Hy Hz Hw).
    rewrite <- seq_shift, map_map.
    rewrite (map_ext _ (fun j => Z.of_nat (length (pre ++ combS x y z w) + j * (4 * hn)))).
    + rewrite IH by assumption. rewrite <- !app_assoc. reflexivity.
    + intros j. rewrite app_length, (combS_length hn) by assumption. f_equal. lia.
Qed.

Lemma range_blocks4 (k hn : nat) : (0 < hn)%nat ->
  pyrange_step 0 (Z.of_nat (k * (4 * hn))) (4 * Z.of_nat hn) = map (fun j => Z.of_nat (length (@nil gi) + j * (4 * hn))) (seq 0 k).
Proof.
  intros Hh. unfold pyrange_step. replace ((Z.of_nat (k * (4 * hn)) - 0 + 4 * Z.of_nat hn - 1) / (4 * Z.of_nat hn)) with (Z.of_nat k).
  - rewrite Nat2Z.id. apply map_ext. intros j. cbn [length]. lia.
  - apply Z.div_unique with (r := 4 * Z.of_nat hn - 1); [lia|nia].
Qed.

Definition lvl4_body (s : list num * Z) : outcome (list num * Z) (list num) :=
  let '(v_b, v_h) := s in
  if 0 <? 4 * v_h then seqo (unloop (fold_left blk4_body (pyrange_step 0 (Z.of_nat (length v_b)) (4 * v_h)) (Next (v_b, v_h)))) (fun '(v_b, v_h) => let v_h := v_h * 4 in Next (v_b, v_h))
  else Raised (EUser "ValueError").

Lemma levels4 (N : nat) : forall r l c f, length c = Nat.pow 4 N -> (l + r = N)%nat -> (r < f)%nat ->
  while_loop f lvl_cond lvl4_body (lift l c, Z.of_nat (Nat.pow 4 l)) = Next (lift N (passes r (Nat.pow 4 l) c), Z.of_nat (Nat.pow 4 N)).
Proof.
  induction r as [|r IH]; intros l c f Hc Hl Hf; (destruct f as [|f]; [lia|]); cbn [while_loop]; unfold lvl_cond at 1; cbv beta iota; rewrite lift_length, Hc.
  - assert (l = N) by lia. subst l. assert (E : (Z.of_nat (Nat.pow 4 N) <? Z.of_nat (Nat.pow 4 N)) = false) by lia. rewrite E. reflexivity.
  - assert (Hlt : (Nat.pow 4 l < Nat.pow 4 N)%nat) by (apply Nat.pow_lt_mono_r; lia).
    assert (E : (Z.of_nat (Nat.pow 4 l) <? Z.of_nat (Nat.pow 4 N)) = true) by lia. rewrite E.
    set (hn := Nat.pow 4 l). assert (Hh : (0 < hn)%nat) by apply pow4_pos.
    set (k := Nat.pow 4 (N - l - 1)).
    assert (Hk : Nat.pow 4 N = (k * (4 * hn))%nat).
    { unfold k, hn. replace N with ((N - l - 1) + S l)%nat at 1 by lia. rewrite Nat.pow_add_r. cbn [Nat.pow]. lia. }
    unfold lvl4_body at 1. cbv beta iota. assert (G : (0 <? 4 * Z.of_nat hn) = true) by lia. rewrite G, lift_length, Hc, Hk.
    rewrite (range_blocks4 k hn Hh). change (lift l c) with (lift (S l) [] ++ lift l c).
    rewrite (blk4_pass l hn Hh k [] c (eq_trans Hc Hk)). cbn [unloop seqo uncont app]. cbv beta iota zeta.
    replace (Z.of_nat hn * 4) with (Z.of_nat (Nat.pow 4 (S l))) by (unfold hn; cbn [Nat.pow]; lia).
    assert (Hc' : length (pass k hn c) = Nat.pow 4 N) by (rewrite (pass_length hn Hh k c (eq_trans Hc Hk)); exact Hc).
    pose proof (IH (S l) (pass k hn c) f Hc' ltac:(lia) ltac:(lia)) as E2. rewrite E2.
    rewrite <- Hk. cbn [passes]. rewrite (pass_len_fuel hn Hh k c (eq_trans Hc Hk)).
    replace (4 * hn)%nat with (Nat.pow 4 (S l)) by (unfold hn; cbn [Nat.pow]; lia). reflexivity.
Qed.


(* ---- _pauli_ord and _mat_to_vec: the index arrays and the gather ---- *)
Fixpoint rows (n : nat) : list Z := match n with O => [0] | S m => let hi := 2 ^ Z.of_nat m in rows m ++ map (fun x => x + hi) (rows m) ++ rows m ++ map (fun x => x + hi) (rows m) end.
Fixpoint cols (n : nat) : list Z := match n with O => [0] | S m => let hi := 2 ^ Z.of_nat m in cols m ++ map (fun x => x + hi) (cols m) ++ map (fun x => x + hi) (cols m) ++ cols m end.
Lemma rows_length n : length (rows n) = Nat.pow 4 n.
Proof. induction n as [|n IH]; [reflexivity|]. cbn [rows Nat.pow]. cbv zeta. rewrite !app_length, !map_length, IH. lia. Qed.
Lemma cols_length n : length (cols n) = Nat.pow 4 n.
Proof. induction n as [|n IH]; [reflexivity|]. cbn [cols Nat.pow]. cbv zeta. rewrite !app_length, !map_length, IH. lia. Qed.
Lemma pow4_nat l : Z.of_nat (Nat.pow 4 l) = 4 ^ Z.of_nat l.
Proof. induction l as [|l IH]; [reflexivity|]. rewrite Nat2Z.inj_succ, Z.pow_succ_r by lia. cbn [Nat.pow]. lia. Qed.
Lemma pow2_gt0 (m : nat) : 0 < 2 ^ Z.of_nat m. Proof. apply Z.pow_pos_nonneg; lia. Qed.
Lemma rows_bound n : forall x, In x (rows n) -> 0 <= x < 2 ^ Z.of_nat n.
Proof.
  induction n as [|n IH]; intros x Hx; [destruct Hx as [<-|[]]; cbn; lia|]. cbn [rows] in Hx. cbv zeta in Hx. rewrite Nat2Z.inj_succ, Z.pow_succ_r by lia.
  pose proof (pow2_gt0 n). rewrite !in_app_iff, !in_map_iff in Hx.
  destruct Hx as [H1|[[y [<- H1]]|[H1|[y [<- H1]]]]]; apply IH in H1; lia.
Qed.
Lemma cols_bound n : forall x, In x (cols n) -> 0 <= x < 2 ^ Z.of_nat n.
Proof.
  induction n as [|n IH]; intros x Hx; [destruct Hx as [<-|[]]; cbn; lia|]. cbn [cols] in Hx. cbv zeta in Hx. rewrite Nat2Z.inj_succ, Z.pow_succ_r by lia.
  pose proof (pow2_gt0 n). rewrite !in_app_iff, !in_map_iff in Hx.
  destruct Hx as [H1|[[y [<- H1]]|[[y [<- H1]]|H1]]]; apply IH in H1; lia.
Qed.

Lemma idx_ok_lt {A} (l : list A) j : 0 <= j < Z.of_nat (length l) -> idx_ok l j = true.
Proof. intros H. unfold idx_ok, py_index. assert (E1 : (j <? 0) = false) by lia. rewrite E1. assert (E2 : ((0 <=? j) && (j <? Z.of_nat (length l))) = true) by lia. rewrite E2. reflexivity. Qed.
Lemma list_set_lt {A} (l : list A) j v : 0 <= j < Z.of_nat (length l) -> list_set l j v = set_nth l (Z.to_nat j) v.
Proof. intros H. unfold list_set, py_index. assert (E1 : (j <? 0) = false) by lia. rewrite E1. assert (E2 : ((0 <=? j) && (j <? Z.of_nat (length l))) = true) by lia. rewrite E2. reflexivity. Qed.
Lemma list_get_lt {A} (d : A) (l : list A) j : 0 <= j < Z.of_nat (length l) -> list_get d l j = nth (Z.to_nat j) l d.
Proof. intros H. unfold list_get, py_index. assert (E1 : (j <? 0) = false) by lia. rewrite E1. assert (E2 : ((0 <=? j) && (j <? Z.of_nat (length l))) = true) by lia. rewrite E2. reflexivity. Qed.

Lemma clamp_Z {A} (l : list A) (k : Z) : 0 <= k <= Z.of_nat (length l) -> clamp l k = Z.to_nat k.
Proof. intros H. unfold clamp. assert (E : (k <? 0) = false) by lia. rewrite E. lia. Qed.
Lemma slice_to_app {A} (P R : list A) k : k = Z.of_nat (length P) -> slice_to (P ++ R) k = P.
Proof. intros ->. unfold slice_to. rewrite clamp_Z by (rewrite app_length; lia). rewrite Nat2Z.id. apply firstn_app_exact. reflexivity. Qed.
Lemma guard_ok {A B} (l : list A) (rhs : list B) a b : 0 <= a <= b -> b <= Z.of_nat (length l) -> length rhs = Z.to_nat (b - a) ->
  Nat.eqb (length rhs) (length (slice_range l a b)) = true.
Proof.
  intros H1 H2 H3. apply Nat.eqb_eq. unfold slice_range. rewrite !clamp_Z by lia. rewrite firstn_length, skipn_length. lia.
Qed.
Lemma sa1 {A} (L0 L1 R X : list A) (p : nat) : length L0 = p -> length L1 = p ->
  slice_assign (L0 ++ L1 ++ R) (Z.of_nat p) (2 * Z.of_nat p) X = L0 ++ X ++ R.
Proof. intros H0 H1. pose proof (assign_mid L0 L1 R X) as E. rewrite H0, H1 in E. replace (Z.of_nat p + Z.of_nat p) with (2 * Z.of_nat p) in E by lia. exact E. Qed.
Lemma sa2 {A} (L0 L1 L2 R X : list A) (p : nat) : length L0 = p -> length L1 = p -> length L2 = p ->
  slice_assign (L0 ++ L1 ++ L2 ++ R) (2 * Z.of_nat p) (3 * Z.of_nat p) X = L0 ++ L1 ++ X ++ R.
Proof.
  intros H0 H1 H2. pose proof (assign_mid (L0 ++ L1) L2 R X) as E. rewrite app_length, H0, H1, H2 in E.
  replace (Z.of_nat (p + p)) with (2 * Z.of_nat p) in E by lia. replace (2 * Z.of_nat p + Z.of_nat p) with (3 * Z.of_nat p) in E by lia.
  rewrite <- !app_assoc in E. exact E.
Qed.
Lemma sa3 {A} (L0 L1 L2 L3 R X : list A) (p : nat) : length L0 = p -> length L1 = p -> length L2 = p -> length L3 = p ->
  slice_assign (L0 ++ L1 ++ L2 ++ L3 ++ R) (3 * Z.of_nat p) (4 * Z.of_nat p) X = L0 ++ L1 ++ L2 ++ X ++ R.
Proof.
  intros H0 H1 H2 H3. pose proof (assign_mid (L0 ++ L1 ++ L2) L3 R X) as E. rewrite !app_length, H0, H1, H2, H3 in E.
  replace (Z.of_nat (p + (p + p))) with (3 * Z.of_nat p) in E by lia. replace (3 * Z.of_nat p + Z.of_nat p) with (4 * Z.of_nat p) in E by lia.
  rewrite <- !app_assoc in E. exact E.
Qed.
Lemma split4 {A} (l : list A) (p : nat) : length l = (4 * p)%nat -> exists a b c d, l = a ++ b ++ c ++ d /\ length a = p /\ length b = p /\ length c = p /\ length d = p.
Proof.
  intros H. exists (firstn p l), (firstn p (skipn p l)), (firstn p (skipn p (skipn p l))), (skipn p (skipn p (skipn p l))).
  rewrite !firstn_skipn. repeat split; rewrite ?firstn_length, ?skipn_length; lia.
Qed.
Lemma set_nth_length {A} (l : list A) : forall k v, length (set_nth l k v) = length l.
Proof. induction l as [|a l IH]; intros [|k] v; cbn [set_nth length]; [reflexivity..|]. rewrite IH. reflexivity. Qed.

(* _pauli_ord(row, col, n) fills the first 4^n entries of both arrays *)
Lemma pauli_ord_spec : forall m fuel R0 RT C0 CT, (m < fuel)%nat -> length R0 = Nat.pow 4 (S m) -> length C0 = Nat.pow 4 (S m) ->
  py_N__pauli_ord fuel (R0 ++ RT) (C0 ++ CT) (Z.of_nat (S m)) = FRet (rows (S m) ++ RT, cols (S m) ++ CT).
Proof.
  induction m as [|m IH]; intros fuel R0 RT C0 CT Hf HR HC; (destruct fuel as [|f]; [lia|]).
  - destruct R0 as [|r0 [|r1 [|r2 [|r3 [|]]]]]; try discriminate HR. destruct C0 as [|c0 [|c1 [|c2 [|c3 [|]]]]]; try discriminate HC.
    cbn beta iota delta [py_N__pauli_ord]. change (Z.of_nat 1 =? 1) with true. cbv beta iota zeta.
    repeat (rewrite idx_ok_lt by (cbn [length app]; lia); rewrite list_set_lt by (cbn [length app]; lia);
            change (Z.to_nat 0) with 0%nat; change (Z.to_nat 1) with 1%nat; change (Z.to_nat 2) with 2%nat; change (Z.to_nat 3) with 3%nat; cbn [set_nth app]).
    reflexivity.
  - cbn beta iota delta [py_N__pauli_ord].
    assert (E1 : (Z.of_nat (S (S m)) =? 1) = false) by lia. rewrite E1.
    replace (Z.of_nat (S (S m)) - 1) with (Z.of_nat (S m)) by lia.
    set (p := Nat.pow 4 (S m)).
    destruct (split4 R0 p ltac:(rewrite HR; unfold p; cbn [Nat.pow]; lia)) as [ra [rb [rc [rd [-> [Hra [Hrb [Hrc Hrd]]]]]]]].
    destruct (split4 C0 p ltac:(rewrite HC; unfold p; cbn [Nat.pow]; lia)) as [ca [cb [cc [cd [-> [Hca [Hcb [Hcc Hcd]]]]]]]].
    rewrite <- !app_assoc.
    rewrite (IH f ra (rb ++ rc ++ rd ++ RT) ca (cb ++ cc ++ cd ++ CT) ltac:(lia) Hra Hca).
    assert (Hpw : Z.shiftl 1 (2 * Z.of_nat (S m)) = Z.of_nat p).
    { rewrite Z.shiftl_1_l. unfold p. rewrite pow4_nat. rewrite Z.pow_mul_r by lia. reflexivity. }
    assert (Hhi : Z.shiftl 1 (Z.of_nat (S m)) = 2 ^ Z.of_nat (S m)) by apply Z.shiftl_1_l.
    cbv beta iota zeta. rewrite !Hpw, !Hhi.
    assert (G1 : (0 <=? 2 * Z.of_nat (S m)) = true) by lia. assert (G2 : (0 <=? Z.of_nat (S m)) = true) by lia. rewrite !G1, !G2.
    pose proof (rows_length (S m)) as LR. pose proof (cols_length (S m)) as LC. fold p in LR, LC.
    Ltac len := rewrite ?app_length, ?map_length; lia.
    repeat first
      [ match goal with |- context [slice_to (?P ++ ?R) (Z.of_nat ?q)] => rewrite (slice_to_app P R (Z.of_nat q)) by (f_equal; len) end
      | match goal with |- context [Nat.eqb (length ?rhs) (length (slice_range (?a0 ++ ?a1) ?a ?b))] => rewrite (guard_ok (a0 ++ a1) rhs a b) by len end
      | match goal with |- context [slice_assign (?L0 ++ ?L1 ++ ?R) (Z.of_nat ?q) (2 * Z.of_nat ?q) ?X] => rewrite (sa1 L0 L1 R X q) by len end
      | match goal with |- context [slice_assign (?L0 ++ ?L1 ++ ?L2 ++ ?R) (2 * Z.of_nat ?q) (3 * Z.of_nat ?q) ?X] => rewrite (sa2 L0 L1 L2 R X q) by len end
      | match goal with |- context [slice_assign (?L0 ++ ?L1 ++ ?L2 ++ ?L3 ++ ?R) (3 * Z.of_nat ?q) (4 * Z.of_nat ?q) ?X] => rewrite (sa3 L0 L1 L2 L3 R X q) by len end ].
    cbn [rows cols]. cbv zeta. rewrite <- !app_assoc. reflexivity.
Qed.


(* _mat_to_vec(matrix) on the row-major entries: the entries at 2^N * row + col, in Pauli order *)
Definition gather_idx (N : nat) : list Z := map (fun p_ => fst p_ + snd p_) (combine (map (fun x_ => 2 ^ Z.of_nat N * x_) (rows N)) (cols N)).
Lemma bit_length_pow2 N : bit_lengthZ (Z.of_nat (Nat.pow 2 N)) - 1 = Z.of_nat N.
Proof.
  rewrite pow2_nat. pose proof (pow2_gt0 N) as H. unfold bit_lengthZ. destruct (2 ^ Z.of_nat N) as [|q|q] eqn:E; try lia.
  rewrite <- E, Z.log2_pow2 by lia. lia.
Qed.
Lemma gather_idx_bound N : forall j, In j (gather_idx N) -> 0 <= j < 4 ^ Z.of_nat N.
Proof.
  intros j Hj. unfold gather_idx in Hj. apply in_map_iff in Hj. destruct Hj as [[x y] [<- Hp]]. cbn [fst snd].
  pose proof (in_combine_l _ _ _ _ Hp) as Hx. pose proof (in_combine_r _ _ _ _ Hp) as Hy. apply in_map_iff in Hx. destruct Hx as [r [<- Hr]].
  apply rows_bound in Hr. apply cols_bound in Hy. replace (4 ^ Z.of_nat N) with (2 ^ Z.of_nat N * 2 ^ Z.of_nat N).
  - nia.
  - rewrite <- Z.pow_mul_l. reflexivity.
Qed.
Theorem gen_n_mat_to_vec_idx (fuel N : nat) (flat : list num) : (1 <= N)%nat -> (N < fuel)%nat -> length flat = Nat.pow 4 N ->
  py_N__mat_to_vec fuel (Z.of_nat (Nat.pow 2 N)) flat = FRet (map (list_get ((0, 0), O) flat) (gather_idx N)).
Proof.
  intros HN Hf Hl. destruct fuel as [|f]; [lia|]. unfold py_N__mat_to_vec. cbv beta iota zeta. rewrite !bit_length_pow2.
  assert (G1 : (0 <=? Z.of_nat N) = true) by lia. assert (G2 : (0 <=? 4 ^ Z.of_nat N) = true) by (pose proof (Z.pow_nonneg 4 (Z.of_nat N)); lia).
  rewrite !G1, !G2. rewrite <- pow4_nat, Nat2Z.id. destruct N as [|m]; [lia|].
  pose proof (pauli_ord_spec m f (repeat 0 (Nat.pow 4 (S m))) [] (repeat 0 (Nat.pow 4 (S m))) [] ltac:(lia) (repeat_length _ _) (repeat_length _ _)) as P.
  rewrite !app_nil_r in P. rewrite P. cbv beta iota zeta. rewrite Z.shiftl_1_l.
  assert (G3 : Nat.eqb (length (map (fun x_ => 2 ^ Z.of_nat (S m) * x_) (rows (S m)))) (length (cols (S m))) = true)
    by (apply Nat.eqb_eq; rewrite map_length, rows_length, cols_length; reflexivity).
  rewrite G3. fold (gather_idx (S m)).
  assert (G4 : forallb (idx_ok flat) (gather_idx (S m)) = true).
  { apply forallb_forall. intros j Hj. apply idx_ok_lt. rewrite Hl, pow4_nat. apply gather_idx_bound. exact Hj. }
  rewrite G4. reflexivity.
Qed.

(* the row-major entries of a matrix of the model, and what the gather picks: Model/Decomp.vec *)
Fixpoint bitsZ (n : nat) (x : Z) : list bool := match n with O => [] | S m => (2 ^ Z.of_nat m <=? x) :: bitsZ m (x mod 2 ^ Z.of_nat m) end.
Lemma bitsZ_lo m x : 0 <= x < 2 ^ Z.of_nat m -> bitsZ (S m) x = false :: bitsZ m x.
Proof. intros H. cbn [bitsZ]. assert (E : (2 ^ Z.of_nat m <=? x) = false) by lia. rewrite E, Z.mod_small by lia. reflexivity. Qed.
Lemma bitsZ_hi m x : 0 <= x < 2 ^ Z.of_nat m -> bitsZ (S m) (x + 2 ^ Z.of_nat m) = true :: bitsZ m x.
Proof.
  intros H. cbn [bitsZ]. assert (E : (2 ^ Z.of_nat m <=? x + 2 ^ Z.of_nat m) = true) by lia. rewrite E.
  replace (x + 2 ^ Z.of_nat m) with (x + 1 * 2 ^ Z.of_nat m) by lia. rewrite Z_mod_plus_full, Z.mod_small by lia. reflexivity.
Qed.
Lemma bv_length n : length (bv n) = Nat.pow 2 n.
Proof. induction n as [|n IH]; [reflexivity|]. cbn [bv Nat.pow]. rewrite app_length, !map_length, IH. lia. Qed.
Lemma nth_bv : forall N x, 0 <= x < 2 ^ Z.of_nat N -> nth (Z.to_nat x) (bv N) [] = bitsZ N x.
Proof.
  induction N as [|N IH]; intros x Hx.
  - cbn in Hx. assert (x = 0) by lia. subst x. reflexivity.
  - rewrite Nat2Z.inj_succ, Z.pow_succ_r in Hx by lia. pose proof (pow2_gt0 N) as Hp. cbn [bv].
    destruct (Z.lt_ge_cases x (2 ^ Z.of_nat N)) as [Hlt|Hge].
    + rewrite app_nth1 by (rewrite map_length, bv_length; apply Nat2Z.inj_lt; rewrite Z2Nat.id, pow2_nat by lia; lia).
      rewrite bitsZ_lo by lia. rewrite <- (IH x) by lia.
      rewrite (nth_indep _ [] (false :: [])) by (rewrite map_length, bv_length; apply Nat2Z.inj_lt; rewrite Z2Nat.id, pow2_nat by lia; lia).
      apply (map_nth (cons false)).
    + rewrite app_nth2 by (rewrite map_length, bv_length; apply Nat2Z.inj_ge; rewrite Z2Nat.id, pow2_nat by lia; lia).
      rewrite map_length, bv_length. replace (Z.to_nat x - Nat.pow 2 N)%nat with (Z.to_nat (x - 2 ^ Z.of_nat N)) by (rewrite Z2Nat.inj_sub, <- pow2_nat, Nat2Z.id by lia; reflexivity).
      replace x with ((x - 2 ^ Z.of_nat N) + 2 ^ Z.of_nat N) at 2 by lia. rewrite bitsZ_hi by lia. rewrite <- (IH (x - 2 ^ Z.of_nat N)) by lia.
      rewrite (nth_indep _ [] (true :: [])) by (rewrite map_length, bv_length; apply Nat2Z.inj_lt; rewrite Z2Nat.id, pow2_nat by lia; lia).
      apply (map_nth (cons true)).
Qed.
Lemma nth_concat_uniform {A} (d : A) (w : nat) : forall (L : list (list A)) (r c : nat), (forall row, In row L -> length row = w) -> (r < length L)%nat -> (c < w)%nat ->
  nth (w * r + c) (concat L) d = nth c (nth r L []) d.
Proof.
  induction L as [|row L IH]; intros r c HL Hr Hc; [cbn in Hr; lia|]. cbn [concat]. destruct r as [|r].
  - rewrite Nat.mul_0_r, Nat.add_0_l. cbn [nth]. apply app_nth1. rewrite (HL row (or_introl eq_refl)). exact Hc.
  - cbn [nth]. rewrite app_nth2 by (rewrite (HL row (or_introl eq_refl)); nia). rewrite (HL row (or_introl eq_refl)).
    replace (w * S r + c - w)%nat with (w * r + c)%nat by nia. apply IH; [intros x Hx; apply HL; right; exact Hx|cbn in Hr; lia|exact Hc].
Qed.
Definition flatten (N : nat) (A : mat) : gvec := concat (dense N A).
Lemma flatten_length N A : length (flatten N A) = Nat.pow 4 N.
Proof.
  unfold flatten, dense. assert (G : forall (L : list (list bool)), length (concat (map (fun r => map (fun c => A r c) (bv N)) L)) = (length L * Nat.pow 2 N)%nat).
  { induction L as [|x L IH]; [reflexivity|]. cbn [map concat length]. rewrite app_length, map_length, bv_length, IH. lia. }
  rewrite G, bv_length. clear G. induction N as [|N IH]; [reflexivity|]. cbn [Nat.pow]. nia.
Qed.
Lemma flatten_nth N A r c : 0 <= r < 2 ^ Z.of_nat N -> 0 <= c < 2 ^ Z.of_nat N ->
  nth (Z.to_nat (2 ^ Z.of_nat N * r + c)) (flatten N A) g0 = A (bitsZ N r) (bitsZ N c).
Proof.
  intros Hr Hc. unfold flatten, dense.
  replace (Z.to_nat (2 ^ Z.of_nat N * r + c)) with (Nat.pow 2 N * Z.to_nat r + Z.to_nat c)%nat by (rewrite <- pow2_nat; nia).
  assert (Lr : (Z.to_nat r < Nat.pow 2 N)%nat) by (apply Nat2Z.inj_lt; rewrite Z2Nat.id, pow2_nat by lia; lia).
  assert (Lc : (Z.to_nat c < Nat.pow 2 N)%nat) by (apply Nat2Z.inj_lt; rewrite Z2Nat.id, pow2_nat by lia; lia).
  rewrite (nth_concat_uniform g0 (Nat.pow 2 N)); [| |rewrite map_length, bv_length; exact Lr|exact Lc].
  - rewrite (nth_indep _ [] (map (fun c0 => A [] c0) (bv N))) by (rewrite map_length, bv_length; exact Lr).
    rewrite (map_nth (fun r0 => map (fun c0 => A r0 c0) (bv N)) (bv N) [] (Z.to_nat r)).
    rewrite (nth_indep _ g0 (A (nth (Z.to_nat r) (bv N) []) [])) by (rewrite map_length, bv_length; exact Lc).
    rewrite (map_nth (fun c0 => A (nth (Z.to_nat r) (bv N) []) c0) (bv N) [] (Z.to_nat c)). rewrite !nth_bv by lia. reflexivity.
  - intros row Hrow. apply in_map_iff in Hrow. destruct Hrow as [x [<- _]]. rewrite map_length, bv_length. reflexivity.
Qed.
Lemma combine_app {A B} (a1 a2 : list A) (b1 b2 : list B) : length a1 = length b1 -> combine (a1 ++ a2) (b1 ++ b2) = combine a1 b1 ++ combine a2 b2.
Proof. revert b1. induction a1 as [|x a1 IH]; intros [|y b1] H; try discriminate H; [reflexivity|]. cbn [app combine]. f_equal. apply IH. injection H as H. exact H. Qed.
Lemma combine_map {A B A' B'} (f : A -> A') (g : B -> B') : forall a b, combine (map f a) (map g b) = map (fun p => (f (fst p), g (snd p))) (combine a b).
Proof. induction a as [|x a IH]; intros [|y b]; try reflexivity. cbn [map combine fst snd]. f_equal. apply IH. Qed.
Lemma vec_gather : forall N A, vec N A = map (fun p => A (bitsZ N (fst p)) (bitsZ N (snd p))) (combine (rows N) (cols N)).
Proof.
  induction N as [|N IH]; intros A; [reflexivity|]. cbn [vec rows cols]. cbv zeta.
  pose proof (rows_length N) as LR. pose proof (cols_length N) as LC.
  rewrite !combine_app by (rewrite ?map_length; congruence). rewrite !map_app.
  assert (Hin : forall p, In p (combine (rows N) (cols N)) -> 0 <= fst p < 2 ^ Z.of_nat N /\ 0 <= snd p < 2 ^ Z.of_nat N).
  { intros [x y] Hp. split; [apply rows_bound; exact (in_combine_l _ _ _ _ Hp)|apply cols_bound; exact (in_combine_r _ _ _ _ Hp)]. }
  f_equal; [|f_equal; [|f_equal]].
  - rewrite (IH (blk A false false)). apply map_ext_in. intros p Hp. destruct (Hin p Hp). unfold blk. rewrite !bitsZ_lo by assumption. reflexivity.
  - rewrite (IH (blk A true true)). rewrite combine_map, map_map. cbn [fst snd]. apply map_ext_in. intros p Hp. destruct (Hin p Hp). unfold blk. rewrite !bitsZ_hi by assumption. reflexivity.
  - rewrite (IH (blk A false true)). rewrite <- (map_id (rows N)) at 2. rewrite combine_map, map_map. cbn [fst snd]. apply map_ext_in. intros p Hp. destruct (Hin p Hp). unfold blk. rewrite (bitsZ_lo N (fst p)), (bitsZ_hi N (snd p)) by assumption. reflexivity.
  - rewrite (IH (blk A true false)). rewrite <- (map_id (cols N)) at 2. rewrite combine_map, map_map. cbn [fst snd]. apply map_ext_in. intros p Hp. destruct (Hin p Hp). unfold blk. rewrite (bitsZ_hi N (fst p)), (bitsZ_lo N (snd p)) by assumption. reflexivity.
Qed.
Lemma gather_idx_eq N : gather_idx N = map (fun p => 2 ^ Z.of_nat N * fst p + snd p) (combine (rows N) (cols N)).
Proof.
  unfold gather_idx. generalize (rows N) (cols N). induction l as [|x a IH]; intros [|y b]; try reflexivity. cbn [map combine fst snd]. f_equal. apply IH.
Qed.
(* _mat_to_vec on the row-major entries of A is the Pauli-order vectorisation of the model *)
Theorem gen_n_mat_to_vec (fuel N : nat) (A : mat) : (1 <= N)%nat -> (N < fuel)%nat ->
  py_N__mat_to_vec fuel (Z.of_nat (Nat.pow 2 N)) (lift 0 (flatten N A)) = FRet (lift 0 (vec N A)).
Proof.
  intros HN Hf. rewrite (gen_n_mat_to_vec_idx fuel N _ HN Hf) by (rewrite lift_length; apply flatten_length). f_equal.
  rewrite vec_gather, gather_idx_eq. unfold lift. rewrite !map_map. apply map_ext_in. intros [x y] Hp. cbn [fst snd].
  pose proof (rows_bound N x (in_combine_l _ _ _ _ Hp)) as Hx. pose proof (cols_bound N y (in_combine_r _ _ _ _ Hp)) as Hy.
  assert (Hb : 0 <= 2 ^ Z.of_nat N * x + y < Z.of_nat (length (map (fun z : gi => (z, 0%nat)) (flatten N A)))).
  { rewrite map_length, flatten_length, pow4_nat. replace (4 ^ Z.of_nat N) with (2 ^ Z.of_nat N * 2 ^ Z.of_nat N) by (rewrite <- Z.pow_mul_l; reflexivity). nia. }
  rewrite (list_get_lt _ _ _ Hb). change ((0, 0), 0%nat) with ((fun z : gi => (z, 0%nat)) g0). rewrite map_nth. rewrite flatten_nth by assumption. reflexivity.
Qed.


(* ---- get_pauli_weights (average_pauli_weight.py): the base-4 digit weight table ---- *)
Fixpoint divs4 (m i : nat) : nat := match m with O => i | S m' => divs4 m' (i / 4) end.
Lemma inner_fold_generic (pos : nat) (f : fres (Z * Z) -> Z -> fres (Z * Z)) :
  (forall t w x, f (FRet (t, w)) x = FRet (t / 4, if negb (t mod 4 =? Z.of_nat pos) then w + 1 else w)) ->
  forall (l : list Z) i w, fold_left f l (FRet (Z.of_nat i, w)) = FRet (Z.of_nat (divs4 (length l) i), w + Z.of_nat (digits_ne (length l) i pos)).
Proof.
  intros Hf. induction l as [|x l IH]; intros i w; [cbn [fold_left length divs4 digits_ne]; f_equal; f_equal; lia|].
  cbn [fold_left length divs4 digits_ne]. rewrite Hf. change 4 with (Z.of_nat 4). rewrite <- Nat2Z.inj_div, <- Nat2Z.inj_mod.
  assert (E : (Z.of_nat (i mod 4) =? Z.of_nat pos) = Nat.eqb (i mod 4) pos) by (destruct (Nat.eqb_spec (i mod 4) pos); lia).
  rewrite E, IH. f_equal. f_equal. destruct (Nat.eqb (i mod 4) pos); cbn [negb]; lia.
Qed.
Lemma set_nth_app {A} (pre : list A) x suf v : set_nth (pre ++ x :: suf) (length pre) v = pre ++ v :: suf.
Proof. induction pre as [|a pre IH]; [reflexivity|]. cbn [app length set_nth]. rewrite IH. reflexivity. Qed.
Lemma outer_fold_generic (f : fres (list Z) -> Z -> fres (list Z)) (g : nat -> Z) :
  (forall pre x suf, f (FRet (pre ++ x :: suf)) (Z.of_nat (length pre)) = FRet (pre ++ g (length pre) :: suf)) ->
  forall cnt k pre suf, length pre = k -> length suf = cnt -> fold_left f (map Z.of_nat (seq k cnt)) (FRet (pre ++ suf)) = FRet (pre ++ map g (seq k cnt)).
Proof.
  intros Hf. induction cnt as [|cnt IH]; intros k pre suf Hp Hs.
  - destruct suf; [reflexivity|discriminate Hs].
  - destruct suf as [|x suf]; [discriminate Hs|]. cbn [seq map fold_left]. rewrite <- Hp, Hf.
    replace (pre ++ g (length pre) :: suf) with ((pre ++ [g (length pre)]) ++ suf) by (rewrite <- app_assoc; reflexivity).
    rewrite (IH (S (length pre)) (pre ++ [g (length pre)]) suf) by (rewrite ?app_length; cbn [length]; try lia; injection Hs as Hs; exact Hs).
    rewrite <- app_assoc. reflexivity.
Qed.
(* for every number of qubits and every digit chosen for the identity: the table of the model, about which C13_weights is proved *)
Theorem gen_n_pauli_weights (n pos : nat) : py_N_get_pauli_weights (Z.of_nat n) (Z.of_nat pos) = FRet (map Z.of_nat (pauli_weights n pos)).
Proof.
  unfold py_N_get_pauli_weights. cbv beta iota zeta.
  assert (G1 : (0 <=? Z.of_nat n) = true) by lia. assert (G2 : (0 <=? 4 ^ Z.of_nat n) = true) by (pose proof (Z.pow_nonneg 4 (Z.of_nat n)); lia).
  rewrite G1, G2. unfold pyrange. rewrite <- pow4_nat, !Nat2Z.id.
  match goal with |- context [fold_left ?f (map Z.of_nat (seq 0 (Nat.pow 4 n))) (FRet ?s)] =>
    assert (Hstep : forall pre x suf, f (FRet (pre ++ x :: suf)) (Z.of_nat (length pre)) = FRet (pre ++ Z.of_nat (digits_ne n (length pre) pos) :: suf)) end.
  { intros pre x suf. cbv beta iota.
    match goal with |- context [fold_left ?fi (map Z.of_nat (seq 0 n)) (FRet ?s)] =>
      pose proof (inner_fold_generic pos fi ltac:(intros t w y; reflexivity) (map Z.of_nat (seq 0 n)) (length pre) 0) as HI end.
    rewrite map_length, seq_length in HI. rewrite HI. cbv beta iota.
    rewrite idx_ok_lt by (rewrite app_length; cbn [length]; lia). rewrite list_set_lt by (rewrite app_length; cbn [length]; lia).
    rewrite Nat2Z.id, set_nth_app. rewrite Z.add_0_l. reflexivity. }
  pose proof (outer_fold_generic _ (fun i => Z.of_nat (digits_ne n i pos)) Hstep (Nat.pow 4 n) 0%nat [] (repeat 0 (Nat.pow 4 n)) eq_refl (repeat_length _ _)) as HO.
  cbn [app] in HO. rewrite HO. unfold pauli_weights. rewrite map_map. reflexivity.
Qed.
(* negative arguments, as the source treats them *)
Theorem gen_n_pauli_weights_negative n pos : n < 0 -> py_N_get_pauli_weights n pos = FNonInt.
Proof. intros H. unfold py_N_get_pauli_weights. assert (E : (0 <=? n) = false) by lia. rewrite E. reflexivity. Qed.
Example gen_pauli_weights_runs :
  py_N_get_pauli_weights 2 0 = FRet [0; 1; 1; 1; 1; 2; 2; 2; 1; 2; 2; 2; 1; 2; 2; 2] /\ py_N_get_pauli_weights 1 3 = FRet [1; 1; 1; 0].
Proof. split; vm_compute; reflexivity. Qed.

(* matrix_decomposition on a 2^N x 2^N matrix, given what _mat_to_vec returns *)
Theorem gen_n_full (fuel N : nat) (flat : list num) (v : gvec) : length v = Nat.pow 4 N -> (1 <= N)%nat -> (N < fuel)%nat ->
  py_N__mat_to_vec fuel (Z.of_nat (Nat.pow 2 N)) flat = FRet (lift 0 v) ->
  py_N_matrix_decomposition fuel 2 (Z.of_nat (Nat.pow 2 N)) (Z.of_nat (Nat.pow 2 N)) flat = FRet (lift N (bfly_iter N v)).
Proof.
  intros Hv HN Hf HM. unfold py_N_matrix_decomposition. cbv zeta. cbn [Z.eqb negb seqo Pos.eqb]. rewrite Z.eqb_refl. cbn [negb seqo].
  assert (P1 : (Z.of_nat (Nat.pow 2 N) =? 1) = false).
  { destruct N as [|N']; [lia|]. cbn [Nat.pow]. pose proof (pow2_pos N'). lia. }
  rewrite P1, popcount_pow2. cbn [Z.eqb negb seqo Pos.eqb]. cbv beta iota. rewrite HM. cbn [bindr]. cbv beta iota zeta.
  change (while_loop fuel _ _ (lift 0 v, 1)) with (while_loop fuel lvl_cond lvl4_body (lift 0 v, Z.of_nat (Nat.pow 4 0))).
  rewrite (levels4 N N 0%nat v fuel Hv ltac:(lia) Hf). reflexivity.
Qed.

Theorem gen_n_full_rejects fuel ndim s0 s1 (v : list num) :
  (ndim <> 2 -> py_N_matrix_decomposition fuel ndim s0 s1 v = FRaised (EUser "ValueError")) /\
  (s0 <> s1 -> py_N_matrix_decomposition fuel 2 s0 s1 v = FRaised (EUser "ValueError")) /\
  (py_N_matrix_decomposition fuel 2 1 1 v = FRaised (EUser "ValueError")) /\
  (popcountZ s0 <> 1 -> py_N_matrix_decomposition fuel 2 s0 s0 v = FRaised (EUser "ValueError")).
Proof.
  unfold py_N_matrix_decomposition. cbv zeta. repeat split.
  - intros H. assert (E : (ndim =? 2) = false) by lia. rewrite E. reflexivity.
  - intros H. cbn [Z.eqb negb seqo Pos.eqb]. assert (E : (s0 =? s1) = false) by lia. rewrite E. reflexivity.
  - intros H. cbn [Z.eqb negb seqo Pos.eqb]. rewrite Z.eqb_refl. cbn [negb seqo]. destruct (s0 =? 1); [reflexivity|]. cbn [seqo]. cbv beta iota.
    assert (E : (popcountZ s0 =? 1) = false) by lia. rewrite E. reflexivity.
Qed.

(* C13 read on the source, the whole function: on the row-major entries of a 2^N x 2^N matrix A (what numpy's reshape(-1) hands over) matrix_decomposition
   returns decompose N A / 2^N — index arrays, gather and butterfly; no contract on _mat_to_vec is left *)
Theorem gen_n_full_decompose (fuel N : nat) (A : mat) : (1 <= N)%nat -> (N < fuel)%nat ->
  py_N_matrix_decomposition fuel 2 (Z.of_nat (Nat.pow 2 N)) (Z.of_nat (Nat.pow 2 N)) (lift 0 (flatten N A)) = FRet (lift N (decompose N A)).
Proof.
  intros HN Hf. rewrite (gen_n_full fuel N _ (vec N A) (vec_length N A) HN Hf (gen_n_mat_to_vec fuel N A HN Hf)). f_equal. f_equal. apply (decompose_iter_eq N A).
Qed.

(* non-vacuity of the helper: a 4 x 4 matrix with entries 0..15 *)
Example gen_mat_to_vec_runs :
  py_N__mat_to_vec 5 4 (map (fun k => ((k, 0), O)) (map Z.of_nat (seq 0 16))) =
    FRet (map (fun k => ((k, 0), O)) [0; 5; 1; 4; 10; 15; 11; 14; 2; 7; 3; 6; 8; 13; 9; 12]) /\
  py_N__mat_to_vec 5 4 (map (fun k => ((k, 0), O)) (map Z.of_nat (seq 0 15))) = FRaised EIndex /\
  py_N__pauli_ord 3 (repeat 0 16%nat) (repeat 0 16%nat) 0 = FOutOfFuel.
Proof. repeat split; vm_compute; reflexivity. Qed.

Print Assumptions gen_n_diag.
Print Assumptions gen_n_diag_rejects.
Print Assumptions gen_n_diag_decompose.
Print Assumptions gen_numpy_runs.
Print Assumptions gen_n_full.
Print Assumptions gen_n_full_rejects.
Print Assumptions gen_n_full_decompose.
Print Assumptions pauli_ord_spec.
Print Assumptions gen_n_mat_to_vec_idx.
Print Assumptions gen_n_mat_to_vec.
Print Assumptions gen_mat_to_vec_runs.
Print Assumptions gen_n_pauli_weights.
Print Assumptions gen_n_pauli_weights_negative.
Print Assumptions gen_pauli_weights_runs.
