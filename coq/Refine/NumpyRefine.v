(* Refine/NumpyRefine.v — the in-place butterfly of src/paulie/application/matrix_decomposition.py (matrix_decomposition_diagonal), as
   tools/py2coq.py (py2coq_numpy.py) generates it from /repo's working tree on every run of C13, computes the iterative model
   Model/Decomp.dbfly_iter (which Theory/ButterflyT.v proves equal to the block recursion the C13 theorems are about): on a diagonal of
   2^n Gaussian integers it returns, entry by entry, (numerator of dbfly_iter, exponent n) — i.e. decompose_diag / 2^n — and it rejects the
   shapes the property lists with ValueError. *)
From PauLie Require Import Pauli Matrix Decomp DecompT ButterflyT.
From PauLieRefine Require Import PySem.
From PauLieGen Require Import NumpyGen.
From Coq Require Import Lia ZifyBool.
Open Scope Z_scope.

Definition lift (e : nat) (d : gvec) : list num := map (fun z => (z, e)) d.
Lemma lift_app e a b : lift e (a ++ b) = lift e a ++ lift e b. Proof. apply map_app. Qed.
Lemma lift_length e a : length (lift e a) = length a. Proof. apply map_length. Qed.
Lemma gscale2_0 z : gscale2 0 z = z. Proof. unfold gscale2. destruct z as [a b]. cbn. f_equal; lia. Qed.
Lemma vnadd_lift e : forall x y, vnadd (lift e x) (lift e y) = lift e (vadd x y).
Proof.
  induction x as [|a x IH]; intros [|b y]; try reflexivity. unfold vnadd, vadd, lift in *. cbn [map combine fst snd]. f_equal; [|apply IH].
  unfold nalign. cbn [fst snd]. rewrite Nat.max_id, Nat.sub_diag, !gscale2_0. reflexivity.
Qed.
Lemma vnsub_lift e : forall x y, vnsub (lift e x) (lift e y) = lift e (vsub x y).
Proof.
  induction x as [|a x IH]; intros [|b y]; try reflexivity. unfold vnsub, vsub, lift in *. cbn [map combine fst snd]. f_equal; [|apply IH].
  unfold nalign. cbn [fst snd]. rewrite Nat.max_id, Nat.sub_diag, !gscale2_0. reflexivity.
Qed.
Lemma vnhalf_lift e x : vnhalf (lift e x) = lift (S e) x.
Proof. unfold vnhalf, lift. rewrite map_map. reflexivity. Qed.

Lemma clamp_nat {A} (l : list A) (k : nat) : clamp l (Z.of_nat k) = Nat.min k (length l).
Proof. unfold clamp. assert (E : (Z.of_nat k <? 0) = false) by lia. rewrite E, Nat2Z.id. reflexivity. Qed.
(* slices of P ++ X ++ Y ++ R at the block that starts at |P| *)
Section Slices.
Context {A : Type}.
Variables (P X Y R : list A) (h : nat).
Hypothesis HX : length X = h.
Hypothesis HY : length Y = h.
Let p := Z.of_nat (length P).
Lemma slice1 : slice_range (P ++ X ++ Y ++ R) p (p + Z.of_nat h) = X.
Proof.
  unfold slice_range, p. rewrite <- Nat2Z.inj_add, !clamp_nat, !app_length, HX, HY.
  rewrite (Nat.min_l (length P)) by lia. rewrite (Nat.min_l (length P + h)) by lia. replace (length P + h - length P)%nat with h by lia.
  rewrite skipn_app_exact by reflexivity. apply firstn_app_exact. exact HX.
Qed.
Lemma slice2 : slice_range (P ++ X ++ Y ++ R) (p + Z.of_nat h) (p + 2 * Z.of_nat h) = Y.
Proof.
  unfold slice_range, p. replace (Z.of_nat (length P) + 2 * Z.of_nat h) with (Z.of_nat (length P + 2 * h)) by lia. rewrite <- Nat2Z.inj_add, !clamp_nat, !app_length, HX, HY.
  rewrite (Nat.min_l (length P + h)) by lia. rewrite (Nat.min_l (length P + 2 * h)) by lia. replace (length P + 2 * h - (length P + h))%nat with h by lia.
  replace (P ++ X ++ Y ++ R) with ((P ++ X) ++ Y ++ R) by (rewrite <- app_assoc; reflexivity).
  rewrite skipn_app_exact by (rewrite app_length; lia). apply firstn_app_exact. exact HY.
Qed.
End Slices.
Lemma assign_mid {A} (P X R X' : list A) : slice_assign (P ++ X ++ R) (Z.of_nat (length P)) (Z.of_nat (length P) + Z.of_nat (length X)) X' = P ++ X' ++ R.
Proof.
  unfold slice_assign. rewrite <- Nat2Z.inj_add, !clamp_nat, !app_length.
  rewrite (Nat.min_l (length P)) by lia. rewrite (Nat.min_l (length P + length X)) by lia. rewrite Nat.max_r by lia.
  rewrite firstn_app_exact by reflexivity. f_equal. f_equal.
  replace (P ++ X ++ R) with ((P ++ X) ++ R) by (rewrite <- app_assoc; reflexivity). apply skipn_app_exact. rewrite app_length. lia.
Qed.
Lemma assign1 {A} (P X Y R : list A) (h : nat) X' : length X = h ->
  slice_assign (P ++ X ++ Y ++ R) (Z.of_nat (length P)) (Z.of_nat (length P) + Z.of_nat h) X' = P ++ X' ++ Y ++ R.
Proof. intros <-. apply (assign_mid P X (Y ++ R) X'). Qed.
Lemma assign2 {A} (P X Y R : list A) (h : nat) Y' : length X = h -> length Y = h ->
  slice_assign (P ++ X ++ Y ++ R) (Z.of_nat (length P) + Z.of_nat h) (Z.of_nat (length P) + 2 * Z.of_nat h) Y' = P ++ X ++ Y' ++ R.
Proof.
  intros HX HY. pose proof (assign_mid (P ++ X) Y R Y') as E. rewrite app_length, HX, HY in E.
  replace (Z.of_nat (length P + h)) with (Z.of_nat (length P) + Z.of_nat h) in E by lia.
  replace (Z.of_nat (length P) + Z.of_nat h + Z.of_nat h) with (Z.of_nat (length P) + 2 * Z.of_nat h) in E by lia.
  rewrite <- !app_assoc in E. exact E.
Qed.

Lemma pow2_nat l : Z.of_nat (Nat.pow 2 l) = 2 ^ Z.of_nat l.
Proof. induction l as [|l IH]; [reflexivity|]. rewrite Nat2Z.inj_succ, Z.pow_succ_r by lia. cbn [Nat.pow]. lia. Qed.
Lemma popcount_pow2 l : popcountZ (Z.of_nat (Nat.pow 2 l)) = 1.
Proof.
  assert (E : forall l, exists p, Z.of_nat (Nat.pow 2 l) = Zpos p /\ (fix pc (q : positive) : Z := match q with xH => 1 | xO r => pc r | xI r => 1 + pc r end) p = 1).
  { induction l0 as [|l0 [p [E1 E2]]]; [exists xH; split; reflexivity|]. exists (xO p). split; [cbn [Nat.pow]; lia|exact E2]. }
  destruct (E l) as [p [E1 E2]]. rewrite E1. exact E2.
Qed.

(* the body of the loop over the blocks, as generated *)
Definition blk_body (o_ : outcome (list num * Z) (list num)) (it_ : Z) : outcome (list num * Z) (list num) :=
  seqo o_ (fun '(v_b, v_h) => let v_i := it_ in uncont (
        let '(u0_, u1_) := (slice_range v_b v_i (v_i + v_h), slice_range v_b (v_i + v_h) (v_i + 2 * v_h)) in let v_x := u0_ in let v_y := u1_ in
        if Nat.eqb (length v_x) (length v_y) then if Nat.eqb (length v_x) (length v_y) then
          let rhs0_ := vnhalf (vnadd v_x v_y) in let rhs1_ := vnhalf (vnsub v_x v_y) in
          if Nat.eqb (length rhs0_) (length (slice_range v_b v_i (v_i + v_h))) then let v_b := slice_assign v_b v_i (v_i + v_h) rhs0_ in
            if Nat.eqb (length rhs1_) (length (slice_range v_b (v_i + v_h) (v_i + 2 * v_h))) then let v_b := slice_assign v_b (v_i + v_h) (v_i + 2 * v_h) rhs1_ in Next (v_b, v_h)
            else Raised (EUser "ValueError")
          else Raised (EUser "ValueError") else Raised (EUser "ValueError") else Raised (EUser "ValueError"))).

Lemma blk_step e hn pre x y rest' : length x = hn -> length y = hn ->
  blk_body (Next (lift (S e) pre ++ lift e (x ++ y ++ rest'), Z.of_nat hn)) (Z.of_nat (length pre)) =
  Next (lift (S e) (pre ++ vadd x y ++ vsub x y) ++ lift e rest', Z.of_nat hn).
Proof.
  intros Hx Hy. unfold blk_body. cbn [seqo]. cbv zeta. rewrite !lift_app.
  assert (LP : length (lift (S e) pre) = length pre) by apply lift_length. rewrite <- LP.
  assert (Lx : length (lift e x) = hn) by (rewrite lift_length; exact Hx). assert (Ly : length (lift e y) = hn) by (rewrite lift_length; exact Hy).
  rewrite (slice1 (lift (S e) pre) (lift e x) (lift e y) (lift e rest') hn Lx Ly), (slice2 (lift (S e) pre) (lift e x) (lift e y) (lift e rest') hn Lx Ly).
  cbv beta iota. rewrite Lx, Ly, Nat.eqb_refl. rewrite vnadd_lift, vnsub_lift, !vnhalf_lift.
  rewrite !lift_length, vadd_length, vsub_length, Hx, Hy, Nat.min_id, Nat.eqb_refl. rewrite <- LP.
  rewrite (assign1 (lift (S e) pre) (lift e x) (lift e y) (lift e rest') hn _ Lx).
  assert (La : length (lift (S e) (vadd x y)) = hn) by (rewrite lift_length, vadd_length, Hx, Hy; apply Nat.min_id).
  rewrite (slice2 (lift (S e) pre) (lift (S e) (vadd x y)) (lift e y) (lift e rest') hn La Ly), Ly, Nat.eqb_refl.
  rewrite (assign2 (lift (S e) pre) (lift (S e) (vadd x y)) (lift e y) (lift e rest') hn _ La Ly).
  cbn [uncont]. rewrite <- !app_assoc. reflexivity.
Qed.

Lemma blk_pass e hn : (0 < hn)%nat -> forall k pre rest, length rest = (k * (2 * hn))%nat ->
  fold_left blk_body (map (fun j => Z.of_nat (length pre + j * (2 * hn))) (seq 0 k)) (Next (lift (S e) pre ++ lift e rest, Z.of_nat hn)) =
  Next (lift (S e) (pre ++ dpass k hn rest), Z.of_nat hn).
Proof.
  intros Hh. induction k as [|k IH]; intros pre rest Hr.
  - destruct rest; [|cbn in Hr; lia]. cbn. rewrite !app_nil_r. reflexivity.
  - destruct (dsplit_block hn Hh k rest Hr) as [x [y [rest' [-> [Hx [Hy Hr']]]]]].
    cbn [seq map fold_left]. rewrite Nat.mul_0_l, Nat.add_0_r. rewrite (blk_step e hn pre x y rest' Hx Hy).
    rewrite (dpass_block hn Hh k x y rest' Hx Hy).
    rewrite <- seq_shift, map_map.
    rewrite (map_ext _ (fun j => Z.of_nat (length (pre ++ vadd x y ++ vsub x y) + j * (2 * hn)))).
    + rewrite IH by assumption. rewrite <- !app_assoc. reflexivity.
    + intros j. rewrite !app_length, vadd_length, vsub_length, Hx, Hy, Nat.min_id. f_equal. lia.
Qed.

Lemma pow2_pos' l : (0 < Nat.pow 2 l)%nat. Proof. apply pow2_pos. Qed.
Lemma range_blocks (k hn : nat) : (0 < hn)%nat ->
  pyrange_step 0 (Z.of_nat (k * (2 * hn))) (2 * Z.of_nat hn) = map (fun j => Z.of_nat (length (@nil gi) + j * (2 * hn))) (seq 0 k).
Proof.
  intros Hh. unfold pyrange_step. replace ((Z.of_nat (k * (2 * hn)) - 0 + 2 * Z.of_nat hn - 1) / (2 * Z.of_nat hn)) with (Z.of_nat k).
  - rewrite Nat2Z.id. apply map_ext. intros j. cbn [length]. lia.
  - apply Z.div_unique with (r := 2 * Z.of_nat hn - 1); [lia|nia].
Qed.

(* the while loop over the strides: r more levels from stride 2^l *)
Definition lvl_body (s : list num * Z) : outcome (list num * Z) (list num) :=
  let '(v_b, v_h) := s in
  if 0 <? 2 * v_h then seqo (unloop (fold_left blk_body (pyrange_step 0 (Z.of_nat (length v_b)) (2 * v_h)) (Next (v_b, v_h)))) (fun '(v_b, v_h) => let v_h := v_h * 2 in Next (v_b, v_h))
  else Raised (EUser "ValueError").
Definition lvl_cond (s : list num * Z) : bool := let '(v_b, v_h) := s in v_h <? Z.of_nat (length v_b).

Lemma levels (N : nat) : forall r l c f, length c = Nat.pow 2 N -> (l + r = N)%nat -> (r < f)%nat ->
  while_loop f lvl_cond lvl_body (lift l c, Z.of_nat (Nat.pow 2 l)) = Next (lift N (dpasses r (Nat.pow 2 l) c), Z.of_nat (Nat.pow 2 N)).
Proof.
  induction r as [|r IH]; intros l c f Hc Hl Hf; (destruct f as [|f]; [lia|]); cbn [while_loop]; unfold lvl_cond at 1; cbv beta iota; rewrite lift_length, Hc.
  - assert (l = N) by lia. subst l. assert (E : (Z.of_nat (Nat.pow 2 N) <? Z.of_nat (Nat.pow 2 N)) = false) by lia. rewrite E. reflexivity.
  - assert (Hlt : (Nat.pow 2 l < Nat.pow 2 N)%nat) by (apply Nat.pow_lt_mono_r; lia).
    assert (E : (Z.of_nat (Nat.pow 2 l) <? Z.of_nat (Nat.pow 2 N)) = true) by lia. rewrite E.
    set (hn := Nat.pow 2 l). assert (Hh : (0 < hn)%nat) by apply pow2_pos.
    set (k := Nat.pow 2 (N - l - 1)).
    assert (Hk : Nat.pow 2 N = (k * (2 * hn))%nat).
    { unfold k, hn. replace N with ((N - l - 1) + S l)%nat at 1 by lia. rewrite Nat.pow_add_r. cbn [Nat.pow]. lia. }
    unfold lvl_body at 1. cbv beta iota. assert (G : (0 <? 2 * Z.of_nat hn) = true) by lia. rewrite G, lift_length, Hc, Hk.
    rewrite (range_blocks k hn Hh). change (lift l c) with (lift (S l) [] ++ lift l c).
    rewrite (blk_pass l hn Hh k [] c (eq_trans Hc Hk)). cbn [unloop seqo uncont app]. cbv beta iota zeta.
    replace (Z.of_nat hn * 2) with (Z.of_nat (Nat.pow 2 (S l))) by (unfold hn; cbn [Nat.pow]; lia).
    assert (Hc' : length (dpass k hn c) = Nat.pow 2 N) by (rewrite (dpass_length hn Hh k c (eq_trans Hc Hk)); exact Hc).
    pose proof (IH (S l) (dpass k hn c) f Hc' ltac:(lia) ltac:(lia)) as E2. rewrite E2.
    rewrite <- Hk. cbn [dpasses]. rewrite (dpass_len_fuel hn Hh k c (eq_trans Hc Hk)).
    replace (2 * hn)%nat with (Nat.pow 2 (S l)) by (unfold hn; cbn [Nat.pow]; lia). reflexivity.
Qed.

Theorem gen_n_diag (fuel N : nat) (d : gvec) : length d = Nat.pow 2 N -> (1 <= N)%nat -> (N < fuel)%nat ->
  py_N_matrix_decomposition_diagonal fuel 1 (lift 0 d) = FRet (lift N (dbfly_iter N d)).
Proof.
  intros Hd HN Hf. unfold py_N_matrix_decomposition_diagonal. cbv zeta. cbn [Z.eqb negb seqo]. rewrite lift_length, Hd.
  assert (P1 : (Z.of_nat (Nat.pow 2 N) =? 1) = false).
  { destruct N as [|N']; [lia|]. cbn [Nat.pow]. pose proof (pow2_pos N'). lia. }
  rewrite P1, popcount_pow2. cbn [Z.eqb negb seqo Pos.eqb]. cbv beta iota.
  change (while_loop fuel _ _ (lift 0 d, 1)) with (while_loop fuel lvl_cond lvl_body (lift 0 d, Z.of_nat (Nat.pow 2 0))).
  rewrite (levels N N 0%nat d fuel Hd ltac:(lia) Hf). reflexivity.
Qed.

(* the shapes the property lists are rejected *)
Theorem gen_n_diag_rejects fuel ndim (v : list num) :
  (ndim <> 1 -> py_N_matrix_decomposition_diagonal fuel ndim v = FRaised (EUser "ValueError")) /\
  (length v = 1%nat -> py_N_matrix_decomposition_diagonal fuel 1 v = FRaised (EUser "ValueError")) /\
  (popcountZ (Z.of_nat (length v)) <> 1 -> py_N_matrix_decomposition_diagonal fuel 1 v = FRaised (EUser "ValueError")).
Proof.
  unfold py_N_matrix_decomposition_diagonal. cbv zeta. repeat split.
  - intros H. assert (E : (ndim =? 1) = false) by lia. rewrite E. reflexivity.
  - intros H. rewrite H. reflexivity.
  - intros H. cbn [Z.eqb negb seqo]. destruct (Z.of_nat (length v) =? 1); [reflexivity|]. cbn [seqo]. cbv beta iota.
    assert (E : (popcountZ (Z.of_nat (length v)) =? 1) = false) by lia. rewrite E. reflexivity.
Qed.

(* C13 read on the source: the diagonal variant returns decompose_diag n d / 2^n, entry by entry *)
Theorem gen_n_diag_decompose (fuel N : nat) (d : list bool -> gi) : (1 <= N)%nat -> (N < fuel)%nat ->
  py_N_matrix_decomposition_diagonal fuel 1 (lift 0 (dvec N d)) = FRet (lift N (decompose_diag N d)).
Proof.
  intros HN Hf. rewrite (gen_n_diag fuel N (dvec N d) (dvec_length N d) HN Hf). f_equal. f_equal. apply (decompose_diag_iter_eq N d).
Qed.

Example gen_numpy_runs :
  py_N_matrix_decomposition_diagonal 5 1 (lift 0 [(1,0); (2,0); (3,0); (5,0)]) = FRet (lift 2 [(11,0); (-3,0); (-5,0); (1,0)]) /\
  py_N_matrix_decomposition_diagonal 5 1 (lift 0 [(1,0); (2,0); (3,0)]) = FRaised (EUser "ValueError") /\
  py_N_matrix_decomposition_diagonal 5 2 (lift 0 [(1,0); (2,0)]) = FRaised (EUser "ValueError") /\
  py_N_matrix_decomposition_diagonal 1 1 (lift 0 [(1,0); (2,0); (3,0); (5,0)]) = FOutOfFuel.
Proof. repeat split; vm_compute; reflexivity. Qed.

(* ---------- the general variant: four-way butterfly ---------- *)
Lemma vnimul_lift e x : vnimul (lift e x) = lift e (vimul x).
Proof. unfold vnimul, vimul, lift. rewrite !map_map. reflexivity. Qed.
Lemma vimul_length x : length (vimul x) = length x. Proof. apply map_length. Qed.

Lemma slice_at {A} (l pre X post : list A) (a b : Z) : l = pre ++ X ++ post -> a = Z.of_nat (length pre) -> b = a + Z.of_nat (length X) -> slice_range l a b = X.
Proof.
  intros -> -> ->. unfold slice_range. rewrite <- Nat2Z.inj_add, !clamp_nat, !app_length.
  rewrite (Nat.min_l (length pre)) by lia. rewrite (Nat.min_l (length pre + length X)) by lia. replace (length pre + length X - length pre)%nat with (length X) by lia.
  rewrite skipn_app_exact by reflexivity. apply firstn_app_exact. reflexivity.
Qed.
Lemma assign_at {A} (l pre X post X' : list A) (a b : Z) : l = pre ++ X ++ post -> a = Z.of_nat (length pre) -> b = a + Z.of_nat (length X) ->
  slice_assign l a b X' = pre ++ X' ++ post.
Proof. intros -> -> ->. apply assign_mid. Qed.

Definition blk4_body (o_ : outcome (list num * Z) (list num)) (it_ : Z) : outcome (list num * Z) (list num) :=
  seqo o_ (fun '(v_b, v_h) => let v_i := it_ in uncont (
    let '(u0_, u1_) := (slice_range v_b v_i (v_i + v_h), slice_range v_b (v_i + v_h) (v_i + 2 * v_h)) in let v_x := u0_ in let v_y := u1_ in
    if Nat.eqb (length v_x) (length v_y) then if Nat.eqb (length v_x) (length v_y) then
      let rhs0_ := vnhalf (vnadd v_x v_y) in let rhs1_ := vnhalf (vnsub v_x v_y) in
      if Nat.eqb (length rhs0_) (length (slice_range v_b v_i (v_i + v_h))) then let v_b := slice_assign v_b v_i (v_i + v_h) rhs0_ in
        if Nat.eqb (length rhs1_) (length (slice_range v_b (v_i + v_h) (v_i + 2 * v_h))) then let v_b := slice_assign v_b (v_i + v_h) (v_i + 2 * v_h) rhs1_ in
          let '(u0_, u1_) := (slice_range v_b (v_i + 2 * v_h) (v_i + 3 * v_h), slice_range v_b (v_i + 3 * v_h) (v_i + 4 * v_h)) in let v_z := u0_ in let v_w := u1_ in
          if Nat.eqb (length v_z) (length v_w) then if Nat.eqb (length v_z) (length v_w) then
            let rhs0_ := vnhalf (vnadd v_z v_w) in let rhs1_ := vnhalf (vnimul (vnsub v_z v_w)) in
            if Nat.eqb (length rhs0_) (length (slice_range v_b (v_i + 2 * v_h) (v_i + 3 * v_h))) then let v_b := slice_assign v_b (v_i + 2 * v_h) (v_i + 3 * v_h) rhs0_ in
              if Nat.eqb (length rhs1_) (length (slice_range v_b (v_i + 3 * v_h) (v_i + 4 * v_h))) then let v_b := slice_assign v_b (v_i + 3 * v_h) (v_i + 4 * v_h) rhs1_ in Next (v_b, v_h)
              else Raised (EUser "ValueError")
            else Raised (EUser "ValueError") else Raised (EUser "ValueError") else Raised (EUser "ValueError")
        else Raised (EUser "ValueError")
      else Raised (EUser "ValueError") else Raised (EUser "ValueError") else Raised (EUser "ValueError"))).

Ltac sl := first [reflexivity | rewrite <- ?app_assoc; reflexivity | rewrite ?app_length, ?lift_length, ?vadd_length, ?vsub_length, ?vimul_length; lia].

Lemma blk4_step e hn pre x y z w rest' : length x = hn -> length y = hn -> length z = hn -> length w = hn ->
  blk4_body (Next (lift (S e) pre ++ lift e (x ++ y ++ z ++ w ++ rest'), Z.of_nat hn)) (Z.of_nat (length pre)) =
  Next (lift (S e) (pre ++ combS x y z w) ++ lift e rest', Z.of_nat hn).
Proof.
  intros Hx Hy Hz Hw. unfold blk4_body. cbn [seqo]. cbv zeta. rewrite !lift_app.
  set (P := lift (S e) pre). set (X := lift e x). set (Y := lift e y). set (Zz := lift e z). set (W := lift e w). set (R := lift e rest').
  assert (LP : length P = length pre) by apply lift_length.
  assert (LX : length X = hn) by (unfold X; rewrite lift_length; exact Hx). assert (LY : length Y = hn) by (unfold Y; rewrite lift_length; exact Hy).
  assert (LZ : length Zz = hn) by (unfold Zz; rewrite lift_length; exact Hz). assert (LW : length W = hn) by (unfold W; rewrite lift_length; exact Hw).
  set (i := Z.of_nat (length pre)). set (h := Z.of_nat hn).
  rewrite (slice_at _ P X (Y ++ Zz ++ W ++ R) i (i + h)) by (unfold i, h; sl).
  rewrite (slice_at _ (P ++ X) Y (Zz ++ W ++ R) (i + h) (i + 2 * h)) by (unfold i, h; sl).
  cbv beta iota. rewrite LX, LY, Nat.eqb_refl.
  set (X1 := vnhalf (vnadd X Y)). set (Y1 := vnhalf (vnsub X Y)).
  assert (EX1 : X1 = lift (S e) (vadd x y)) by (unfold X1, X, Y; rewrite vnadd_lift, vnhalf_lift; reflexivity).
  assert (EY1 : Y1 = lift (S e) (vsub x y)) by (unfold Y1, X, Y; rewrite vnsub_lift, vnhalf_lift; reflexivity).
  assert (LX1 : length X1 = hn) by (rewrite EX1, lift_length, vadd_length, Hx, Hy; apply Nat.min_id).
  assert (LY1 : length Y1 = hn) by (rewrite EY1, lift_length, vsub_length, Hx, Hy; apply Nat.min_id).
  rewrite LX1, Nat.eqb_refl.
  rewrite (assign_at _ P X (Y ++ Zz ++ W ++ R) X1 i (i + h)) by (unfold i, h; sl).
  rewrite (slice_at _ (P ++ X1) Y (Zz ++ W ++ R) (i + h) (i + 2 * h)) by (unfold i, h; sl).
  rewrite LY1, LY, Nat.eqb_refl.
  rewrite (assign_at _ (P ++ X1) Y (Zz ++ W ++ R) Y1 (i + h) (i + 2 * h)) by (unfold i, h; sl).
  rewrite (slice_at _ (P ++ X1 ++ Y1) Zz (W ++ R) (i + 2 * h) (i + 3 * h)) by (unfold i, h; sl).
  rewrite (slice_at _ (P ++ X1 ++ Y1 ++ Zz) W R (i + 3 * h) (i + 4 * h)) by (unfold i, h; sl).
  cbv beta iota. rewrite LZ, LW, Nat.eqb_refl.
  set (Z1 := vnhalf (vnadd Zz W)). set (W1 := vnhalf (vnimul (vnsub Zz W))).
  assert (EZ1 : Z1 = lift (S e) (vadd z w)) by (unfold Z1, Zz, W; rewrite vnadd_lift, vnhalf_lift; reflexivity).
  assert (EW1 : W1 = lift (S e) (vimul (vsub z w))) by (unfold W1, Zz, W; rewrite vnsub_lift, vnimul_lift, vnhalf_lift; reflexivity).
  assert (LZ1 : length Z1 = hn) by (rewrite EZ1, lift_length, vadd_length, Hz, Hw; apply Nat.min_id).
  assert (LW1 : length W1 = hn) by (rewrite EW1, lift_length, vimul_length, vsub_length, Hz, Hw; apply Nat.min_id).
  rewrite LZ1, Nat.eqb_refl.
  rewrite (assign_at _ (P ++ X1 ++ Y1) Zz (W ++ R) Z1 (i + 2 * h) (i + 3 * h)) by (unfold i, h; sl).
  rewrite (slice_at _ (P ++ X1 ++ Y1 ++ Z1) W R (i + 3 * h) (i + 4 * h)) by (unfold i, h; sl).
  rewrite LW1, LW, Nat.eqb_refl.
  rewrite (assign_at _ (P ++ X1 ++ Y1 ++ Z1) W R W1 (i + 3 * h) (i + 4 * h)) by (unfold i, h; sl).
  cbn [uncont]. rewrite EX1, EY1, EZ1, EW1. unfold P, R, combS. rewrite !lift_app, <- !app_assoc. reflexivity.
Qed.

Lemma blk4_pass e hn : (0 < hn)%nat -> forall k pre rest, length rest = (k * (4 * hn))%nat ->
  fold_left blk4_body (map (fun j => Z.of_nat (length pre + j * (4 * hn))) (seq 0 k)) (Next (lift (S e) pre ++ lift e rest, Z.of_nat hn)) =
  Next (lift (S e) (pre ++ pass k hn rest), Z.of_nat hn).
Proof.
  intros Hh. induction k as [|k IH]; intros pre rest Hr.
  - destruct rest; [|cbn in Hr; lia]. cbn. rewrite !app_nil_r. reflexivity.
  - destruct (split_block hn Hh k rest Hr) as [x [y [z [w [rest' [-> [Hx [Hy [Hz [Hw Hr']]]]]]]]]].
    cbn [seq map fold_left]. rewrite Nat.mul_0_l, Nat.add_0_r. rewrite (blk4_step e hn pre x y z w rest' Hx Hy Hz Hw).
    rewrite (pass_block hn Hh k x y z w rest' Hx Hy Hz Hw).
    rewrite <- seq_shift, map_map.
    rewrite (map_ext _ (fun j => Z.of_nat (length (pre ++ combS x y z w) + j * (4 * hn)))).
    + rewrite IH by assumption. rewrite <- !app_assoc. reflexivity.
    + intros j. rewrite app_length, (combS_length hn) by assumption. f_equal. lia.
Qed.

Lemma range_blocks4 (k hn : nat) : (0 < hn)%nat ->
  pyrange_step 0 (Z.of_nat (k * (4 * hn))) (4 * Z.of_nat hn) = map (fun j => Z.of_nat (length (@nil gi) + j * (4 * hn))) (seq 0 k).
Proof.
  intros Hh. unfold pyrange_step. replace ((Z.of_nat (k * (4 * hn)) - 0 + 4 * Z.of_nat hn - 1) / (4 * Z.of_nat hn)) with (Z.of_nat k).
  - rewrite Nat2Z.id. apply map_ext. intros j. cbn [length]. lia.
  - apply Z.div_unique with (r := 4 * Z.of_nat hn - 1); [lia|nia].
Qed.

Definition lvl4_body (s : list num * Z) : outcome (list num * Z) (list num) :=
  let '(v_b, v_h) := s in
  if 0 <? 4 * v_h then seqo (unloop (fold_left blk4_body (pyrange_step 0 (Z.of_nat (length v_b)) (4 * v_h)) (Next (v_b, v_h)))) (fun '(v_b, v_h) => let v_h := v_h * 4 in Next (v_b, v_h))
  else Raised (EUser "ValueError").

Lemma levels4 (N : nat) : forall r l c f, length c = Nat.pow 4 N -> (l + r = N)%nat -> (r < f)%nat ->
  while_loop f lvl_cond lvl4_body (lift l c, Z.of_nat (Nat.pow 4 l)) = Next (lift N (passes r (Nat.pow 4 l) c), Z.of_nat (Nat.pow 4 N)).
Proof.
  induction r as [|r IH]; intros l c f Hc Hl Hf; (destruct f as [|f]; [lia|]); cbn [while_loop]; unfold lvl_cond at 1; cbv beta iota; rewrite lift_length, Hc.
  - assert (l = N) by lia. subst l. assert (E : (Z.of_nat (Nat.pow 4 N) <? Z.of_nat (Nat.pow 4 N)) = false) by lia. rewrite E. reflexivity.
  - assert (Hlt : (Nat.pow 4 l < Nat.pow 4 N)%nat) by (apply Nat.pow_lt_mono_r; lia).
    assert (E : (Z.of_nat (Nat.pow 4 l) <? Z.of_nat (Nat.pow 4 N)) = true) by lia. rewrite E.
    set (hn := Nat.pow 4 l). assert (Hh : (0 < hn)%nat) by apply pow4_pos.
    set (k := Nat.pow 4 (N - l - 1)).
    assert (Hk : Nat.pow 4 N = (k * (4 * hn))%nat).
    { unfold k, hn. replace N with ((N - l - 1) + S l)%nat at 1 by lia. rewrite Nat.pow_add_r. cbn [Nat.pow]. lia. }
    unfold lvl4_body at 1. cbv beta iota. assert (G : (0 <? 4 * Z.of_nat hn) = true) by lia. rewrite G, lift_length, Hc, Hk.
    rewrite (range_blocks4 k hn Hh). change (lift l c) with (lift (S l) [] ++ lift l c).
    rewrite (blk4_pass l hn Hh k [] c (eq_trans Hc Hk)). cbn [unloop seqo uncont app]. cbv beta iota zeta.
    replace (Z.of_nat hn * 4) with (Z.of_nat (Nat.pow 4 (S l))) by (unfold hn; cbn [Nat.pow]; lia).
    assert (Hc' : length (pass k hn c) = Nat.pow 4 N) by (rewrite (pass_length hn Hh k c (eq_trans Hc Hk)); exact Hc).
    pose proof (IH (S l) (pass k hn c) f Hc' ltac:(lia) ltac:(lia)) as E2. rewrite E2.
    rewrite <- Hk. cbn [passes]. rewrite (pass_len_fuel hn Hh k c (eq_trans Hc Hk)).
    replace (4 * hn)%nat with (Nat.pow 4 (S l)) by (unfold hn; cbn [Nat.pow]; lia). reflexivity.
Qed.

(* matrix_decomposition on a 2^N x 2^N matrix whose Pauli-order vectorisation is v *)
Theorem gen_n_full (fuel N : nat) (v : gvec) : length v = Nat.pow 4 N -> (1 <= N)%nat -> (N < fuel)%nat ->
  py_N_matrix_decomposition fuel 2 (Z.of_nat (Nat.pow 2 N)) (Z.of_nat (Nat.pow 2 N)) (lift 0 v) = FRet (lift N (bfly_iter N v)).
Proof.
  intros Hv HN Hf. unfold py_N_matrix_decomposition. cbv zeta. cbn [Z.eqb negb seqo Pos.eqb]. rewrite Z.eqb_refl. cbn [negb seqo].
  assert (P1 : (Z.of_nat (Nat.pow 2 N) =? 1) = false).
  { destruct N as [|N']; [lia|]. cbn [Nat.pow]. pose proof (pow2_pos N'). lia. }
  rewrite P1, popcount_pow2. cbn [Z.eqb negb seqo Pos.eqb]. cbv beta iota.
  change (while_loop fuel _ _ (lift 0 v, 1)) with (while_loop fuel lvl_cond lvl4_body (lift 0 v, Z.of_nat (Nat.pow 4 0))).
  rewrite (levels4 N N 0%nat v fuel Hv ltac:(lia) Hf). reflexivity.
Qed.

Theorem gen_n_full_rejects fuel ndim s0 s1 (v : list num) :
  (ndim <> 2 -> py_N_matrix_decomposition fuel ndim s0 s1 v = FRaised (EUser "ValueError")) /\
  (s0 <> s1 -> py_N_matrix_decomposition fuel 2 s0 s1 v = FRaised (EUser "ValueError")) /\
  (py_N_matrix_decomposition fuel 2 1 1 v = FRaised (EUser "ValueError")) /\
  (popcountZ s0 <> 1 -> py_N_matrix_decomposition fuel 2 s0 s0 v = FRaised (EUser "ValueError")).
Proof.
  unfold py_N_matrix_decomposition. cbv zeta. repeat split.
  - intros H. assert (E : (ndim =? 2) = false) by lia. rewrite E. reflexivity.
  - intros H. cbn [Z.eqb negb seqo Pos.eqb]. assert (E : (s0 =? s1) = false) by lia. rewrite E. reflexivity.
  - intros H. cbn [Z.eqb negb seqo Pos.eqb]. rewrite Z.eqb_refl. cbn [negb seqo]. destruct (s0 =? 1); [reflexivity|]. cbn [seqo]. cbv beta iota.
    assert (E : (popcountZ s0 =? 1) = false) by lia. rewrite E. reflexivity.
Qed.

(* C13 read on the source: given the Pauli-order vectorisation vec N A (the contract of _mat_to_vec), the weights are decompose N A / 2^N *)
Theorem gen_n_full_decompose (fuel N : nat) (A : mat) : (1 <= N)%nat -> (N < fuel)%nat ->
  py_N_matrix_decomposition fuel 2 (Z.of_nat (Nat.pow 2 N)) (Z.of_nat (Nat.pow 2 N)) (lift 0 (vec N A)) = FRet (lift N (decompose N A)).
Proof.
  intros HN Hf. rewrite (gen_n_full fuel N (vec N A) (vec_length N A) HN Hf). f_equal. f_equal. apply (decompose_iter_eq N A).
Qed.

Print Assumptions gen_n_diag.
Print Assumptions gen_n_diag_rejects.
Print Assumptions gen_n_diag_decompose.
Print Assumptions gen_numpy_runs.
Print Assumptions gen_n_full.
Print Assumptions gen_n_full_rejects.
Print Assumptions gen_n_full_decompose.
