(* Refine/LinRefine.v — the algebra of PauliStringLinear that tools/py2coq.py generates from src/paulie/common/pauli_string_linear.py
   (simplify, __add__, __matmul__, __mul__, __rmul__, h, trace, is_zero, __eq__) is equal to the hand-written Model/Linear.v about which
   the C12 theorems (the matrix of @, +, c*, .h, simplify, trace; is_zero <-> matrix = 0; == decides matrix equality) are stated.
   Coefficients are Gaussian integers (exact complex arithmetic); floating point is not modelled. *)
From PauLie Require Import Pauli Matrix Linear MatrixT ParserT LinearT LeqT.
From PauLieRefine Require Import PySem.
From PauLieGen Require Import LinGen.
From Coq Require Import Lia ZifyBool.
Open Scope Z_scope.

Definition verr : exn := EUser "ValueError".

(* the `for coeff, pauli in X: d[str(pauli)] += coeff` loop is dict_of *)
Lemma sum_loop {S R} (mk : list (pstr * gi) -> gi -> pstr -> S) (F : outcome S R -> gi * pstr -> outcome S R) :
  (forall d c0 p0 c p, F (Next (mk d c0 p0)) (c, p) = Next (mk (dict_add d p c) c p)) ->
  forall a d c0 p0, exists c1 p1, fold_left F a (Next (mk d c0 p0)) = Next (mk (dict_of a d) c1 p1).
Proof.
  intros HF. induction a as [|[c p] a IH]; intros d c0 p0; [exists c0, p0; reflexivity|].
  cbn [fold_left]. rewrite HF. destruct (IH (dict_add d p c) c p) as [c1 [p1 E]]. exists c1, p1. rewrite E. reflexivity.
Qed.

Lemma nonzero_terms_gen d :
  map (fun it_ : pstr * gi => let '(p, c) := it_ in (c, p)) (filter (fun it_ : pstr * gi => let '(p, c) := it_ in negb (gzero c)) d) = nonzero_terms d.
Proof.
  unfold nonzero_terms. induction d as [|[p c] d IH]; [reflexivity|]. cbn [filter map fst snd]. destruct (negb (gzero c)); cbn [map fst snd]; rewrite IH; reflexivity.
Qed.

Theorem gen_l_simplify a : py_L_simplify a = FRet (simplify a).
Proof.
  unfold py_L_simplify. cbv zeta. destruct a as [|t a]; [reflexivity|]. set (A := t :: a). cbn [negb seqo].
  match goal with |- context [fold_left ?f A _] => set (F := f) end.
  destruct (sum_loop (fun d c p => (d, c, p, @nil (gi * pstr))) F (fun d c0 p0 c p => eq_refl) A [] (0, 0) []) as [c1 [p1 E]].
  rewrite E. cbn [unloop seqo]. rewrite nonzero_terms_gen. unfold simplify. subst A. fold (dict_of (t :: a) []).
  destruct (nonzero_terms (dict_of (t :: a) [])) as [|x l]; cbn [negb seqo finish]; [|reflexivity].
  rewrite Nat2Z.id. reflexivity.
Qed.

Theorem gen_l_add a b : py_L_add a b = FRet (ladd a b).
Proof.
  unfold py_L_add. cbv zeta.
  match goal with |- context [fold_left ?f a _] => set (F := f) end.
  destruct (sum_loop (fun d c p => (d, c, p, @nil (gi * pstr), 0)) F (fun d c0 p0 c p => eq_refl) a [] (0, 0) []) as [c1 [p1 E1]].
  rewrite E1. cbn [unloop seqo].
  destruct (sum_loop (fun d c p => (d, c, p, @nil (gi * pstr), 0)) F (fun d c0 p0 c p => eq_refl) b (dict_of a []) c1 p1) as [c2 [p2 E2]].
  rewrite E2. cbn [unloop seqo]. rewrite nonzero_terms_gen. unfold ladd.
  destruct (nonzero_terms (dict_of b (dict_of a []))) as [|x l]; cbn [negb seqo finish]; [|reflexivity].
  f_equal. f_equal. f_equal. f_equal.
  destruct (Nat.ltb_spec 0 (size_of a)) as [H|H].
  - replace (Z.of_nat (size_of a) >? 0) with true by lia. apply Nat2Z.id.
  - replace (Z.of_nat (size_of a) >? 0) with false by lia. apply Nat2Z.id.
Qed.

Theorem gen_l_h a : py_L_h a = FRet (lherm a).
Proof.
  unfold py_L_h, lherm. cbv zeta. cbn [finish]. f_equal. apply map_ext. intros [c p]. reflexivity.
Qed.

Theorem gen_l_mul a s : py_L_mul a s = match a with [] => FNonInt | _ => FRet (lscale s a) end.
Proof.
  unfold py_L_mul, lscale. cbv zeta. destruct a as [|[c p] a]; [reflexivity|]. cbn [map negb finish]. f_equal. f_equal.
  apply map_ext. intros [c' p']. reflexivity.
Qed.
Theorem gen_l_rmul a s : py_L_rmul a s = match a with [] => FNonInt | _ => FRet (lscale s a) end.
Proof. unfold py_L_rmul. rewrite gen_l_mul. destruct a; reflexivity. Qed.

Theorem gen_l_trace a : py_L_trace a = FRet (ltrace a).
Proof.
  unfold py_L_trace, ltrace. cbv zeta.
  match goal with |- context [fold_left ?f a _] => set (F := f) end.
  assert (L : forall l s0 c0 p0 k, exists c1 p1,
     fold_left F l (Next (s0, c0, p0, k)) = Next (fold_left (fun s t => if is_identity (snd t) then gadd s (fst t) else s) l s0, c1, p1, k)).
  { induction l as [|[c p] l IH]; intros s0 c0 p0 k; [exists c0, p0; reflexivity|]. cbn [fold_left fst snd].
    assert (St : F (Next (s0, c0, p0, k)) (c, p) = Next ((if is_identity p then gadd s0 c else s0), c, p, k)).
    { subst F. cbv beta iota. cbn [seqo uncont]. destruct (is_identity p); reflexivity. }
    rewrite St. apply IH. }
  destruct (L a g0 (0, 0) [] 0) as [c1 [p1 E]]. rewrite E. cbn [unloop seqo].
  set (s := fold_left (fun s t => if is_identity (snd t) then gadd s (fst t) else s) a g0).
  destruct (gzero s) eqn:Z0; cbn [seqo finish].
  - apply gzero_true in Z0. rewrite Z0. reflexivity.
  - replace (0 <=? Z.of_nat (size_of a)) with true by lia. reflexivity.
Qed.

Theorem gen_l_is_zero a : py_L_is_zero a = FRet (lis_zero a).
Proof.
  unfold py_L_is_zero, lis_zero. cbv zeta.
  match goal with |- context [fold_left ?f a _] => set (F := f) end.
  destruct (sum_loop (fun d c p => (d, c, p)) F (fun d c0 p0 c p => eq_refl) a [] (0, 0) []) as [c1 [p1 E]].
  rewrite E. cbn [unloop seqo finish]. f_equal. generalize (dict_of a []). intros d. induction d as [|x d IH]; [reflexivity|]. cbn [map forallb]. rewrite IH. reflexivity.
Qed.

(* ---------- __matmul__ ---------- *)
Definition term_prod (ta tb : gi * pstr) : gi * pstr := (gmul (gmul (fst ta) (fst tb)) (phase (snd ta) (snd tb)), smul (snd ta) (snd tb)).
Lemma prod_terms_flat a b : prod_terms a b = flat_map (fun ta => map (term_prod ta) b) a.
Proof. reflexivity. Qed.

Theorem gen_l_matmul n a b : all_n n a -> all_n n b -> py_L_matmul a b = FRet (lmatmul a b).
Proof.
  intros Ha Hb. unfold py_L_matmul. cbv zeta.
  match goal with |- context [fold_left ?f a _] => set (Fo := f) end.
  match goal with Fo := context [fold_left ?f _ _] |- _ => set (Fi := f) in Fo end.
  assert (Li : forall l T ca pa oc0 op0 ph0 pr0 nc0 sz, length pa = n -> all_n n l -> exists oc1 op1 ph1 pr1 nc1,
     fold_left Fi l (Next (T, ca, pa, oc0, op0, ph0, pr0, nc0, sz)) = Next (T ++ map (term_prod (ca, pa)) l, ca, pa, oc1, op1, ph1, pr1, nc1, sz)).
  { induction l as [|[cb pb] l IH]; intros T ca pa oc0 op0 ph0 pr0 nc0 sz Hpa Hl; [exists oc0, op0, ph0, pr0, nc0; cbn; rewrite app_nil_r; reflexivity|].
    cbn [fold_left map]. assert (Hpb : length pb = n) by (apply (Hl (cb, pb)); left; reflexivity).
    assert (St : Fi (Next (T, ca, pa, oc0, op0, ph0, pr0, nc0, sz)) (cb, pb) =
                 Next (T ++ [term_prod (ca, pa) (cb, pb)], ca, pa, cb, pb, phase pa pb, smul pa pb, gmul (gmul ca cb) (phase pa pb), sz)).
    { subst Fi. cbv beta iota. cbn [seqo uncont]. rewrite sign_code_ok, multiply_code_ok by congruence. reflexivity. }
    rewrite St. destruct (IH (T ++ [term_prod (ca, pa) (cb, pb)]) ca pa cb pb (phase pa pb) (smul pa pb) (gmul (gmul ca cb) (phase pa pb)) sz Hpa) as [oc1 [op1 [ph1 [pr1 [nc1 E]]]]].
    { intros t Ht. apply Hl. right. exact Ht. }
    exists oc1, op1, ph1, pr1, nc1. eapply eq_trans; [exact E|]. rewrite <- app_assoc. reflexivity. }
  assert (Lo : forall l T ca0 pa0 oc0 op0 ph0 pr0 nc0 sz, all_n n l -> exists ca1 pa1 oc1 op1 ph1 pr1 nc1,
     fold_left Fo l (Next (T, ca0, pa0, oc0, op0, ph0, pr0, nc0, sz)) = Next (T ++ prod_terms l b, ca1, pa1, oc1, op1, ph1, pr1, nc1, sz)).
  { induction l as [|[ca pa] l IH]; intros T ca0 pa0 oc0 op0 ph0 pr0 nc0 sz Hl; [exists ca0, pa0, oc0, op0, ph0, pr0, nc0; cbn; rewrite app_nil_r; reflexivity|].
    cbn [fold_left]. assert (Hpa : length pa = n) by (apply (Hl (ca, pa)); left; reflexivity).
    destruct (Li b T ca pa oc0 op0 ph0 pr0 nc0 sz Hpa Hb) as [oc1 [op1 [ph1 [pr1 [nc1 Ei]]]]].
    assert (St : Fo (Next (T, ca0, pa0, oc0, op0, ph0, pr0, nc0, sz)) (ca, pa) = Next (T ++ map (term_prod (ca, pa)) b, ca, pa, oc1, op1, ph1, pr1, nc1, sz)).
    { subst Fo. cbv beta iota. cbn [seqo uncont]. unfold pstr in *. rewrite Ei. reflexivity. }
    rewrite St. destruct (IH (T ++ map (term_prod (ca, pa)) b) ca pa oc1 op1 ph1 pr1 nc1 sz) as [ca1 [pa1 [oc2 [op2 [ph2 [pr2 [nc2 E]]]]]]].
    { intros t Ht. apply Hl. right. exact Ht. }
    exists ca1, pa1, oc2, op2, ph2, pr2, nc2. eapply eq_trans; [exact E|]. rewrite <- app_assoc. reflexivity. }
  destruct (Lo a [] (0, 0) [] (0, 0) [] (0, 0) [] (0, 0) 0 Ha) as [ca1 [pa1 [oc1 [op1 [ph1 [pr1 [nc1 E]]]]]]].
  unfold pstr in *. rewrite E. cbn [unloop seqo app]. unfold lmatmul, finish_matmul.
  destruct (prod_terms a b) as [|x l] eqn:EP; cbn [negb seqo finish].
  - f_equal. f_equal. f_equal. f_equal.
    destruct (Nat.ltb_spec 0 (size_of a)) as [H|H].
    + replace (Z.of_nat (size_of a) >? 0) with true by lia. apply Nat2Z.id.
    + replace (Z.of_nat (size_of a) >? 0) with false by lia. apply Nat2Z.id.
  - rewrite gen_l_simplify. reflexivity.
Qed.

(* ---------- __eq__ ---------- *)
Definition swap (t : gi * pstr) : pstr * gi := (snd t, fst t).
Definition keys_of (l : lin) : list pstr := map snd l.

Lemma gdict_set_fresh d k v : ~ In k (map fst d) -> gdict_set d k v = d ++ [(k, v)].
Proof.
  induction d as [|[q e] d IH]; intros H; [reflexivity|]. cbn [gdict_set map fst In] in *.
  destruct (pstr_eqb k q) eqn:E; [apply pstr_eqb_eq in E; subst q; exfalso; apply H; left; reflexivity|].
  cbn [app]. f_equal. apply IH. intros Hk. apply H. right. exact Hk.
Qed.
Lemma dict_of_terms : forall l d, NoDup (map fst d ++ keys_of l) ->
  fold_left (fun d_ (it_ : gi * pstr) => let '(c, p) := it_ in gdict_set d_ p c) l d = d ++ map swap l.
Proof.
  induction l as [|[c p] l IH]; intros d H; [cbn; rewrite app_nil_r; reflexivity|].
  cbn [fold_left map keys_of snd] in *. rewrite gdict_set_fresh.
  - rewrite IH; [rewrite <- app_assoc; reflexivity|]. rewrite map_app. cbn [map fst]. rewrite <- app_assoc. exact H.
  - apply NoDup_remove_2 in H. intros Hk. apply H. apply in_or_app. left. exact Hk.
Qed.

Lemma gdict_mem_swap l p : gdict_mem (map swap l) p = match lookup p l with Some _ => true | None => false end.
Proof.
  unfold gdict_mem, lookup. induction l as [|[c q] l IH]; [reflexivity|]. cbn [map swap existsb find fst snd].
  destruct (pstr_eqb p q); [reflexivity|]. exact IH.
Qed.
Lemma gdict_get_swap l p : gdict_get (map swap l) p = match lookup p l with Some c => c | None => g0 end.
Proof.
  unfold lookup. induction l as [|[c q] l IH]; [reflexivity|]. cbn [map swap gdict_get find fst snd].
  destruct (pstr_eqb p q); [reflexivity|]. exact IH.
Qed.
Lemma gi_eqb_sym x y : gi_eqb x y = gi_eqb y x.
Proof. unfold gi_eqb. rewrite (Z.eqb_sym (fst x)), (Z.eqb_sym (snd x)). reflexivity. Qed.

Definition has (l : lin) (t : gi * pstr) : bool := match lookup (snd t) l with Some _ => true | None => false end.
Definition agrees (m : lin) (t : gi * pstr) : bool := match lookup (snd t) m with Some c => gi_eqb c (fst t) | None => false end.
Definition leq_core (l m : lin) : bool := forallb (agrees m) l && forallb (has l) m.
Lemma leq_is_core a b : leq a b = leq_core (simplify a) (simplify b).
Proof. reflexivity. Qed.

Lemma NoDup_map_filter {A B} (f : A -> B) (p : A -> bool) l : NoDup (map f l) -> NoDup (map f (filter p l)).
Proof.
  induction l as [|x l IH]; intros H; [constructor|]. cbn [map filter] in *. inversion H as [|? ? Hn Hd]; subst.
  destruct (p x); cbn [map]; [|apply IH; exact Hd]. constructor; [|apply IH; exact Hd].
  intros Hin. apply Hn. apply in_map_iff in Hin. destruct Hin as [y [<- Hy]]. apply filter_In in Hy. apply in_map. apply Hy.
Qed.
Lemma keys_nonzero d : keys_of (nonzero_terms d) = map fst (filter (fun x => negb (gzero (snd x))) d).
Proof. unfold keys_of, nonzero_terms. rewrite map_map. reflexivity. Qed.
Lemma simplify_keys a : NoDup (keys_of (simplify a)).
Proof.
  unfold simplify. destruct a as [|t a]; [constructor|]. set (A := t :: a).
  assert (N : NoDup (keys_of (nonzero_terms (dict_of A [])))).
  { rewrite keys_nonzero. apply NoDup_map_filter. destruct (dict_of_keys A [] ltac:(constructor)) as [H1 _]. exact H1. }
  destruct (nonzero_terms (dict_of A [])); [repeat constructor; intros []|exact N].
Qed.

Theorem gen_l_eq a b : py_L_eq a b = FRet (leq a b).
Proof.
  unfold py_L_eq. cbv zeta. rewrite !gen_l_simplify. cbn [bindr]. rewrite leq_is_core.
  pose proof (simplify_keys a) as Na. pose proof (simplify_keys b) as Nb.
  generalize dependent (simplify b). generalize dependent (simplify a). clear a b. intros l Nl m Nm.
  rewrite !dict_of_terms by (cbn [map app]; assumption). cbn [app].
  (* the two key tests and the coefficient test, in the model's terms *)
  assert (K1 : forall x y : lin, forallb (fun e => gdict_mem (map swap y) (fst e)) (map swap x) = forallb (has y) x).
  { intros x y. induction x as [|[c p] x IH]; [reflexivity|]. cbn [map swap forallb fst snd]. rewrite IH, gdict_mem_swap. reflexivity. }
  unfold keys_eqb. rewrite !K1.
  assert (AG : forallb (agrees m) l = forallb (has m) l && forallb (fun e => gi_eqb (snd e) (gdict_get (map swap m) (fst e))) (map swap l)).
  { clear. induction l as [|[c p] l IH]; [reflexivity|]. cbn [map swap forallb fst snd]. rewrite IH, gdict_get_swap. unfold agrees, has. cbn [fst snd].
    destruct (lookup p m) as [c'|]; cbn [andb]; [|reflexivity]. rewrite (gi_eqb_sym c c').
    destruct (gi_eqb c' c), (forallb (fun t => match lookup (snd t) m with Some _ => true | None => false end) l); reflexivity. }
  unfold leq_core. rewrite AG.
  destruct (forallb (has m) l) eqn:H1; cbn [andb negb seqo finish]; [|reflexivity].
  destruct (forallb (has l) m) eqn:H2; cbn [andb negb seqo finish]; [|rewrite andb_false_r; reflexivity].
  rewrite andb_true_r.
  match goal with |- context [fold_left ?f (map swap l) _] => set (F := f) end.
  assert (Fr : forall d r, fold_left F d (Ret r) = Ret r).
  { induction d as [|x d IHd]; intros r; [reflexivity|]. cbn [fold_left]. apply IHd. }
  assert (L : forall d l0 m0 sd p0 c0 o0, forallb (fun e => gdict_mem (map swap m) (fst e)) d = true -> exists p1 c1 o1,
     fold_left F d (Next (l0, m0, sd, map swap m, p0, c0, o0)) =
     if forallb (fun e => gi_eqb (snd e) (gdict_get (map swap m) (fst e))) d then Next (l0, m0, sd, map swap m, p1, c1, o1) else Ret false).
  { induction d as [|[p c] d IH]; intros l0 m0 sd p0 c0 o0 Hd; [exists p0, c0, o0; reflexivity|].
    cbn [forallb fst snd] in Hd. apply andb_prop in Hd. destruct Hd as [Hp Hd]. cbn [fold_left forallb fst snd].
    assert (St : F (Next (l0, m0, sd, map swap m, p0, c0, o0)) (p, c) =
                 if gi_eqb c (gdict_get (map swap m) p) then Next (l0, m0, sd, map swap m, p, c, gdict_get (map swap m) p) else Ret false).
    { subst F. cbv beta iota. cbn [seqo uncont]. rewrite Hp. destruct (gi_eqb c (gdict_get (map swap m) p)); reflexivity. }
    rewrite St. destruct (gi_eqb c (gdict_get (map swap m) p)); cbn [andb].
    - apply IH. exact Hd.
    - exists p0, c0, o0. apply Fr. }
  destruct (L (map swap l) l m (map swap l) [] (0, 0) (0, 0)) as [p1 [c1 [o1 E]]]. { rewrite K1. exact H1. }
  set (bb := forallb (fun e => gi_eqb (snd e) (gdict_get (map swap m) (fst e))) (map swap l)) in *. clearbody bb.
  unfold pstr in *. rewrite E. destruct bb; reflexivity.
Qed.

(* ---------- C12 read on the source: what the translated methods return denotes the right matrix ---------- *)
Theorem gen_l_matmul_matrix n a b r c : all_n n a -> all_n n b -> length r = n -> length c = n ->
  exists x, py_L_matmul a b = FRet x /\ denote x r c = mmul n (denote a) (denote b) r c.
Proof. intros Ha Hb Hr Hc. exists (lmatmul a b). split; [apply (gen_l_matmul n); assumption|apply denote_matmul; assumption]. Qed.
Theorem gen_l_add_matrix a b r c : exists x, py_L_add a b = FRet x /\ denote x r c = gadd (denote a r c) (denote b r c).
Proof. exists (ladd a b). split; [apply gen_l_add|apply denote_add]. Qed.
Theorem gen_l_simplify_matrix a r c : exists x, py_L_simplify a = FRet x /\ denote x r c = denote a r c.
Proof. exists (simplify a). split; [apply gen_l_simplify|apply denote_simplify]. Qed.
Theorem gen_l_scale_matrix a s r c : a <> [] -> exists x, py_L_mul a s = FRet x /\ py_L_rmul a s = FRet x /\ denote x r c = gmul s (denote a r c).
Proof. intros Hne. exists (lscale s a). rewrite gen_l_rmul, gen_l_mul. destruct a; [congruence|]. repeat split. apply denote_scale. Qed.
Theorem gen_l_h_matrix a r c : exists x, py_L_h a = FRet x /\ denote x r c = gconj (denote a c r).
Proof. exists (lherm a). split; [apply gen_l_h|apply denote_herm]. Qed.
Theorem gen_l_trace_matrix n a : a <> [] -> all_n n a -> py_L_trace a = FRet (mtrace n (denote a)).
Proof. intros Hne Ha. rewrite gen_l_trace, (trace_spec n a Hne Ha). reflexivity. Qed.
Theorem gen_l_is_zero_iff n a : all_n n a -> (py_L_is_zero a = FRet true <-> meq n (denote a) mzero).
Proof.
  intros Ha. rewrite gen_l_is_zero, <- (zero_iff n a Ha). split; [intros [= H]; exact H|intros ->; reflexivity].
Qed.
Theorem gen_l_eq_iff n a b : a <> [] -> b <> [] -> all_n n a -> all_n n b ->
  (py_L_eq a b = FRet true <-> meq n (denote a) (denote b)).
Proof.
  intros Hna Hnb Ha Hb. rewrite gen_l_eq, <- (leq_iff n a b Hna Hnb Ha Hb). split; [intros [= H]; exact H|intros ->; reflexivity].
Qed.

(* ---------- quadratic symmetries (C16) ---------- *)
From PauLie Require Import Quadratic.
Definition quad_lin (a : lin) (L : pstr) : lin := map (fun t => (gmul (fst t) (phase L (snd t)), snd t ++ smul L (snd t))) a.
Theorem gen_l_quadratic_lin n a L : all_n n a -> length L = n -> py_L_quadratic a L = FRet (quad_lin a L).
Proof.
  intros Ha HL. unfold py_L_quadratic. cbv zeta.
  match goal with |- context [fold_left ?f a _] => set (F := f) end.
  assert (Lp : forall l T c0 s0 ph0 pl0 ts0 nc0, all_n n l -> exists c1 s1 ph1 pl1 ts1 nc1,
     fold_left F l (Next (T, c0, s0, ph0, pl0, ts0, nc0)) = Next (T ++ quad_lin l L, c1, s1, ph1, pl1, ts1, nc1)).
  { induction l as [|[c p] l IH]; intros T c0 s0 ph0 pl0 ts0 nc0 Hl; [exists c0, s0, ph0, pl0, ts0, nc0; cbn; rewrite app_nil_r; reflexivity|].
    cbn [fold_left]. assert (Hp : length p = n) by (apply (Hl (c, p)); left; reflexivity).
    assert (St : F (Next (T, c0, s0, ph0, pl0, ts0, nc0)) (c, p) =
                 Next (T ++ [(gmul c (phase L p), p ++ smul L p)], c, p, phase L p, smul L p, p ++ smul L p, gmul c (phase L p))).
    { subst F. cbv beta iota. cbn [seqo uncont]. rewrite sign_code_ok, multiply_code_ok by congruence. reflexivity. }
    rewrite St. destruct (IH (T ++ [(gmul c (phase L p), p ++ smul L p)]) c p (phase L p) (smul L p) (p ++ smul L p) (gmul c (phase L p))) as [c1 [s1 [ph1 [pl1 [ts1 [nc1 E]]]]]].
    { intros t Ht. apply Hl. right. exact Ht. }
    exists c1, s1, ph1, pl1, ts1, nc1. eapply eq_trans; [exact E|]. unfold quad_lin. cbn [map fst snd]. rewrite <- app_assoc. reflexivity. }
  destruct (Lp a [] (0, 0) [] (0, 0) [] [] (0, 0) Ha) as [c1 [s1 [ph1 [pl1 [ts1 [nc1 E]]]]]].
  unfold pstr in *. rewrite E. reflexivity.
Qed.
(* on a component (coefficient 1 on every member) this is the model's Q_{C,L} *)
Lemma quad_lin_component C L : quad_lin (map (fun s => (g1, s)) C) L = quadratic C L.
Proof.
  unfold quad_lin, quadratic. rewrite map_map. apply map_ext. intros s. cbn [fst snd]. f_equal. unfold gmul, g1. cbn [fst snd]. destruct (phase L s) as [x y]. cbn [fst snd]. f_equal; lia.
Qed.
Theorem gen_l_quadratic n C L : (forall s, In s C -> length s = n) -> length L = n ->
  py_L_quadratic (map (fun s => (g1, s)) C) L = FRet (quadratic C L).
Proof.
  intros HC HL. rewrite (gen_l_quadratic_lin n); [rewrite quad_lin_component; reflexivity| |exact HL].
  intros t Ht. apply in_map_iff in Ht. destruct Ht as [s [<- Hs]]. apply HC. exact Hs.
Qed.
(* get_symmetries_for_component: one Q_{C,L} per linear symmetry, in order *)
Theorem gen_l_symmetries n C Ls : (forall s, In s C -> length s = n) -> (forall L, In L Ls -> length L = n) ->
  py_L_C_get_symmetries_for_component C Ls = FRet (map (quadratic C) Ls).
Proof.
  intros HC HLs. unfold py_L_C_get_symmetries_for_component. cbv zeta.
  match goal with |- context [fold_left ?f Ls _] => set (F := f) end.
  assert (Lp : forall l T L0 q0, (forall L, In L l -> length L = n) -> exists L1 q1,
     fold_left F l (Next (map (fun s => (g1, s)) C, T, L0, q0)) = Next (map (fun s => (g1, s)) C, T ++ map (quadratic C) l, L1, q1)).
  { induction l as [|L l IH]; intros T L0 q0 Hl; [exists L0, q0; cbn; rewrite app_nil_r; reflexivity|].
    cbn [fold_left map].
    assert (St : F (Next (map (fun s => (g1, s)) C, T, L0, q0)) L = Next (map (fun s => (g1, s)) C, T ++ [quadratic C L], L, quadratic C L)).
    { subst F. cbv beta iota. cbn [seqo uncont]. rewrite (gen_l_quadratic n C L HC (Hl L (or_introl eq_refl))). reflexivity. }
    rewrite St. destruct (IH (T ++ [quadratic C L]) L (quadratic C L)) as [L1 [q1 E]]. { intros L' HL'. apply Hl. right. exact HL'. }
    exists L1, q1. eapply eq_trans; [exact E|]. rewrite <- app_assoc. reflexivity. }
  destruct (Lp Ls [] [] [] HLs) as [L1 [q1 E]]. unfold pstr in *. rewrite E. reflexivity.
Qed.

(* ---------- non-vacuity ---------- *)
Example gen_lin_runs :
  py_L_matmul [(g1, [PX]); (g1, [PZ])] [(g1, [PX]); (g1, [PZ])] = FRet [((2, 0), [PI])] /\
  py_L_add [(g1, [PX])] [((-1, 0), [PX])] = FRet [(g0, [PI])] /\
  py_L_simplify [(g1, [PX]); (gI, [PZ]); (g1, [PX])] = FRet [((2, 0), [PX]); (gI, [PZ])] /\
  py_L_trace [(g1, [PI; PI]); ((2, 0), [PI; PI]); (g1, [PX; PI])] = FRet (12, 0) /\
  py_L_is_zero [(g1, [PX]); ((-1, 0), [PX])] = FRet true /\
  py_L_eq [(g1, [PX]); (g1, [PZ])] [(g1, [PZ]); (g1, [PX]); (g0, [PY])] = FRet true /\
  py_L_eq [(g1, [PX])] [(gI, [PX])] = FRet false /\
  py_L_mul [] g1 = FNonInt /\
  py_L_matmul [(g1, [PX])] [(g1, [PX; PI])] = FRaised verr /\
  py_L_h [(gI, [PY])] = FRet [((0, -1), [PY])] /\
  py_L_C_get_symmetries_for_component [[PX]; [PY]] [[PI]; [PZ]] = FRet [[(g1, [PX; PX]); (g1, [PY; PY])]; [(gI, [PX; PY]); ((0, -1), [PY; PX])]].
Proof. vm_compute. repeat split. Qed.

Print Assumptions gen_l_simplify.
Print Assumptions gen_l_add.
Print Assumptions gen_l_h.
Print Assumptions gen_l_mul.
Print Assumptions gen_l_rmul.
Print Assumptions gen_l_trace.
Print Assumptions gen_l_is_zero.
Print Assumptions gen_l_matmul.
Print Assumptions gen_l_eq.
Print Assumptions gen_l_matmul_matrix.
Print Assumptions gen_l_add_matrix.
Print Assumptions gen_l_simplify_matrix.
Print Assumptions gen_l_scale_matrix.
Print Assumptions gen_l_h_matrix.
Print Assumptions gen_l_trace_matrix.
Print Assumptions gen_l_is_zero_iff.
Print Assumptions gen_l_eq_iff.
Print Assumptions gen_l_quadratic_lin.
Print Assumptions gen_l_quadratic.
Print Assumptions gen_l_symmetries.
Print Assumptions gen_lin_runs.
