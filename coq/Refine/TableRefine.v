(* Refine/TableRefine.v — the two-local reference data that tools/py2coq.py generates from
   src/paulie/common/two_local_generators.py: the generator table G_LIE and the algebra table two_local_algebras(n)
   (f-strings over arithmetic in n, `match n % k` statements).  For the six families the table lists as su(2^n) the
   generated entries are tied to Model/Families.v, so that C19_su_families is a statement about the shipped table:
   for EVERY n from the stated bound on, the family's generators translated along the chain generate exactly the
   4^n - 1 non-identity strings, and the table entry is su(2^n), of that dimension. *)
From PauLie Require Import Pauli InvarT Parser ParserT ClosureN Star TwoLocalT ExtendT Families TwoLocalFullT.
From PauLieRefine Require Import PySem.
From PauLieGen Require Import TableGen.
From Coq Require Import Lia.
Open Scope Z_scope.

Fixpoint slookup {A} (k : string) (l : list (string * A)) : option A :=
  match l with [] => None | (k', v) :: t => if String.eqb k' k then Some v else slookup k t end.

(* the generators of the six families, as shipped *)
Theorem gen_families :
  slookup "a12" py_T_G_LIE = Some fam_a12 /\ slookup "a17" py_T_G_LIE = Some fam_a17 /\ slookup "a18" py_T_G_LIE = Some fam_a18 /\
  slookup "a19" py_T_G_LIE = Some fam_a19 /\ slookup "a21" py_T_G_LIE = Some fam_a21 /\ slookup "a22" py_T_G_LIE = Some fam_a22.
Proof. repeat split; reflexivity. Qed.

Definition su_name (n : Z) : fres pystr := FRet [TS "su("; TZ (2 ^ n); TS ")"].
(* their table entries, for every n >= 0 *)
Theorem gen_table_su n : 0 <= n ->
  slookup "a12" (py_T_two_local_algebras n) = Some (su_name n) /\ slookup "a17" (py_T_two_local_algebras n) = Some (su_name n) /\
  slookup "a18" (py_T_two_local_algebras n) = Some (su_name n) /\ slookup "a19" (py_T_two_local_algebras n) = Some (su_name n) /\
  slookup "a21" (py_T_two_local_algebras n) = Some (su_name n) /\ slookup "a22" (py_T_two_local_algebras n) = Some (su_name n).
Proof.
  intros H. assert (G : (0 <=? n) = true) by (apply Z.leb_le; exact H).
  unfold py_T_two_local_algebras, su_name. cbn [slookup String.eqb Ascii.eqb Bool.eqb andb]. rewrite G. repeat split; reflexivity.
Qed.
Lemma dim_su_pow n : dim_su (2 ^ Z.of_nat n) = 4 ^ Z.of_nat n - 1.
Proof. unfold dim_su. rewrite <- Z.pow_mul_l. reflexivity. Qed.

(* C19 for a family listed as su(2^n): from the bound n0 on, and for every n *)
Definition table_right (name : string) (n0 : nat) : Prop :=
  forall n gens out, (n0 <= n)%nat -> slookup name py_T_G_LIE = Some gens -> k_local_generators n gens = Ok out ->
    (forall p, ClL (fun g => In g out) p <-> (length p = n /\ p <> identity n)) /\
    slookup name (py_T_two_local_algebras (Z.of_nat n)) = Some (FRet [TS "su("; TZ (2 ^ Z.of_nat n); TS ")"]) /\
    dim_su (2 ^ Z.of_nat n) = 4 ^ Z.of_nat n - 1.
Lemma table_right_of name n0 fam : slookup name py_T_G_LIE = Some fam ->
  (forall n out, (n0 <= n)%nat -> k_local_generators n fam = Ok out -> forall p, ClL (fun g => In g out) p <-> (length p = n /\ p <> identity n)) ->
  (forall z, 0 <= z -> slookup name (py_T_two_local_algebras z) = Some (su_name z)) -> table_right name n0.
Proof.
  intros HF HS HT m gens out Hm Hg Hk. rewrite HF in Hg. injection Hg as <-. split; [apply (HS m out Hm Hk)|]. split; [apply HT; apply Zle_0_nat|apply dim_su_pow].
Qed.
Theorem gen_table_right :
  table_right "a12" 4 /\ table_right "a17" 4 /\ table_right "a18" 3 /\ table_right "a19" 3 /\ table_right "a21" 3 /\ table_right "a22" 3.
Proof.
  destruct gen_families as [F12 [F17 [F18 [F19 [F21 F22]]]]].
  split; [|split; [|split; [|split; [|split]]]].
  - apply (table_right_of _ _ _ F12 a12_su). intros z Hz. apply (gen_table_su z Hz).
  - apply (table_right_of _ _ _ F17 a17_su). intros z Hz. apply (gen_table_su z Hz).
  - apply (table_right_of _ _ _ F18 a18_su). intros z Hz. apply (gen_table_su z Hz).
  - apply (table_right_of _ _ _ F19 a19_su). intros z Hz. apply (gen_table_su z Hz).
  - apply (table_right_of _ _ _ F21 a21_su). intros z Hz. apply (gen_table_su z Hz).
  - apply (table_right_of _ _ _ F22 a22_su). intros z Hz. apply (gen_table_su z Hz).
Qed.

(* the periodic entries evaluate: a3 has period 8, a5 period 6, a6/a7/a10 period 2 *)
Example gen_table_runs :
  slookup "a3" (py_T_two_local_algebras 8) = Some (FRet [TS "4*so("; TZ 64; TS ")"]) /\
  slookup "a3" (py_T_two_local_algebras 5) = Some (FRet [TS "sp("; TZ 8; TS ")"]) /\
  slookup "a5" (py_T_two_local_algebras 7) = Some (FRet [TS "so("; TZ 64; TS ")"]) /\
  slookup "a10" (py_T_two_local_algebras 4) = Some (FRet [TS "4*su("; TZ 4; TS ")"]) /\
  slookup "b1" (py_T_two_local_algebras 4) = Some (FRet [TZ 7; TS "*u(1)"]) /\
  slookup "a9" (py_T_two_local_algebras 1) = Some FNonInt.
Proof. repeat split; vm_compute; reflexivity. Qed.

Print Assumptions gen_families.
Print Assumptions gen_table_su.
Print Assumptions gen_table_right.
Print Assumptions gen_table_runs.
