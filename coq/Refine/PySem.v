(* Refine/PySem.v — the small semantic kit the translator tools/py2coq.py targets: outcomes of a block of Python statements,
   sequencing, loops as folds, enumerate, f-string tokens, insertion-ordered dictionaries. *)
From Coq Require Export String.
From Coq Require Export ZArith List Bool Ascii.
Export ListNotations.
Open Scope Z_scope.

Inductive exn := EUser (name : String.string) | EZeroDivision | EKey | EType | EIndex.

(* outcome of a block over state S inside a function returning R *)
Inductive outcome (S R : Type) :=
| Next (s : S)        (* fell through *)
| Cont (s : S)        (* continue *)
| Ret (r : R)
| RetNone             (* return None / a tuple of None *)
| Raised (e : exn)
| NonInt              (* a value left the integers (negative exponent): nothing further is claimed *)
| Brk (s : S)         (* break *)
| OutOfFuel.          (* a while loop ran longer than the fuel it was given: nothing is claimed *)
Arguments Next {S R} s. Arguments Cont {S R} s. Arguments Ret {S R} r.
Arguments RetNone {S R}. Arguments Raised {S R} e. Arguments NonInt {S R}. Arguments Brk {S R} s. Arguments OutOfFuel {S R}.

(* result of a call *)
Inductive fres (R : Type) := FRet (r : R) | FNone | FRaised (e : exn) | FNonInt | FOutOfFuel.
Arguments FRet {R} r. Arguments FNone {R}. Arguments FRaised {R} e. Arguments FNonInt {R}. Arguments FOutOfFuel {R}.

Definition seqo {S R} (o : outcome S R) (k : S -> outcome S R) : outcome S R :=
  match o with Next s => k s | other => other end.
Definition uncont {S R} (o : outcome S R) : outcome S R :=
  match o with Cont s => Next s | other => other end.
Definition finish {S R} (o : outcome S R) : fres R :=
  match o with Next _ | Cont _ | Brk _ | RetNone => FNone | Ret r => FRet r | Raised e => FRaised e | NonInt => FNonInt | OutOfFuel => FOutOfFuel end.
(* after a loop: break ends the loop, not the block *)
Definition unloop {S R} (o : outcome S R) : outcome S R :=
  match o with Brk s => Next s | other => other end.
(* a method that mutates self: every exit carries (result, self at that moment); falling through returns None *)
Definition finishM {S V O} (self_of : S -> O) (lost : O) (o : outcome S (fres V * O)) : fres V * O :=
  match o with Next s | Cont s | Brk s => (FNone, self_of s) | Ret r => r | RetNone => (FNone, lost) | Raised e => (FRaised e, lost) | NonInt => (FNonInt, lost) | OutOfFuel => (FOutOfFuel, lost) end.
(* x = f() / a, b = f(): a None result cannot be unpacked or used as a number *)
Definition bindr {S R R'} (c : fres R') (k : R' -> outcome S R) : outcome S R :=
  match c with FRet r => k r | FNone => Raised EType | FRaised e => Raised e | FNonInt => NonInt | FOutOfFuel => OutOfFuel end.

(* return f(): the callee's result is passed on unchanged, None included *)
Definition retcall {S R} (c : fres R) : outcome S R :=
  match c with FRet r => Ret r | FNone => RetNone | FRaised e => Raised e | FNonInt => NonInt | FOutOfFuel => OutOfFuel end.
Fixpoint bits_eqb (a b : list bool) : bool :=
  match a, b with [], [] => true | x :: a', y :: b' => Bool.eqb x y && bits_eqb a' b' | _, _ => false end.

Definition enumerate {A} (l : list A) : list (Z * A) := combine (map Z.of_nat (seq 0 (length l))) l.

(* range(n): 0, 1, ..., n-1 (empty for n <= 0) *)
Definition pyrange (n : Z) : list Z := map Z.of_nat (seq 0 (Z.to_nat n)).

(* while cond: body — on fuel; break leaves the loop, continue goes to the next test *)
Fixpoint while_loop {S R} (fuel : nat) (cond : S -> bool) (body : S -> outcome S R) (s : S) : outcome S R :=
  match fuel with
  | O => OutOfFuel
  | Datatypes.S f => if cond s then match uncont (body s) with Next s' => while_loop f cond body s' | Brk s' => Next s' | other => other end else Next s
  end.

(* a call of a method that may mutate self, from a method that mutates self: the callee's final self becomes ours;
   an exception in the callee leaves with the callee's self.  callMv uses the returned value (None cannot be used) *)
Definition callM {S V W O} (c : fres W * O) (k : option W -> O -> outcome S (fres V * O)) : outcome S (fres V * O) :=
  match c with (FRet w, o) => k (Some w) o | (FNone, o) => k None o | (FRaised e, o) => Ret (FRaised e, o) | (FNonInt, o) => Ret (FNonInt, o) | (FOutOfFuel, o) => Ret (FOutOfFuel, o) end.
Definition callMv {S V W O} (c : fres W * O) (k : W -> O -> outcome S (fres V * O)) : outcome S (fres V * O) :=
  match c with (FRet w, o) => k w o | (FNone, o) => Ret (FRaised EType, o) | (FRaised e, o) => Ret (FRaised e, o) | (FNonInt, o) => Ret (FNonInt, o) | (FOutOfFuel, o) => Ret (FOutOfFuel, o) end.

(* l[j] with Python's negative indices; None = IndexError *)
Definition py_index (len : nat) (j : Z) : option nat :=
  let k := if j <? 0 then j + Z.of_nat len else j in
  if (0 <=? k) && (k <? Z.of_nat len) then Some (Z.to_nat k) else None.
Definition idx_ok {A} (l : list A) (j : Z) : bool := match py_index (length l) j with Some _ => true | None => false end.
Definition list_get {A} (d : A) (l : list A) (j : Z) : A := match py_index (length l) j with Some k => nth k l d | None => d end.
Fixpoint set_nth {A} (l : list A) (k : nat) (v : A) : list A :=
  match l, k with [], _ => [] | _ :: t, O => v :: t | a :: t, S k' => a :: set_nth t k' v end.
Definition list_set {A} (l : list A) (j : Z) (v : A) : list A := match py_index (length l) j with Some k => set_nth l k v | None => l end.

(* Python str as a list of characters: find of a one-character needle, slices with Python's negative-index rule,
   iteration character by character, substring test *)
Fixpoint str_find_from (k : Z) (s : list ascii) (c : ascii) : Z :=
  match s with [] => -1 | a :: t => if Ascii.eqb a c then k else str_find_from (k + 1) t c end.
Definition str_find (s : list ascii) (c : ascii) : Z := str_find_from 0 s c.
Definition clamp {A} (l : list A) (k : Z) : nat :=
  let j := if k <? 0 then Z.max 0 (k + Z.of_nat (length l)) else k in Nat.min (Z.to_nat j) (length l).
Definition slice_from {A} (l : list A) (k : Z) : list A := skipn (clamp l k) l.
Definition slice_to {A} (l : list A) (k : Z) : list A := firstn (clamp l k) l.
Definition slice_range {A} (l : list A) (a b : Z) : list A := firstn (clamp l b - clamp l a) (skipn (clamp l a) l).
(* bitarray comparison: lexicographic, a proper prefix is smaller *)
Fixpoint bits_ltb (a b : list bool) : bool :=
  match a, b with [], [] => false | [], _ :: _ => true | _ :: _, [] => false
  | x :: a', y :: b' => if Bool.eqb x y then bits_ltb a' b' else negb x end.
Definition chars (s : list ascii) : list (list ascii) := map (fun c => [c]) s.
Fixpoint str_eqb (a b : list ascii) : bool :=
  match a, b with [], [] => true | x :: a', y :: b' => Ascii.eqb x y && str_eqb a' b' | _, _ => false end.
Fixpoint prefix_b (a b : list ascii) : bool :=
  match a, b with [], _ => true | x :: a', y :: b' => Ascii.eqb x y && prefix_b a' b' | _ :: _, [] => false end.
Fixpoint substr_b (a b : list ascii) : bool :=
  match b with [] => match a with [] => true | _ => false end | _ :: b' => prefix_b a b || substr_b a b' end.

(* str values built by f-strings: literal pieces and integers *)
Inductive tok := TS (s : String.string) | TZ (z : Z).
Definition pystr := list tok.
Definition tok_eqb (a b : tok) : bool :=
  match a, b with TS x, TS y => String.eqb x y | TZ x, TZ y => Z.eqb x y | _, _ => false end.
Fixpoint pystr_eqb (a b : pystr) : bool :=
  match a, b with [] , [] => true | x :: a', y :: b' => tok_eqb x y && pystr_eqb a' b' | _, _ => false end.

(* dict[str, _] in insertion order *)
Fixpoint dict_get {A} (d : list (pystr * A)) (k : pystr) : option A :=
  match d with [] => None | (k', v) :: t => if pystr_eqb k' k then Some v else dict_get t k end.
Definition dict_mem {A} (d : list (pystr * A)) (k : pystr) : bool := match dict_get d k with Some _ => true | None => false end.
Fixpoint dict_set {A} (d : list (pystr * A)) (k : pystr) (v : A) : list (pystr * A) :=
  match d with [] => [(k, v)] | (k', v') :: t => if pystr_eqb k' k then (k', v) :: t else (k', v') :: dict_set t k v end.

(* a dict with keys of any type that has a boolean equality, in insertion order: d[k] = v *)
Fixpoint kdict_set {K A} (eqb : K -> K -> bool) (d : list (K * A)) (k : K) (v : A) : list (K * A) :=
  match d with [] => [(k, v)] | (k', v') :: t => if eqb k' k then (k', v) :: t else (k', v') :: kdict_set eqb t k v end.
