(* Refine/PSRefine.v — the PauliString methods that tools/py2coq.py generates from src/paulie/common/pauli_string_bitarray.py
   (__len__, __eq__, sign, complex_conj, commutes_with, multiply, adjoint_map, |, ^, @, is_identity, get_index,
   get_diagonal_index, tensor and the in-place edits set_substring and inc), run on the object
   freshly built from a Pauli string, are equal to the code-shaped model in Model/Pauli.v that C04's theorems are about. *)
From PauLie Require Import Pauli PauliBits MatrixT Collection ParserT.
From PauLieRefine Require Import PySem.
From PauLieGen Require Import PSGen.
From Coq Require Import Lia ZifyBool.
Open Scope Z_scope.

Definition verr : exn := EUser "ValueError".
Definition lift {A B} (f : A -> B) (c : res A) : fres B := match c with Ok a => FRet (f a) | ValueError => FRaised verr end.

Lemma len_even p : length (oeven (fresh p)) = length p.
Proof. cbn. rewrite evens_bits. apply map_length. Qed.
Lemma len_odd p : length (oodd (fresh p)) = length p.
Proof. cbn. rewrite odds_bits. apply map_length. Qed.
Lemma len_bits p : length (obits (fresh p)) = (2 * length p)%nat.
Proof. cbn. apply bits_length. Qed.

Theorem gen_len p : py_PS_len (fresh p) = Z.of_nat (length p).
Proof. unfold py_PS_len. rewrite len_bits. rewrite Nat2Z.inj_mul. rewrite Z.mul_comm. apply Z.div_mul. lia. Qed.

Lemma len_test p q : (py_PS_len (fresh p) =? py_PS_len (fresh q)) = Nat.eqb (length p) (length q).
Proof. rewrite !gen_len. destruct (Nat.eqb_spec (length p) (length q)); lia. Qed.

Theorem gen_sign p q : py_PS_sign (fresh p) (fresh q) = lift (fun x => x) (sign_code p q).
Proof.
  unfold py_PS_sign, sign_code. cbv zeta. rewrite len_test. destruct (Nat.eqb_spec (length p) (length q)) as [E|E]; [|reflexivity].
  cbn [negb seqo]. rewrite !len_even, !len_odd. rewrite (proj2 (Nat.eqb_eq _ _) E). cbn [finish lift]. f_equal.
  unfold mi_pow. rewrite Z.mod_mod by lia. reflexivity.
Qed.

Theorem gen_commutes p q : py_PS_commutes_with (fresh p) (fresh q) = lift (fun x => x) (commutes_code p q).
Proof.
  unfold py_PS_commutes_with, commutes_code. cbv zeta. rewrite len_test. destruct (Nat.eqb (length p) (length q)); reflexivity.
Qed.

Definition fmap {A B} (f : A -> B) (c : fres A) : fres B :=
  match c with FRet a => FRet (f a) | FNone => FNone | FRaised e => FRaised e | FNonInt => FNonInt | FOutOfFuel => FOutOfFuel end.

Lemma bits_len_test p q : (Z.of_nat (length (obits (fresh p))) =? Z.of_nat (length (obits (fresh q)))) = Nat.eqb (length (bits p)) (length (bits q)).
Proof. cbn. destruct (Nat.eqb_spec (length (bits p)) (length (bits q))); lia. Qed.

(* multiply returns the object freshly built from the xor of the bits; its text is the model's product *)
Theorem gen_multiply p q : py_PS_multiply (fresh p) (fresh q) =
  lift (fun _ => fresh_bits (bxor (bits p) (bits q))) (multiply_code p q).
Proof.
  unfold py_PS_multiply, multiply_code. cbv zeta. rewrite bits_len_test.
  destruct (Nat.eqb (length (bits p)) (length (bits q))) eqn:E; [|reflexivity].
  cbn [negb seqo]. change (obits (fresh p)) with (bits p). change (obits (fresh q)) with (bits q). rewrite E. reflexivity.
Qed.
Theorem gen_multiply_text p q : fmap text (py_PS_multiply (fresh p) (fresh q)) = lift (fun r => r) (multiply_code p q).
Proof. rewrite gen_multiply. unfold multiply_code. destruct (Nat.eqb (length (bits p)) (length (bits q))); reflexivity. Qed.

(* adjoint_map: None when the strings commute, the product otherwise, ValueError on unequal lengths *)
Theorem gen_adjoint p q : fmap text (py_PS_adjoint_map (fresh p) (fresh q)) =
  match adjoint_code p q with Ok (Some r) => FRet r | Ok None => FNone | ValueError => FRaised verr end.
Proof.
  unfold py_PS_adjoint_map, adjoint_code. cbv zeta. rewrite gen_commutes.
  destruct (commutes_code p q) as [[|]|] eqn:EC; cbn [lift bindr seqo finish fmap]; try reflexivity.
  rewrite bits_len_test. unfold multiply_code.
  destruct (Nat.eqb (length (bits p)) (length (bits q))) eqn:E; [|reflexivity].
  cbn [negb seqo]. change (obits (fresh p)) with (bits p). change (obits (fresh q)) with (bits q). rewrite E. reflexivity.
Qed.

Theorem gen_or p q : py_PS_or (fresh p) (fresh q) = lift (fun x => x) (commutes_code p q).
Proof. unfold py_PS_or. rewrite gen_commutes. destruct (commutes_code p q); reflexivity. Qed.
Theorem gen_matmul p q : fmap text (py_PS_matmul (fresh p) (fresh q)) = lift (fun r => r) (multiply_code p q).
Proof. unfold py_PS_matmul. rewrite <- gen_multiply_text. destruct (py_PS_multiply (fresh p) (fresh q)); reflexivity. Qed.
Theorem gen_xor p q : fmap text (py_PS_xor (fresh p) (fresh q)) =
  match adjoint_code p q with Ok (Some r) => FRet r | Ok None => FNone | ValueError => FRaised verr end.
Proof. unfold py_PS_xor. rewrite <- gen_adjoint. destruct (py_PS_adjoint_map (fresh p) (fresh q)); reflexivity. Qed.

Lemma count_and_nonneg : forall a b, 0 <= count_and a b.
Proof. induction a as [|x a IH]; destruct b as [|y b]; cbn [count_and]; try lia. specialize (IH b). destruct (x && y); lia. Qed.
Lemma m1_pow n : 0 <= n -> (-1) ^ n = if Z.even n then 1 else -1.
Proof.
  intros H. destruct (Z.even n) eqn:E.
  - apply Z.even_spec in E. destruct E as [k ->]. rewrite Z.pow_mul_r by lia. change ((-1) ^ 2) with 1. apply Z.pow_1_l. lia.
  - rewrite <- Z.negb_odd in E. apply negb_false_iff, Z.odd_spec in E. destruct E as [k ->].
    rewrite Z.pow_add_r, Z.pow_mul_r by lia. change ((-1) ^ 2) with 1. rewrite Z.pow_1_l by lia. reflexivity.
Qed.
Theorem gen_conj p : py_PS_complex_conj (fresh p) = FRet (conj_code p, fresh p).
Proof.
  unfold py_PS_complex_conj, conj_code. cbv zeta. change (oodd (fresh p)) with (odds (bits p)). change (oeven (fresh p)) with (evens (bits p)).
  assert (H := count_and_nonneg (odds (bits p)) (evens (bits p))). assert (G : (0 <=? count_and (odds (bits p)) (evens (bits p))) = true) by lia.
  rewrite G. cbn [finish]. rewrite (m1_pow _ H). reflexivity.
Qed.

Lemma bits_eqb_eq : forall a b, bits_eqb a b = true <-> a = b.
Proof.
  induction a as [|x a IH]; destruct b as [|y b]; cbn; try (split; [discriminate|intros H; discriminate H]); [split; reflexivity|].
  rewrite andb_true_iff, eqb_true_iff, IH. split; [intros [-> ->]; reflexivity|intros H; injection H; auto].
Qed.
Lemma bits_inj : forall p q, bits p = bits q -> p = q.
Proof. intros p q H. rewrite <- (of_bits_bits p), <- (of_bits_bits q), H. reflexivity. Qed.
(* == decides equality of the strings *)
Theorem gen_eq p q : exists b, py_PS_eq (fresh p) (fresh q) = FRet b /\ (b = true <-> p = q).
Proof.
  unfold py_PS_eq. cbv zeta. cbn [finish]. eexists. split; [reflexivity|]. change (obits (fresh p)) with (bits p). change (obits (fresh q)) with (bits q).
  rewrite bits_eqb_eq. split; [apply bits_inj|intros ->; reflexivity].
Qed.
Theorem gen_is_identity p : py_PS_is_identity (fresh p) = true <-> p = identity (length p).
Proof.
  unfold py_PS_is_identity. rewrite Nat2Z.id, bits_eqb_eq. change (obits (fresh p)) with (bits p). rewrite bits_length. split.
  - intros H. apply bits_inj. rewrite <- H. clear H. induction p as [|a p IH]; [reflexivity|].
    cbn [length identity repeat bits flat_map]. replace (2 * S (length p))%nat with (S (S (2 * length p))) by lia. cbn [repeat app xb zb]. f_equal. f_equal. exact IH.
  - intros H. rewrite H at 2. clear H. generalize (length p) as n. induction n as [|n IH]; [reflexivity|].
    replace (2 * S n)%nat with (S (S (2 * n))) by lia. cbn [repeat identity bits flat_map app xb zb]. f_equal. f_equal. exact IH.
Qed.

(* ---------- indices ---------- *)
Lemma py_index_nat len k : (k < len)%nat -> py_index len (Z.of_nat k) = Some k.
Proof.
  intros H. unfold py_index. assert (E1 : (Z.of_nat k <? 0) = false) by lia. rewrite E1.
  assert (E2 : ((0 <=? Z.of_nat k) && (Z.of_nat k <? Z.of_nat len)) = true) by lia. rewrite E2, Nat2Z.id. reflexivity.
Qed.
Lemma idx_ok_nat {A} (l : list A) k : (k < length l)%nat -> idx_ok l (Z.of_nat k) = true.
Proof. intros H. unfold idx_ok. rewrite (py_index_nat _ _ H). reflexivity. Qed.
Lemma list_get_nat {A} (d : A) l k : (k < length l)%nat -> list_get d l (Z.of_nat k) = nth k l d.
Proof. intros H. unfold list_get. rewrite (py_index_nat _ _ H). reflexivity. Qed.
Lemma list_set_nat {A} (l : list A) k v : (k < length l)%nat -> list_set l (Z.of_nat k) v = set_nth l k v.
Proof. intros H. unfold list_set. rewrite (py_index_nat _ _ H). reflexivity. Qed.
Lemma set_nth_mid {A} (pre : list A) x suf v : set_nth (pre ++ x :: suf) (length pre) v = pre ++ v :: suf.
Proof. induction pre as [|a pre IH]; cbn; [reflexivity|]. rewrite IH. reflexivity. Qed.
Lemma set_nth_mid' {A} (pre : list A) x suf k v : length pre = k -> set_nth (pre ++ x :: suf) k v = pre ++ v :: suf.
Proof. intros <-. apply set_nth_mid. Qed.
Lemma set_nth_nat : forall l k v, set_nth l k v = set_nat l k v.
Proof. induction l as [|a l IH]; intros [|k] v; cbn; try reflexivity. rewrite IH. reflexivity. Qed.

Theorem gen_get_index o : py_PS_get_index o = get_index o.
Proof. reflexivity. Qed.
Theorem gen_get_diagonal_index o : py_PS_get_diagonal_index o = FRet (get_diagonal_index o).
Proof. unfold py_PS_get_diagonal_index, get_diagonal_index. destruct (ba2int (oeven o) =? 0); reflexivity. Qed.

(* ---------- inc ---------- *)
Theorem gen_inc o : py_PS_inc o = (FRet (inc o), inc o).
Proof.
  unfold py_PS_inc. cbv zeta. match goal with |- context [fold_left ?f _ _] => set (F := f) end.
  assert (Fb : forall l s, fold_left F l (Brk s) = Brk s).
  { induction l as [|x l IHl]; intros s; [reflexivity|]. cbn [fold_left]. change (F (Brk s) x) with (@Brk (obj * Z) (fres obj * obj) s). apply IHl. }
  assert (L : forall pre suf e d i0, exists i1,
     unloop (fold_left F (rev (pyrange (Z.of_nat (length pre)))) (Next ({| obits := pre ++ suf; oeven := e; oodd := d |}, i0))) =
     Next ({| obits := rev (inc_rev (rev pre)) ++ suf; oeven := e; oodd := d |}, i1)).
  { clear - Fb. induction pre as [|x pre IH] using rev_ind; intros suf e d i0.
    - exists i0. reflexivity.
    - unfold pyrange. rewrite Nat2Z.id, app_length. cbn [length]. rewrite Nat.add_1_r, seq_S, map_app, rev_app_distr. cbn [map rev app fold_left plus].
      rewrite <- app_assoc. cbn [app].
      assert (Hlt : (length pre < length (pre ++ x :: suf))%nat) by (rewrite app_length; cbn; lia).
      assert (S : F (Next ({| obits := pre ++ x :: suf; oeven := e; oodd := d |}, i0)) (Z.of_nat (length pre)) =
        if x then Next ({| obits := pre ++ false :: suf; oeven := e; oodd := d |}, Z.of_nat (length pre))
        else Brk ({| obits := pre ++ true :: suf; oeven := e; oodd := d |}, Z.of_nat (length pre))).
      { subst F. cbv beta. cbn [seqo uncont obits]. rewrite (idx_ok_nat _ _ Hlt), (list_get_nat _ _ _ Hlt), nth_middle.
        destruct x; cbn [negb seqo uncont obits]; unfold set_obits; cbn [obits oeven oodd];
          rewrite ?(idx_ok_nat _ _ Hlt), (list_set_nat _ _ _ Hlt), set_nth_mid; reflexivity. }
      rewrite S. clear S. rewrite rev_app_distr. cbn [rev app inc_rev]. destruct x.
      + destruct (IH (false :: suf) e d (Z.of_nat (length pre))) as [i1 E]. exists i1.
        unfold pyrange in E. rewrite Nat2Z.id in E. rewrite E. cbn [rev]. rewrite <- app_assoc. reflexivity.
      + exists (Z.of_nat (length pre)). rewrite Fb. cbn [unloop rev]. rewrite rev_involutive, <- app_assoc. reflexivity. }
  destruct o as [b e d]. cbn [obits]. destruct (L b [] e d 0) as [i1 E]. rewrite app_nil_r in E. rewrite E. clear E.
  cbn [seqo finishM]. unfold set_oeven, set_oodd, inc, fresh_bits, inc_bits. cbn [obits oeven oodd]. rewrite app_nil_r. reflexivity.
Qed.

(* ---------- tensor ---------- *)
Lemma firstn_S_nth {A} (d : A) : forall l k, (k < length l)%nat -> firstn (S k) l = firstn k l ++ [nth k l d].
Proof. induction l as [|a l IH]; intros [|k] H; cbn in *; try lia; [reflexivity|]. rewrite (IH k) by lia. reflexivity. Qed.
Theorem gen_tensor o1 o2 : py_PS_tensor o1 o2 = FRet (fresh_bits (obits o1 ++ obits o2)).
Proof.
  unfold py_PS_tensor. cbv zeta. set (b1 := obits o1). set (b2 := obits o2). set (c := b1 ++ b2).
  assert (Hn : Z.to_nat (Z.of_nat (length b1) + Z.of_nat (length b2)) = length c) by (unfold c; rewrite app_length; lia).
  rewrite Hn, repeat_length. match goal with |- context [fold_left ?f _ _] => set (F := f) end.
  assert (L : forall m k i0 s0 j0, (k + m = length c)%nat -> exists i1 s1 j1,
     fold_left F (map Z.of_nat (seq k m)) (Next (firstn k c ++ repeat false (length c - k), i0, s0, j0)) =
     Next (firstn (k + m) c ++ repeat false (length c - k - m), i1, s1, j1)).
  { induction m as [|m IH]; intros k i0 s0 j0 Hk.
    - exists i0, s0, j0. cbn. rewrite Nat.add_0_r, Nat.sub_0_r. reflexivity.
    - cbn [seq map fold_left].
      assert (Hlen : length (firstn k c ++ repeat false (length c - k)) = length c) by (rewrite app_length, firstn_length, repeat_length; lia).
      assert (St : exists s1 j1, F (Next (firstn k c ++ repeat false (length c - k), i0, s0, j0)) (Z.of_nat k) =
                  Next (firstn (S k) c ++ repeat false (length c - S k), Z.of_nat k, s1, j1)).
      { subst F. cbv beta. cbn [seqo uncont].
        assert (Hget : forall (P : list bool -> Z -> Prop), 
           (P b1 (Z.of_nat k) -> (k < length b1)%nat -> True) -> True) by auto. clear Hget.
        destruct (Z.of_nat k <? Z.of_nat (length b1)) eqn:Eb.
        - assert (Hk1 : (k < length b1)%nat) by lia.
          rewrite (idx_ok_nat b1 k Hk1), (list_get_nat false b1 k Hk1).
          rewrite (idx_ok_nat _ k) by (rewrite Hlen; lia). rewrite (list_set_nat _ k) by (rewrite Hlen; lia).
          exists b1, (Z.of_nat k). do 3 f_equal.
          replace (length c - k)%nat with (S (length c - S k)) by lia. cbn [repeat].
          assert (Hf : length (firstn k c) = k) by (rewrite firstn_length; lia). rewrite (set_nth_mid' _ _ _ k _ Hf).
          rewrite (firstn_S_nth false c k) by lia. rewrite <- app_assoc. cbn [app]. do 2 f_equal. unfold c. rewrite app_nth1 by lia. reflexivity.
        - assert (Hk1 : (length b1 <= k)%nat) by lia.
          replace (Z.of_nat k - Z.of_nat (length b1)) with (Z.of_nat (k - length b1)) by lia.
          assert (Hk2 : (k - length b1 < length b2)%nat) by (unfold c in Hk; rewrite app_length in Hk; lia).
          rewrite (idx_ok_nat b2 _ Hk2), (list_get_nat false b2 _ Hk2).
          rewrite (idx_ok_nat _ k) by (rewrite Hlen; lia). rewrite (list_set_nat _ k) by (rewrite Hlen; lia).
          exists b2, (Z.of_nat (k - length b1)). do 3 f_equal.
          replace (length c - k)%nat with (S (length c - S k)) by lia. cbn [repeat].
          assert (Hf : length (firstn k c) = k) by (rewrite firstn_length; lia). rewrite (set_nth_mid' _ _ _ k _ Hf).
          rewrite (firstn_S_nth false c k) by lia. rewrite <- app_assoc. cbn [app]. do 2 f_equal. unfold c. rewrite app_nth2 by lia. reflexivity. }
      destruct St as [s1 [j1 St]]. rewrite St. destruct (IH (S k) (Z.of_nat k) s1 j1 ltac:(lia)) as [i2 [s2 [j2 E]]].
      exists i2, s2, j2. rewrite E. replace (S k + m)%nat with (k + S m)%nat by lia. replace (length c - S k - m)%nat with (length c - k - S m)%nat by lia. reflexivity. }
  unfold pyrange. rewrite Nat2Z.id. destruct (L (length c) 0%nat 0 [] 0 eq_refl) as [i1 [s1 [j1 E]]].
  change (0 + length c)%nat with (length c) in E. cbn [firstn app] in E. rewrite !Nat.sub_0_r in E. rewrite E. cbn [unloop seqo finish]. rewrite firstn_all, Nat.sub_diag. cbn [repeat]. rewrite app_nil_r. reflexivity.
Qed.
(* on objects built from strings: the tensor product is concatenation *)
Theorem gen_tensor_text p q : fmap text (py_PS_tensor (fresh p) (fresh q)) = FRet (p ++ q).
Proof.
  rewrite gen_tensor. cbn [fmap]. f_equal. unfold text, fresh, fresh_bits. cbn [obits]. 
  replace (bits p ++ bits q) with (bits (p ++ q)) by (unfold bits; apply flat_map_app). apply of_bits_bits.
Qed.

(* ---------- set_substring ---------- *)
Lemma set_idx_spec l j v : set_idx l j v = if idx_ok l j then Some (list_set l j v) else None.
Proof.
  unfold set_idx, idx_ok, list_set. change (PauliBits.py_index (length l) j) with (PySem.py_index (length l) j).
  destruct (PySem.py_index (length l) j); [rewrite set_nth_nat|]; reflexivity.
Qed.
Lemma nth_bits_x : forall p k, (k < length p)%nat -> nth (2 * k) (bits p) false = xb (nth k p PI).
Proof.
  induction p as [|a p IH]; intros k H; [cbn in H; lia|]. destruct k as [|k]; [reflexivity|].
  replace (2 * S k)%nat with (S (S (2 * k))) by lia. change (bits (a :: p)) with (xb a :: zb a :: bits p). cbn [nth]. apply IH. cbn in H. lia.
Qed.
Lemma nth_bits_z : forall p k, (k < length p)%nat -> nth (2 * k + 1) (bits p) false = zb (nth k p PI).
Proof.
  induction p as [|a p IH]; intros k H; [cbn in H; lia|]. destruct k as [|k]; [reflexivity|].
  replace (2 * S k + 1)%nat with (S (S (2 * k + 1))) by lia. change (bits (a :: p)) with (xb a :: zb a :: bits p). cbn [nth]. apply IH. cbn in H. lia.
Qed.

Theorem gen_set_substring o start sub : py_PS_set_substring o start (fresh sub) =
  (if snd (set_substring o start sub) then FNone else FRaised EIndex, fst (set_substring o start sub)).
Proof.
  unfold py_PS_set_substring. cbv zeta. rewrite gen_len. match goal with |- context [fold_left ?f _ _] => set (F := f) end.
  assert (Fr : forall l r, fold_left F l (Ret r) = Ret r).
  { induction l as [|x l IHl]; intros r; [reflexivity|]. cbn [fold_left]. change (F (Ret r) x) with (@Ret (obj * obj * Z) (fres obj * obj) r). apply IHl. }
  assert (St : forall k o i0, (k < length sub)%nat ->
     F (Next (o, fresh sub, i0)) (Z.of_nat k) =
     let (o', ok) := set_letter o (start + Z.of_nat k) (xb (nth k sub PI)) (zb (nth k sub PI)) in
     if ok then Next (o', fresh sub, Z.of_nat k) else Ret (FRaised EIndex, o')).
  { clear Fr. intros k o1 i0 Hk. subst F. cbv beta. cbn [seqo uncont].
    assert (Lb := bits_length sub). assert (Le : length (evens (bits sub)) = length sub) by (rewrite evens_bits; apply map_length).
    assert (Lo : length (odds (bits sub)) = length sub) by (rewrite odds_bits; apply map_length).
    change (obits (fresh sub)) with (bits sub). change (oeven (fresh sub)) with (evens (bits sub)). change (oodd (fresh sub)) with (odds (bits sub)).
    replace (2 * Z.of_nat k) with (Z.of_nat (2 * k)) by lia. replace (Z.of_nat (2 * k) + 1) with (Z.of_nat (2 * k + 1)) by lia.
    rewrite (idx_ok_nat (bits sub) (2 * k)) by lia. rewrite (idx_ok_nat (bits sub) (2 * k + 1)) by lia.
    rewrite (idx_ok_nat (evens (bits sub)) k) by lia. rewrite (idx_ok_nat (odds (bits sub)) k) by lia.
    rewrite (list_get_nat false (bits sub) (2 * k)) by lia. rewrite (list_get_nat false (bits sub) (2 * k + 1)) by lia.
    rewrite (list_get_nat false (evens (bits sub)) k) by lia. rewrite (list_get_nat false (odds (bits sub)) k) by lia.
    rewrite (nth_bits_x sub k Hk), (nth_bits_z sub k Hk). rewrite evens_bits, odds_bits.
    assert (Hx : nth k (map xb sub) false = xb (nth k sub PI)) by exact (map_nth xb sub PI k).
    assert (Hz : nth k (map zb sub) false = zb (nth k sub PI)) by exact (map_nth zb sub PI k). rewrite Hx, Hz. clear Hx Hz.
    set (x := xb (nth k sub PI)). set (z := zb (nth k sub PI)).
    unfold set_letter. rewrite !set_idx_spec.
    replace (2 * start + Z.of_nat (2 * k)) with (2 * (start + Z.of_nat k)) by lia.
    unfold set_obits, set_oeven, set_oodd. cbn [obits oeven oodd].
    repeat (match goal with |- context [idx_ok ?l ?j] => destruct (idx_ok l j) end; cbn [obits oeven oodd uncont]; rewrite ?set_idx_spec; try reflexivity). }
  assert (L : forall m k o i0, (k + m = length sub)%nat -> exists i1,
     fold_left F (map Z.of_nat (seq k m)) (Next (o, fresh sub, i0)) =
     let (o', ok) := set_substring o (start + Z.of_nat k) (skipn k sub) in
     if ok then Next (o', fresh sub, i1) else Ret (FRaised EIndex, o')).
  { induction m as [|m IH]; intros k o1 i0 Hk.
    - exists i0. rewrite skipn_all2 by lia. reflexivity.
    - cbn [seq map fold_left]. rewrite (St k o1 i0) by lia.
      assert (Hs : skipn k sub = nth k sub PI :: skipn (S k) sub).
      { clear - Hk. revert k Hk. induction sub as [|a sub IHs]; intros [|k] Hk; cbn in *; try lia; [reflexivity|]. apply IHs. lia. }
      rewrite Hs. cbn [set_substring].
      destruct (set_letter o1 (start + Z.of_nat k) (xb (nth k sub PI)) (zb (nth k sub PI))) as [o2 ok].
      destruct ok.
      + destruct (IH (S k) o2 (Z.of_nat k) ltac:(lia)) as [i1 E]. exists i1. rewrite E.
        replace (start + Z.of_nat (S k)) with (start + Z.of_nat k + 1) by lia. reflexivity.
      + exists i0. rewrite Fr. reflexivity. }
  unfold pyrange. rewrite Nat2Z.id. destruct (L (length sub) 0%nat o 0 eq_refl) as [i1 E]. rewrite E. clear E.
  cbn [skipn]. replace (start + Z.of_nat 0) with start by lia.
  destruct (set_substring o start sub) as [o' ok]. destruct ok; reflexivity.
Qed.

(* the two in-place edits of the source are the model's apply_edit, so C18_views / C18_observations speak about the
   objects these methods leave behind, partially executed set_substring included *)
Theorem gen_apply_edit o e : apply_edit o e =
  match e with SetSub s sub => snd (py_PS_set_substring o s (fresh sub)) | Inc => snd (py_PS_inc o) end.
Proof. destruct e as [s sub|]; [rewrite gen_set_substring|rewrite gen_inc]; reflexivity. Qed.

(* ---------- copies, concatenation, padding, substrings, order ---------- *)
Theorem gen_copy o : py_PS_copy o = fresh_bits (obits o) /\ py_PS_copy_dunder o = fresh_bits (obits o).
Proof. split; reflexivity. Qed.
Theorem gen_add o1 o2 : py_PS_add o1 o2 = FRet (fresh_bits (obits o1 ++ obits o2)).
Proof. unfold py_PS_add. cbv zeta. rewrite gen_tensor. reflexivity. Qed.
Lemma bits_identity k : bits (identity k) = repeat false (2 * k).
Proof. unfold identity. induction k as [|k IH]; [reflexivity|]. replace (2 * S k)%nat with (S (S (2 * k))) by lia. cbn [repeat bits flat_map app xb zb]. f_equal. f_equal. exact IH. Qed.
Lemma bits_app p q : bits (p ++ q) = bits p ++ bits q.
Proof. unfold bits. apply flat_map_app. Qed.
(* expand(n): the string padded with identities to length n; ValueError when it is longer than n
   (this is the contract Refine/CollRefine.v assumes for p.expand(n)) *)
Theorem gen_expand p n : fmap text (py_PS_expand (fresh p) n) =
  if Z.of_nat (length p) <=? n then FRet (pad (Z.to_nat n) p) else FRaised verr.
Proof.
  unfold py_PS_expand. rewrite gen_len. destruct (Z.leb_spec (Z.of_nat (length p)) n) as [H|H].
  - assert (G : (0 <=? n - Z.of_nat (length p)) = true) by lia. rewrite G. rewrite gen_add. cbn [retcall finish fmap]. f_equal.
    unfold text, fresh, fresh_bits, pad. cbn [obits].
    replace (Z.to_nat (2 * (n - Z.of_nat (length p)))) with (2 * (Z.to_nat n - length p))%nat by lia.
    rewrite <- bits_identity, <- bits_app. apply of_bits_bits.
  - assert (G : (0 <=? n - Z.of_nat (length p)) = false) by lia. rewrite G. reflexivity.
Qed.
(* item assignment is set_substring *)
Theorem gen_setitem o pos sub : py_PS_setitem o pos (fresh sub) =
  (if snd (set_substring o pos sub) then FNone else FRaised EIndex, fst (set_substring o pos sub)).
Proof. unfold py_PS_setitem. rewrite gen_set_substring. destruct (set_substring o pos sub) as [o' ok]. destruct ok; reflexivity. Qed.
Theorem gen_count p : py_PS_get_count_non_trivially (fresh p) = weight_code p.
Proof. reflexivity. Qed.
(* the order of PauliStrings (bitarray order) is the model's pstr_ltb: this is the contract CollRefine assumes for list.sort() *)
Lemma bits_ltb_pstr : forall p q, bits_ltb (bits p) (bits q) = pstr_ltb p q.
Proof.
  induction p as [|a p IH]; destruct q as [|b q]; [reflexivity|destruct b; reflexivity|destruct a; reflexivity|].
  change (bits (a :: p)) with (xb a :: zb a :: bits p). change (bits (b :: q)) with (xb b :: zb b :: bits q).
  cbn [bits_ltb pstr_ltb]. rewrite IH. destruct a, b; reflexivity.
Qed.
Lemma bits_eqb_pstr p q : bits_eqb (bits p) (bits q) = pstr_eqb p q.
Proof.
  destruct (bits_eqb (bits p) (bits q)) eqn:E.
  - apply bits_eqb_eq, bits_inj in E. subst. symmetry. apply pstr_eqb_eq. reflexivity.
  - symmetry. apply not_true_iff_false. intros H. apply pstr_eqb_eq in H. subst. assert (X : bits_eqb (bits q) (bits q) = true) by (apply bits_eqb_eq; reflexivity). congruence.
Qed.
Theorem gen_order p q :
  py_PS_lt (fresh p) (fresh q) = FRet (pstr_ltb p q) /\ py_PS_gt (fresh p) (fresh q) = FRet (pstr_ltb q p) /\
  py_PS_le (fresh p) (fresh q) = FRet (negb (pstr_ltb q p)) /\ py_PS_ge (fresh p) (fresh q) = FRet (negb (pstr_ltb p q)) /\
  py_PS_ne (fresh p) (fresh q) = FRet (negb (pstr_eqb p q)).
Proof.
  unfold py_PS_lt, py_PS_gt, py_PS_le, py_PS_ge, py_PS_ne. cbv zeta. cbn [finish]. change (obits (fresh p)) with (bits p). change (obits (fresh q)) with (bits q).
  rewrite !bits_ltb_pstr, bits_eqb_pstr. repeat split; reflexivity.
Qed.
(* substrings: letters start .. start+length-1 (clamped to the string, as Python slices are) *)
Lemma skipn_bits : forall p s, skipn (2 * s) (bits p) = bits (skipn s p).
Proof.
  induction p as [|a p IH]; intros s; [rewrite !skipn_nil; reflexivity|]. destruct s as [|s]; [reflexivity|].
  replace (2 * S s)%nat with (S (S (2 * s))) by lia. change (bits (a :: p)) with (xb a :: zb a :: bits p). cbn [skipn]. apply IH.
Qed.
Lemma firstn_bits : forall p l, firstn (2 * l) (bits p) = bits (firstn l p).
Proof.
  induction p as [|a p IH]; intros l; [rewrite !firstn_nil; reflexivity|]. destruct l as [|l]; [reflexivity|].
  replace (2 * S l)%nat with (S (S (2 * l))) by lia. change (bits (a :: p)) with (xb a :: zb a :: bits p). cbn [firstn]. change (bits (a :: firstn l p)) with (xb a :: zb a :: bits (firstn l p)). rewrite IH. reflexivity.
Qed.
Theorem gen_get_substring p s l : text (py_PS_get_substring (fresh p) (Z.of_nat s) (Z.of_nat l)) = firstn l (skipn s p) /\
  text (py_PS_getitem (fresh p) (Z.of_nat s)) = firstn 1 (skipn s p).
Proof.
  assert (G : forall l, text (py_PS_get_substring (fresh p) (Z.of_nat s) (Z.of_nat l)) = firstn l (skipn s p)).
  { clear l. intros l. unfold py_PS_get_substring, text, fresh, fresh_bits, slice_range, clamp. cbn [obits]. rewrite bits_length.
    assert (E1 : (2 * Z.of_nat s <? 0) = false) by lia. assert (E2 : (2 * Z.of_nat s + 2 * Z.of_nat l <? 0) = false) by lia. rewrite E1, E2.
    replace (Z.to_nat (2 * Z.of_nat s)) with (2 * s)%nat by lia. replace (Z.to_nat (2 * Z.of_nat s + 2 * Z.of_nat l)) with (2 * (s + l))%nat by lia.
    destruct (le_lt_dec (length p) s) as [Hs|Hs].
    - rewrite (Nat.min_r (2 * s)) by lia. rewrite (Nat.min_r (2 * (s + l))) by lia. rewrite Nat.sub_diag. cbn [firstn of_bits].
      rewrite skipn_all2 by lia. rewrite firstn_nil. reflexivity.
    - rewrite (Nat.min_l (2 * s)) by lia. rewrite skipn_bits.
      assert (Hk : length (skipn s p) = (length p - s)%nat) by apply skipn_length.
      destruct (le_lt_dec (length p) (s + l)) as [Hl|Hl].
      + rewrite (Nat.min_r (2 * (s + l))) by lia. replace (2 * length p - 2 * s)%nat with (2 * (length p - s))%nat by lia. rewrite firstn_bits, of_bits_bits.
        rewrite !firstn_all2 by lia. reflexivity.
      + rewrite (Nat.min_l (2 * (s + l))) by lia. replace (2 * (s + l) - 2 * s)%nat with (2 * l)%nat by lia. rewrite firstn_bits. apply of_bits_bits. }
  split; [apply G|]. unfold py_PS_getitem. apply (G 1%nat).
Qed.

(* non-vacuity: the translated methods run *)
Example gen_ps_runs : py_PS_sign (fresh [PX; PI]) (fresh [PY; PZ]) = FRet (0, 1) /\ py_PS_commutes_with (fresh [PX; PI]) (fresh [PY; PZ]) = FRet false /\
  fmap text (py_PS_xor (fresh [PX; PI]) (fresh [PY; PZ])) = FRet [PZ; PZ] /\ py_PS_xor (fresh [PX; PI]) (fresh [PX; PZ]) = FNone /\
  py_PS_sign (fresh [PX]) (fresh [PY; PZ]) = FRaised verr.
Proof. repeat split; vm_compute; reflexivity. Qed.
Example gen_edits_run : fmap text (fst (py_PS_inc (fresh [PX; PZ]))) = FRet [PX; PX] /\
  (let r := py_PS_set_substring (fresh [PX; PZ; PI]) 2 (fresh [PY; PY]) in fst r = FRaised EIndex /\ obits (snd r) = bits [PX; PZ; PY]) /\
  fmap text (py_PS_tensor (fresh [PX]) (fresh [PZ; PY])) = FRet [PX; PZ; PY] /\ py_PS_get_diagonal_index (fresh [PZ; PI]) = FRet 2.
Proof. repeat split; vm_compute; reflexivity. Qed.

Print Assumptions gen_len.
Print Assumptions gen_sign.
Print Assumptions gen_commutes.
Print Assumptions gen_multiply_text.
Print Assumptions gen_adjoint.
Print Assumptions gen_or.
Print Assumptions gen_matmul.
Print Assumptions gen_xor.
Print Assumptions gen_conj.
Print Assumptions gen_eq.
Print Assumptions gen_is_identity.
Print Assumptions gen_get_index.
Print Assumptions gen_get_diagonal_index.
Print Assumptions gen_inc.
Print Assumptions gen_tensor.
Print Assumptions gen_tensor_text.
Print Assumptions gen_set_substring.
Print Assumptions gen_apply_edit.
Print Assumptions gen_copy.
Print Assumptions gen_add.
Print Assumptions gen_expand.
Print Assumptions gen_setitem.
Print Assumptions gen_count.
Print Assumptions gen_order.
Print Assumptions gen_get_substring.
Print Assumptions gen_ps_runs.
Print Assumptions gen_edits_run.
