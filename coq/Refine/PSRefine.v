(* Refine/PSRefine.v — the PauliString methods that tools/py2coq.py generates from src/paulie/common/pauli_string_bitarray.py
   (__len__, __eq__, sign, complex_conj, commutes_with, multiply, adjoint_map, |, ^, @, is_identity), run on the object
   freshly built from a Pauli string, are equal to the code-shaped model in Model/Pauli.v that C04's theorems are about. *)
From PauLie Require Import Pauli PauliBits MatrixT.
From PauLieRefine Require Import PySem.
From PauLieGen Require Import PSGen.
From Coq Require Import Lia ZifyBool.
Open Scope Z_scope.

Definition verr : exn := EUser "ValueError".
Definition lift {A B} (f : A -> B) (c : res A) : fres B := match c with Ok a => FRet (f a) | ValueError => FRaised verr end.

Lemma len_even p : length (oeven (fresh p)) = length p.
Proof. cbn. rewrite evens_bits. apply map_length. Qed.
Lemma len_odd p : length (oodd (fresh p)) = length p.
Proof. cbn. rewrite odds_bits. apply map_length. Qed.
Lemma len_bits p : length (obits (fresh p)) = (2 * length p)%nat.
Proof. cbn. apply bits_length. Qed.

Theorem gen_len p : py_PS_len (fresh p) = Z.of_nat (length p).
Proof. unfold py_PS_len. rewrite len_bits. rewrite Nat2Z.inj_mul. rewrite Z.mul_comm. apply Z.div_mul. lia. Qed.

Lemma len_test p q : (py_PS_len (fresh p) =? py_PS_len (fresh q)) = Nat.eqb (length p) (length q).
Proof. rewrite !gen_len. destruct (Nat.eqb_spec (length p) (length q)); lia. Qed.

Theorem gen_sign p q : py_PS_sign (fresh p) (fresh q) = lift (fun x => x) (sign_code p q).
Proof.
  unfold py_PS_sign, sign_code. cbv zeta. rewrite len_test. destruct (Nat.eqb_spec (length p) (length q)) as [E|E]; [|reflexivity].
  cbn [negb seqo]. rewrite !len_even, !len_odd. rewrite (proj2 (Nat.eqb_eq _ _) E). cbn [finish lift]. f_equal.
  unfold mi_pow. rewrite Z.mod_mod by lia. reflexivity.
Qed.

Theorem gen_commutes p q : py_PS_commutes_with (fresh p) (fresh q) = lift (fun x => x) (commutes_code p q).
Proof.
  unfold py_PS_commutes_with, commutes_code. cbv zeta. rewrite len_test. destruct (Nat.eqb (length p) (length q)); reflexivity.
Qed.

Definition fmap {A B} (f : A -> B) (c : fres A) : fres B :=
  match c with FRet a => FRet (f a) | FNone => FNone | FRaised e => FRaised e | FNonInt => FNonInt end.

Lemma bits_len_test p q : (Z.of_nat (length (obits (fresh p))) =? Z.of_nat (length (obits (fresh q)))) = Nat.eqb (length (bits p)) (length (bits q)).
Proof. cbn. destruct (Nat.eqb_spec (length (bits p)) (length (bits q))); lia. Qed.

(* multiply returns the object freshly built from the xor of the bits; its text is the model's product *)
Theorem gen_multiply p q : py_PS_multiply (fresh p) (fresh q) =
  lift (fun _ => fresh_bits (bxor (bits p) (bits q))) (multiply_code p q).
Proof.
  unfold py_PS_multiply, multiply_code. cbv zeta. rewrite bits_len_test.
  destruct (Nat.eqb (length (bits p)) (length (bits q))) eqn:E; [|reflexivity].
  cbn [negb seqo]. change (obits (fresh p)) with (bits p). change (obits (fresh q)) with (bits q). rewrite E. reflexivity.
Qed.
Theorem gen_multiply_text p q : fmap text (py_PS_multiply (fresh p) (fresh q)) = lift (fun r => r) (multiply_code p q).
Proof. rewrite gen_multiply. unfold multiply_code. destruct (Nat.eqb (length (bits p)) (length (bits q))); reflexivity. Qed.

(* adjoint_map: None when the strings commute, the product otherwise, ValueError on unequal lengths *)
Theorem gen_adjoint p q : fmap text (py_PS_adjoint_map (fresh p) (fresh q)) =
  match adjoint_code p q with Ok (Some r) => FRet r | Ok None => FNone | ValueError => FRaised verr end.
Proof.
  unfold py_PS_adjoint_map, adjoint_code. cbv zeta. rewrite gen_commutes.
  destruct (commutes_code p q) as [[|]|] eqn:EC; cbn [lift bindr seqo finish fmap]; try reflexivity.
  rewrite bits_len_test. unfold multiply_code.
  destruct (Nat.eqb (length (bits p)) (length (bits q))) eqn:E; [|reflexivity].
  cbn [negb seqo]. change (obits (fresh p)) with (bits p). change (obits (fresh q)) with (bits q). rewrite E. reflexivity.
Qed.

Theorem gen_or p q : py_PS_or (fresh p) (fresh q) = lift (fun x => x) (commutes_code p q).
Proof. unfold py_PS_or. rewrite gen_commutes. destruct (commutes_code p q); reflexivity. Qed.
Theorem gen_matmul p q : fmap text (py_PS_matmul (fresh p) (fresh q)) = lift (fun r => r) (multiply_code p q).
Proof. unfold py_PS_matmul. rewrite <- gen_multiply_text. destruct (py_PS_multiply (fresh p) (fresh q)); reflexivity. Qed.
Theorem gen_xor p q : fmap text (py_PS_xor (fresh p) (fresh q)) =
  match adjoint_code p q with Ok (Some r) => FRet r | Ok None => FNone | ValueError => FRaised verr end.
Proof. unfold py_PS_xor. rewrite <- gen_adjoint. destruct (py_PS_adjoint_map (fresh p) (fresh q)); reflexivity. Qed.

Lemma count_and_nonneg : forall a b, 0 <= count_and a b.
Proof. induction a as [|x a IH]; destruct b as [|y b]; cbn [count_and]; try lia. specialize (IH b). destruct (x && y); lia. Qed.
Lemma m1_pow n : 0 <= n -> (-1) ^ n = if Z.even n then 1 else -1.
Proof.
  intros H. destruct (Z.even n) eqn:E.
  - apply Z.even_spec in E. destruct E as [k ->]. rewrite Z.pow_mul_r by lia. change ((-1) ^ 2) with 1. apply Z.pow_1_l. lia.
  - rewrite <- Z.negb_odd in E. apply negb_false_iff, Z.odd_spec in E. destruct E as [k ->].
    rewrite Z.pow_add_r, Z.pow_mul_r by lia. change ((-1) ^ 2) with 1. rewrite Z.pow_1_l by lia. reflexivity.
Qed.
Theorem gen_conj p : py_PS_complex_conj (fresh p) = FRet (conj_code p, fresh p).
Proof.
  unfold py_PS_complex_conj, conj_code. cbv zeta. change (oodd (fresh p)) with (odds (bits p)). change (oeven (fresh p)) with (evens (bits p)).
  assert (H := count_and_nonneg (odds (bits p)) (evens (bits p))). assert (G : (0 <=? count_and (odds (bits p)) (evens (bits p))) = true) by lia.
  rewrite G. cbn [finish]. rewrite (m1_pow _ H). reflexivity.
Qed.

Lemma bits_eqb_eq : forall a b, bits_eqb a b = true <-> a = b.
Proof.
  induction a as [|x a IH]; destruct b as [|y b]; cbn; try (split; [discriminate|intros H; discriminate H]); [split; reflexivity|].
  rewrite andb_true_iff, eqb_true_iff, IH. split; [intros [-> ->]; reflexivity|intros H; injection H; auto].
Qed.
Lemma bits_inj : forall p q, bits p = bits q -> p = q.
Proof. intros p q H. rewrite <- (of_bits_bits p), <- (of_bits_bits q), H. reflexivity. Qed.
(* == decides equality of the strings *)
Theorem gen_eq p q : exists b, py_PS_eq (fresh p) (fresh q) = FRet b /\ (b = true <-> p = q).
Proof.
  unfold py_PS_eq. cbv zeta. cbn [finish]. eexists. split; [reflexivity|]. change (obits (fresh p)) with (bits p). change (obits (fresh q)) with (bits q).
  rewrite bits_eqb_eq. split; [apply bits_inj|intros ->; reflexivity].
Qed.
Theorem gen_is_identity p : py_PS_is_identity (fresh p) = true <-> p = identity (length p).
Proof.
  unfold py_PS_is_identity. rewrite Nat2Z.id, bits_eqb_eq. change (obits (fresh p)) with (bits p). rewrite bits_length. split.
  - intros H. apply bits_inj. rewrite <- H. clear H. induction p as [|a p IH]; [reflexivity|].
    cbn [length identity repeat bits flat_map]. replace (2 * S (length p))%nat with (S (S (2 * length p))) by lia. cbn [repeat app xb zb]. f_equal. f_equal. exact IH.
  - intros H. rewrite H at 2. clear H. generalize (length p) as n. induction n as [|n IH]; [reflexivity|].
    replace (2 * S n)%nat with (S (S (2 * n))) by lia. cbn [repeat identity bits flat_map app xb zb]. f_equal. f_equal. exact IH.
Qed.

(* non-vacuity: the translated methods run *)
Example gen_ps_runs : py_PS_sign (fresh [PX; PI]) (fresh [PY; PZ]) = FRet (0, 1) /\ py_PS_commutes_with (fresh [PX; PI]) (fresh [PY; PZ]) = FRet false /\
  fmap text (py_PS_xor (fresh [PX; PI]) (fresh [PY; PZ])) = FRet [PZ; PZ] /\ py_PS_xor (fresh [PX; PI]) (fresh [PX; PZ]) = FNone /\
  py_PS_sign (fresh [PX]) (fresh [PY; PZ]) = FRaised verr.
Proof. repeat split; vm_compute; reflexivity. Qed.

Print Assumptions gen_len.
Print Assumptions gen_sign.
Print Assumptions gen_commutes.
Print Assumptions gen_multiply_text.
Print Assumptions gen_adjoint.
Print Assumptions gen_or.
Print Assumptions gen_matmul.
Print Assumptions gen_xor.
Print Assumptions gen_conj.
Print Assumptions gen_eq.
Print Assumptions gen_is_identity.
Print Assumptions gen_ps_runs.
