(* Refine/OptRefine.v — the optimiser that tools/py2coq.py generates from common/pauli_string_collection.py
   (find_generators_with_connection with list_connections, _get_delta, get_anticommutation_pair; PauliString.get_anti_commutants):
   whatever the greedy scores and whatever random.randint returns, the collection it returns is reached from the canonical vertices
   it starts from by contractions  x := x.y  of anticommuting pairs of current members — the moves of Model/Optimise.v, about which
   C20 proves that they preserve the commutator closure and the number of generators. *)
From PauLie Require Import Pauli PauliBits Collection Graph Sym ClSym MatrixT ParserT CollectionT GraphT SymT OtocLoopT CollFactsT Optimise OptimiseT.
From PauLieRefine Require Import PySem.
From PauLieGen Require Import OptGen.
From Coq Require Import Lia ZifyBool.
Open Scope Z_scope.

(* reachability by the optimiser's move *)
Inductive Reach (l0 : list pstr) : list pstr -> Prop :=
| R_start : Reach l0 l0
| R_step l x y : Reach l0 l -> In x l -> In y l -> anti_l x y = true -> Reach l0 (contract_list l x y).

(* invariants of loops over outcomes *)
Definition ok {S R} (I : S -> Prop) (Q : R -> Prop) (o : outcome S R) : Prop :=
  match o with Next s | Cont s | Brk s => I s | Ret r => Q r | _ => True end.
Lemma fold_ok {S R A} (I : S -> Prop) (Q : R -> Prop) (F : outcome S R -> A -> outcome S R) l :
  (forall o a, In a l -> ok I Q o -> ok I Q (F o a)) -> forall o, ok I Q o -> ok I Q (fold_left F l o).
Proof.
  induction l as [|a l IH]; intros HF o Ho; [exact Ho|]. cbn [fold_left]. apply IH.
  - intros o' a' Ha'. apply HF. right. exact Ha'.
  - apply HF; [left; reflexivity|exact Ho].
Qed.
Lemma while_ok {S R} (I : S -> Prop) (Q : R -> Prop) c (b : S -> outcome S R) :
  (forall s, I s -> ok I Q (b s)) -> forall f s, I s -> ok I Q (while_loop f c b s).
Proof.
  intros Hb. induction f as [|f IH]; intros s Hs; [exact Logic.I|]. cbn [while_loop]. destruct (c s); [|exact Hs].
  specialize (Hb s Hs). destruct (b s); cbn [uncont ok] in *; auto.
Qed.

Section Opt.
Variable n : nat.
Variable cv : list pstr.
Definition Good (l : list pstr) : Prop := Reach cv l /\ all_len n l.

Lemma Good_step g x y : Good g -> In x g -> In y g -> anti_l x y = true -> Good (coll_contract (gens (mk g)) x y).
Proof.
  intros [HR HL] Hx Hy Ha. rewrite (mk_keeps n g HL). change (coll_contract g x y) with (contract_list g x y). split.
  - apply R_step; assumption.
  - apply (contract_list_len n); auto.
Qed.

(* what list_connections returns: pairs of members that anticommute *)
Lemma connections_spec g lc : all_len n g -> py_O_C_list_connections g = FRet lc ->
  forall c, In c lc -> In (fst (fst (fst c))) g /\ In (snd (fst (fst c))) g /\ anti_l (fst (fst (fst c))) (snd (fst (fst c))) = true.
Proof.
  intros Hg E c Hc. unfold py_O_C_list_connections in E. destruct (py_O_C_list_connections_ok g); [|discriminate]. injection E as <-.
  unfold py_O_C_list_connections_val in Hc. apply in_map_iff in Hc. destruct Hc as [[x y] [<- Hxy]]. cbn [fst snd].
  apply filter_In in Hxy. destruct Hxy as [Hp Hf]. apply pairs_of_spec in Hp. destruct Hp as [i [j [_ [Hi Hj]]]].
  apply nth_error_In in Hi. apply nth_error_In in Hj. repeat split; try assumption.
  rewrite commutes_code_ok in Hf by (rewrite (Hg x Hi), (Hg y Hj); reflexivity). cbn in Hf. rewrite negb_involutive in Hf. exact Hf.
Qed.
Lemma list_get_In {A} (d : A) l i : idx_ok l i = true -> In (list_get d l i) l.
Proof.
  unfold idx_ok, list_get. destruct (py_index (length l) i) as [k|] eqn:E; [|discriminate]. intros _. apply nth_In.
  unfold py_index in E. destruct ((0 <=? (if i <? 0 then i + Z.of_nat (length l) else i)) && ((if i <? 0 then i + Z.of_nat (length l) else i) <? Z.of_nat (length l))) eqn:B; [|discriminate].
  injection E as <-. lia.
Qed.

Definition ST : Type := (list Z * list pstr * Z * Z * Z * Z * list pstr * list (pstr * pstr * Z * Z) * (pstr * pstr * Z * Z) * list pstr * list pstr * pstr * pstr * Z * Z * list (pstr * pstr * Z * Z) * Z)%type.
Definition gen_of (s : ST) : list pstr := let '(_, g, _, _, _, _, _, _, _, _, _, _, _, _, _, _, _) := s in g.
Definition cur_of (s : ST) : list pstr := let '(_, _, _, _, _, _, c, _, _, _, _, _, _, _, _, _, _) := s in c.
Definition lc_of (s : ST) : list (pstr * pstr * Z * Z) := let '(_, _, _, _, _, _, _, _, _, _, _, _, _, _, _, lc, _) := s in lc.
Definition Q (r : list pstr) : Prop := Good r.
Definition Iout (s : ST) : Prop := Good (gen_of s).
Definition Iin (g : list pstr) (s : ST) : Prop := gen_of s = g /\ Good (cur_of s).
Definition Irnd (g : list pstr) (lc : list (pstr * pstr * Z * Z)) (s : ST) : Prop := gen_of s = g /\ lc_of s = lc /\ Good (cur_of s).

Ltac crush := repeat first
  [ progress cbn [seqo uncont unloop bindr ok]
  | exact Logic.I
  | match goal with |- ok _ _ ?t => match t with context [if ?b then _ else _] => destruct b eqn:? end end
  | match goal with |- ok _ _ ?t => match t with context [bindr ?c _] => destruct c eqn:? end end ].

Theorem gen_o_find fuel self k rand V : all_len n cv ->
  py_O_C_find_generators_with_connection fuel self k cv rand = FRet V -> Reach cv V /\ all_len n V.
Proof.
  intros Hcv. unfold py_O_C_find_generators_with_connection. cbv zeta.
  match goal with |- finish (seqo (while_loop fuel ?c ?b ?st) ?kk) = _ -> _ => set (C := c); set (B := b); set (s0 := st); set (K := kk) end.
  assert (HB : forall s : ST, Iout s -> ok Iout Q (B s)).
  { intros s Hs. destruct s as [[[[[[[[[[[[[[[[r g] mi] i] d] dm] cur] h1] conn] gx] gy] x] y] dx] dy] lc] idx]. unfold Iout in Hs. cbn [gen_of] in Hs.
    subst B. cbv beta iota. crush.
    - (* delta = 0: break *) exact Hs.
    - (* the greedy scan over list_connections, then possibly the random step *)
      match goal with H : py_O_C_list_connections g = FRet ?l |- _ => rename H into Elc; set (L := l) in * end.
      assert (HgL : all_len n g) by apply Hs.
      match goal with |- ok _ _ (seqo (unloop (fold_left ?f L (Next ?st))) ?kk) => set (F := f); set (st0 := st); set (K1 := kk) end.
      assert (HF : ok (Iin g) Q (fold_left F L (Next st0))).
      { apply fold_ok.
        - intros o a Ha Ho. destruct (connections_spec g L HgL Elc a Ha) as [Hx [Hy Hxy]].
          assert (Hyx : anti_l (snd (fst (fst a))) (fst (fst (fst a))) = true) by (rewrite anti_l_sym; exact Hxy).
          destruct o as [s| | | | | | |]; try exact Ho.
          destruct s as [[[[[[[[[[[[[[[[ra ga] mia] ia] da] dma] cura] h1a] conna] gxa] gya] xa] ya] dxa] dya] lca] idxa].
          destruct Ho as [Hg1 Hc1]. cbn [gen_of cur_of] in Hg1, Hc1. subst ga.
          subst F. cbv beta iota. crush; unfold Iin; cbn [gen_of cur_of]; (split; [reflexivity|]); first [exact Hc1|apply Good_step; assumption].
        - subst st0. unfold ok, Iin. cbn [gen_of cur_of]. split; [reflexivity|]. rewrite (mk_keeps n g HgL). exact Hs. }
      assert (Hcont : forall s1, Iin g s1 -> ok Iout Q (K1 s1)).
      { intros s1 HF1.
        destruct s1 as [[[[[[[[[[[[[[[[rb gb] mib] ib] db] dmb] curb] h1b] connb] gxb] gyb] xb] yb] dxb] dyb] lcb] idxb].
        destruct HF1 as [Hg1 Hc1]. cbn [gen_of cur_of] in Hg1, Hc1. subst gb. subst K1. cbv beta iota.
        destruct (db =? dmb); cbn [seqo ok]; [|unfold Iout; cbn [gen_of]; exact Hc1].
        rewrite Elc. cbn [bindr].
        match goal with |- ok _ _ (seqo (seqo (while_loop fuel ?c ?b ?st) ?k1) ?k2) => set (C2 := c); set (B2 := b); set (st2 := st); set (K2 := k1); set (K3 := k2) end.
        assert (HW : ok (Irnd g L) Q (while_loop fuel C2 B2 st2)).
        { apply while_ok.
          - intros s Hs2. destruct s as [[[[[[[[[[[[[[[[rc gc] mic] ic] dc] dmc] curc] h1c] connc] gxc] gyc] xc] yc] dxc] dyc] lcc] idxc].
            destruct Hs2 as [Hg2 [Hl2 Hc2]]. cbn [gen_of cur_of lc_of] in Hg2, Hl2, Hc2. subst gc lcc.
            subst B2. cbv beta iota. destruct rc as [|rr rc]; [exact Logic.I|]. cbv beta iota.
            crush; unfold Irnd; cbn [gen_of cur_of lc_of]; (split; [reflexivity|]); (split; [reflexivity|]);
              first [exact Hc2
                    |match goal with H : idx_ok _ _ = true |- _ => pose proof (list_get_In (@nil pl, @nil pl, 0, 0) _ _ H) as Hin end;
                     destruct (connections_spec g L HgL Elc _ Hin) as [Hx [Hy Hxy]]; apply Good_step; try assumption; rewrite anti_l_sym; exact Hxy].
          - subst st2. unfold Irnd. cbn [gen_of cur_of lc_of]. auto. }
        destruct (while_loop fuel C2 B2 st2) as [s2|s2| | | | |s2|]; cbn [seqo ok] in *; try exact Logic.I; try exact HW;
          destruct s2 as [[[[[[[[[[[[[[[[rd gd] mid] id] dd] dmd] curd] h1d] connd] gxd] gyd] xd] yd] dxd] dyd] lcd] idxd];
          destruct HW as [Hg3 [_ Hc3]]; cbn [gen_of cur_of] in Hg3, Hc3; subst gd; subst K2 K3; cbv beta iota; cbn [seqo ok]; unfold Iout; cbn [gen_of];
          first [exact Hc3|exact Hs].
      }
      destruct (fold_left F L (Next st0)) as [s1|s1| | | | |s1|]; cbn [unloop seqo ok] in *; try exact Logic.I; try exact HF; try (apply Hcont; exact HF).
      destruct s1 as [[[[[[[[[[[[[[[[rb gb] mib] ib] db] dmb] curb] h1b] connb] gxb] gyb] xb] yb] dxb] dyb] lcb] idxb].
      destruct HF as [Hg1 _]. cbn [gen_of] in Hg1. subst gb. unfold Iout. cbn [gen_of]. exact Hs. }
  (* the whole function *)
  assert (HWo : ok Iout Q (while_loop fuel C B s0)).
  { apply while_ok; [exact HB|]. subst s0. unfold Iout. cbn [gen_of]. split; [apply R_start|exact Hcv]. }
  destruct (while_loop fuel C B s0) as [s|s| | | | |s|]; cbn [seqo finish]; try discriminate.
  - destruct s as [[[[[[[[[[[[[[[[rb gb] mib] ib] db] dmb] curb] h1b] connb] gxb] gyb] xb] yb] dxb] dyb] lcb] idxb].
    subst K. cbv beta iota. cbn [finish]. intros [= <-]. exact HWo.
  - intros [= <-]. exact HWo.
Qed.


(* ---------- the moves are those of Model/Optimise.v: closure and size are preserved (C20 read on the source) ---------- *)
Lemma findP_enc x : length x = n -> forall l, all_len n l -> findP (enc x) (map enc l) = Collection.find x l.
Proof.
  intros Hx. induction l as [|a l IH]; intros Hl; [reflexivity|]. apply all_len_cons in Hl. destruct Hl as [Ha Hl].
  cbn [map findP Collection.find]. rewrite (enc_eqb n x a Hx Ha), (IH Hl). reflexivity.
Qed.
Lemma set_nthP_enc v : forall l k, map enc (Collection.set_nth k v l) = set_nthP k (enc v) (map enc l).
Proof. induction l as [|a l IH]; intros [|k]; cbn [Collection.set_nth set_nthP map]; try reflexivity. rewrite IH. reflexivity. Qed.
Lemma memPl_enc x l : In x l -> memPl (enc x) (map enc l) = true.
Proof. intros H. apply memPl_In. apply in_map. exact H. Qed.
Lemma contract_is_model l x y : all_len n l -> In x l -> In y l -> anti_l x y = true ->
  map enc (contract_list l x y) = contract1 (map enc l) (enc x, enc y).
Proof.
  intros Hl Hx Hy Ha. rewrite (contract_list_eq n l x y Hl (Hl x Hx) (Hl y Hy)). unfold contract1.
  rewrite (memPl_enc x l Hx), (memPl_enc y l Hy), (enc_anti x y) by (rewrite (Hl x Hx), (Hl y Hy); reflexivity). rewrite Ha. cbn [andb].
  rewrite (findP_enc x (Hl x Hx) l Hl). destruct (Collection.find x l) as [k|]; [|reflexivity].
  rewrite set_nthP_enc, enc_smul by (rewrite (Hl x Hx), (Hl y Hy); reflexivity). reflexivity.
Qed.
Lemma reach_is_run V : all_len n cv -> Reach cv V -> all_len n V /\ exists choices, map enc V = run_contractions (map enc cv) choices.
Proof.
  intros Hcv HR. induction HR as [|l x y HR IH Hx Hy Ha].
  - split; [exact Hcv|]. exists []. reflexivity.
  - destruct IH as [Hl [ch E]]. split; [apply (contract_list_len n); auto|].
    exists (ch ++ [(enc x, enc y)]). unfold run_contractions in *. rewrite fold_left_app. cbn [fold_left]. rewrite <- E.
    apply contract_is_model; assumption.
Qed.

Theorem gen_o_find_preserves fuel self k rand V : all_len n cv ->
  py_O_C_find_generators_with_connection fuel self k cv rand = FRet V ->
  (forall p, ClS (fun g => In g (map enc cv)) p <-> ClS (fun g => In g (map enc V)) p) /\ length V = length cv /\ all_len n V.
Proof.
  intros Hcv E. destruct (gen_o_find fuel self k rand V Hcv E) as [HR HL].
  destruct (reach_is_run V Hcv HR) as [_ [ch Ech]]. destruct (run_contractions_cl ch (map enc cv)) as [H1 H2].
  rewrite <- Ech in H1, H2. rewrite !map_length in H2. repeat split; try assumption; apply H1.
Qed.
End Opt.

(* ---------- the smaller functions, and non-vacuity ---------- *)
Theorem gen_o_anti_commutants n p G : all_len n G -> length p = n ->
  py_O_PS_get_anti_commutants_in p G = FRet (filter (anti_l p) G).
Proof.
  intros HG Hp. unfold py_O_PS_get_anti_commutants_in, py_O_PS_get_anti_commutants_in_ok, py_O_PS_get_anti_commutants_in_val.
  assert (Gd : forallb (fun g => res_ok (commutes_code p g)) G = true).
  { apply forallb_forall. intros g Hg. rewrite commutes_code_ok by (rewrite Hp; symmetry; apply HG; exact Hg). reflexivity. }
  rewrite Gd. f_equal. apply filter_ext_in. intros g Hg. rewrite commutes_code_ok by (rewrite Hp; symmetry; apply HG; exact Hg). cbn. apply negb_involutive.
Qed.

Example gen_opt_runs :
  py_O_C_list_connections [[PX;PI]; [PZ;PI]; [PI;PX]] = FRet [([PX;PI], [PZ;PI], 1, 1)] /\
  py_O_C_get_delta [] [[PX;PI]; [PZ;PI]; [PI;PX]] 2 = FRet 1 /\
  py_O_C_find_generators_with_connection 10 [] 2 [[PX;PI]; [PZ;PI]; [PI;PX]; [PI;PZ]] [0; 0] = FRet [[PX; PI]; [PZ; PI]; [PI; PX]; [PI; PZ]] /\
  py_O_C_find_generators_with_connection 10 [] 6 [[PX;PX]; [PZ;PI]; [PI;PZ]; [PZ;PZ]] [0; 0; 0] = FRet [[PX; PX]; [PY; PX]; [PI; PZ]; [PZ; PZ]] /\
  py_O_C_find_generators_with_connection 10 [] 2 [[PX;PI]; [PZ]] [] = FRaised (EUser "ValueError").
Proof. vm_compute. repeat split. Qed.

Print Assumptions gen_o_find.
Print Assumptions gen_o_find_preserves.
Print Assumptions gen_o_anti_commutants.
Print Assumptions gen_opt_runs.
