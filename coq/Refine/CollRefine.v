(* Refine/CollRefine.v — the editing methods of PauliStringCollection that tools/py2coq.py generates from
   src/paulie/common/pauli_string_collection.py (__init__, __len__, find, __delitem__, expand, _processing, append, insert,
   remove, replace, contract, sort, get_class) are the transitions of the hand-written state machine Model/Collection.v (step true),
   which the C10 theorems quantify over: every finite history of these methods is a run of the model. *)
From PauLie Require Import Pauli Collection ParserT CollectionT.
From PauLieRefine Require Import PySem.
From PauLieGen Require Import CollGen.
From Coq Require Import Lia ZifyBool.
Open Scope Z_scope.

Definition verr : exn := EUser "ValueError".
(* how an outcome of the model reads as the result of a Python call *)
Definition res_of {V} (o : out) : fres V := match o with Done => FNone | IndexError => FRaised EIndex | ValueErr => FRaised verr | Answer _ => FNone end.

Lemma pstr_eqb_sym p q : pstr_eqb p q = pstr_eqb q p.
Proof.
  destruct (pstr_eqb p q) eqn:E.
  - apply pstr_eqb_eq in E. subst. symmetry. apply pstr_eqb_eq. reflexivity.
  - destruct (pstr_eqb q p) eqn:E'; [|reflexivity]. apply pstr_eqb_eq in E'. subst. rewrite (proj2 (pstr_eqb_eq p p) eq_refl) in E. discriminate.
Qed.

Theorem gen_c_len s : py_C_len s = Z.of_nat (length (gens s)).
Proof. reflexivity. Qed.

Theorem gen_c_find s p : py_C_find s p = FRet (match Collection.find p (gens s) with Some k => Z.of_nat k | None => -1 end).
Proof.
  unfold py_C_find, enumerate. cbv zeta. match goal with |- context [fold_left ?f _ _] => set (F := f) end.
  assert (Fr : forall l r, fold_left F l (Ret r) = Ret r).
  { induction l as [|x l IHl]; intros r; [reflexivity|]. cbn [fold_left]. change (F (Ret r) x) with (@Ret (Z * pstr) Z r). apply IHl. }
  assert (L : forall l k i0 p0, exists i1 p1, fold_left F (combine (map Z.of_nat (seq k (length l))) l) (Next (i0, p0)) =
     match Collection.find p l with Some j => Ret (Z.of_nat (k + j)) | None => Next (i1, p1) end).
  { induction l as [|a l IH]; intros k i0 p0; [exists i0, p0; reflexivity|].
    cbn [length seq map combine fold_left Collection.find].
    assert (St : F (Next (i0, p0)) (Z.of_nat k, a) = if pstr_eqb p a then Ret (Z.of_nat k) else Next (Z.of_nat k, a)).
    { subst F. cbv beta. cbn [seqo uncont]. rewrite (pstr_eqb_sym a p). destruct (pstr_eqb p a); reflexivity. }
    rewrite St. destruct (pstr_eqb p a).
    - exists i0, p0. rewrite Fr, Nat.add_0_r. reflexivity.
    - destruct (IH (S k) (Z.of_nat k) a) as [i1 [p1 E]]. exists i1, p1. rewrite E. destruct (Collection.find p l) as [j|]; cbn [option_map]; [|reflexivity].
      replace (S k + j)%nat with (k + S j)%nat by lia. reflexivity. }
  destruct (L (gens s) 0%nat 0 []) as [i1 [p1 E]]. rewrite E. destruct (Collection.find p (gens s)); reflexivity.
Qed.

Theorem gen_c_delitem s i : py_C_delitem s i = (res_of (snd (step true s (DelItem i))), fst (step true s (DelItem i))).
Proof. unfold py_C_delitem. cbn [step]. unfold set_cache. cbn [gens cache]. destruct (norm_index (length (gens s)) i); reflexivity. Qed.

Theorem gen_c_expand s n : 0 <= n -> py_C_expand s n = (res_of (snd (step true s (Expand (Z.to_nat n)))), fst (step true s (Expand (Z.to_nat n)))).
Proof.
  intros Hn. unfold py_C_expand. cbv zeta. cbn [step]. unfold expand_to, set_cache. cbn [gens cache].
  match goal with |- context [fold_left ?f _ _] => set (F := f) end. set (s0 := {| gens := gens s; cache := None |}).
  assert (Fr : forall l r, fold_left F l (Ret r) = Ret r).
  { induction l as [|x l IHl]; intros r; [reflexivity|]. cbn [fold_left]. change (F (Ret r) x) with (@Ret (coll * list pstr * pstr) (fres coll * coll) r). apply IHl. }
  assert (L : forall l acc g0, exists g1, fold_left F l (Next (s0, acc, g0)) =
     if forallb (fun g => Nat.leb (length g) (Z.to_nat n)) l then Next (s0, acc ++ map (pad (Z.to_nat n)) l, g1) else Ret (FRaised verr, s0)).
  { induction l as [|a l IH]; intros acc g0; [exists g0; cbn; rewrite app_nil_r; reflexivity|].
    cbn [fold_left forallb map].
    assert (St : F (Next (s0, acc, g0)) a = if Nat.leb (length a) (Z.to_nat n) then Next (s0, acc ++ [pad (Z.to_nat n) a], a) else Ret (FRaised verr, s0)).
    { subst F. cbv beta. cbn [seqo uncont]. destruct (Nat.leb_spec (length a) (Z.to_nat n)) as [H|H].
      - assert (G : (Z.of_nat (length a) <=? n) = true) by lia. rewrite G. reflexivity.
      - assert (G : (Z.of_nat (length a) <=? n) = false) by lia. rewrite G. reflexivity. }
    rewrite St. destruct (Nat.leb (length a) (Z.to_nat n)); cbn [andb].
    - destruct (IH (acc ++ [pad (Z.to_nat n) a]) a) as [g1 E]. exists g1. rewrite E. rewrite <- app_assoc. reflexivity.
    - exists g0. apply Fr. }
  destruct (L (gens s) [] []) as [g1 E].
  match goal with |- context [fold_left F ?l ?st] => change (fold_left F l st) with (fold_left F (gens s) (Next (s0, [], []))) end.
  rewrite E. match goal with |- context [forallb ?f (gens s)] => destruct (forallb f (gens s)) end; reflexivity.
Qed.

Lemma forallb_le_maxlen l n : (maxlen l <= n)%nat -> forallb (fun g => Nat.leb (length g) n) l = true.
Proof. intros H. apply forallb_forall. intros g Hg. apply Nat.leb_le. assert (Hm := maxlen_ge l g Hg). lia. Qed.

(* _processing, called (as every caller does) with the cached classification already dropped *)
Theorem gen_c_processing s p : cache s = None ->
  py_C_processing s p = (FRet (snd (processing true (gens s) p)), {| gens := fst (processing true (gens s) p); cache := None |}).
Proof.
  intros Hc. unfold py_C_processing. cbv zeta. destruct s as [l c]. cbn [gens cache] in *. subst c. unfold processing.
  destruct l as [|a l]; [reflexivity|]. set (L := a :: l).
  assert (E0 : (Z.of_nat (length L) =? 0) = false) by (unfold L; cbn [length]; lia). rewrite E0. cbn [seqo gens cache].
  destruct (Nat.ltb_spec (length p) (maxlen L)) as [H1|H1].
  - assert (G1 : (Z.of_nat (length p) <? Z.of_nat (maxlen L)) = true) by lia. assert (G2 : (Z.of_nat (length p) <=? Z.of_nat (maxlen L)) = true) by lia.
    rewrite G1, G2. cbn [seqo finishM fst snd]. rewrite Nat2Z.id. reflexivity.
  - assert (G1 : (Z.of_nat (length p) <? Z.of_nat (maxlen L)) = false) by lia. rewrite G1.
    destruct (Nat.ltb_spec (maxlen L) (length p)) as [H2|H2].
    + assert (G2 : (Z.of_nat (length p) >? Z.of_nat (maxlen L)) = true) by lia. rewrite G2.
      rewrite gen_c_expand by lia. cbn [step gens cache]. rewrite Nat2Z.id. unfold expand_to. rewrite (forallb_le_maxlen L (length p)) by lia.
      cbn [snd fst res_of callM seqo finishM gens cache]. reflexivity.
    + assert (G2 : (Z.of_nat (length p) >? Z.of_nat (maxlen L)) = false) by lia. rewrite G2. reflexivity.
Qed.

Definition cleared (s : coll) : coll := {| gens := gens s; cache := None |}.

Theorem gen_c_append s p : py_C_append s p = (FNone, fst (step true s (Append p))).
Proof.
  unfold py_C_append. cbv zeta. change (set_cache s None) with (cleared s). rewrite (gen_c_processing (cleared s) p eq_refl). cbn [callMv step gens cleared].
  destruct (processing true (gens s) p) as [l p'] eqn:E. cbn [fst snd gens cache]. unfold set_gens. cbn [gens cache].
  destruct (memS p' l); reflexivity.
Qed.

Theorem gen_c_insert s i p : py_C_insert s i p = (FNone, fst (step true s (Insert i p))).
Proof.
  unfold py_C_insert. cbv zeta. change (set_cache s None) with (cleared s). rewrite (gen_c_processing (cleared s) p eq_refl). cbn [callMv step gens cleared].
  destruct (processing true (gens s) p) as [l p'] eqn:E. cbn [fst snd gens cache]. unfold set_gens. cbn [gens cache].
  destruct (memS p' l); reflexivity.
Qed.

Lemma remove1_absent p l : memS p l = false -> remove1 p l = l.
Proof.
  induction l as [|a l IH]; [reflexivity|]. unfold memS. cbn [existsb remove1]. destruct (pstr_eqb p a); [discriminate|]. cbn [orb]. intros H. rewrite (IH H). reflexivity.
Qed.
Theorem gen_c_remove s p : py_C_remove s p = (FNone, fst (step true s (Remove p))).
Proof.
  unfold py_C_remove. cbv zeta. cbn [step fst]. unfold set_cache, set_gens. cbn [gens cache].
  destruct (memS p (gens s)) eqn:E; cbn [seqo finishM]; [reflexivity|]. rewrite (remove1_absent _ _ E). reflexivity.
Qed.

Theorem gen_c_get_class s : py_C_get_class s =
  (match snd (step true s Query) with Answer c => FRet (Some c) | _ => FNone end, fst (step true s Query)).
Proof. unfold py_C_get_class. cbn [step]. destruct s as [l [c|]]; reflexivity. Qed.

Lemma find_lt p : forall l k, Collection.find p l = Some k -> (k < length l)%nat.
Proof.
  induction l as [|a l IH]; intros k H; [discriminate|]. cbn [Collection.find] in H. destruct (pstr_eqb p a); [injection H as <-; cbn; lia|].
  destruct (Collection.find p l) as [j|]; [|discriminate]. cbn in H. injection H as <-. specialize (IH j eq_refl). cbn. lia.
Qed.
Lemma processing_length l q : length (fst (processing true l q)) = length l.
Proof.
  unfold processing. destruct l as [|a l]; [reflexivity|]. destruct (Nat.ltb (length q) (maxlen (a :: l))); [reflexivity|].
  destruct (Nat.ltb (maxlen (a :: l)) (length q)); [|reflexivity]. unfold expand_to. match goal with |- context [forallb ?f (a :: l)] => destruct (forallb f (a :: l)) end; [|reflexivity]. cbn [fst]. apply map_length.
Qed.
Lemma set_nth_bridge : forall (l : list pstr) k x, PySem.set_nth l k x = Collection.set_nth k x l.
Proof. induction l as [|a l IH]; intros [|k] x; cbn; try reflexivity. rewrite IH. reflexivity. Qed.
Lemma idx_ok_nat {A} (l : list A) k : (k < length l)%nat -> idx_ok l (Z.of_nat k) = true.
Proof.
  intros H. unfold idx_ok, py_index. assert (E1 : (Z.of_nat k <? 0) = false) by lia. rewrite E1.
  assert (E2 : ((0 <=? Z.of_nat k) && (Z.of_nat k <? Z.of_nat (length l))) = true) by lia. rewrite E2. reflexivity.
Qed.
Lemma list_set_nat {A} (l : list A) k v : (k < length l)%nat -> list_set l (Z.of_nat k) v = PySem.set_nth l k v.
Proof.
  intros H. unfold list_set, py_index. assert (E1 : (Z.of_nat k <? 0) = false) by lia. rewrite E1.
  assert (E2 : ((0 <=? Z.of_nat k) && (Z.of_nat k <? Z.of_nat (length l))) = true) by lia. rewrite E2, Nat2Z.id. reflexivity.
Qed.

Theorem gen_c_replace s p q : py_C_replace s p q = (FNone, fst (step true s (Replace p q))).
Proof.
  unfold py_C_replace. cbv zeta. rewrite gen_c_find. cbn [callMv step]. destruct (Collection.find p (gens s)) as [k|] eqn:Ef.
  - assert (G : negb (Z.of_nat k =? -1) = true) by lia. rewrite G. cbn [seqo]. change (set_cache s None) with (cleared s).
    rewrite (gen_c_processing (cleared s) q eq_refl). cbn [callMv gens cleared cache].
    assert (Hk : (k < length (fst (processing true (gens s) q)))%nat) by (rewrite processing_length; apply (find_lt p); exact Ef).
    destruct (processing true (gens s) q) as [l q'] eqn:E. cbn [fst snd] in *.
    rewrite (idx_ok_nat l k Hk), (list_set_nat l k q' Hk), set_nth_bridge. unfold set_gens. cbn [gens cache]. reflexivity.
  - reflexivity.
Qed.

(* contract = replace by the letterwise product, ValueError on unequal lengths before anything is touched *)
Theorem gen_c_contract s p q : py_C_contract s p q = (res_of (snd (step true s (Contract p q))), fst (step true s (Contract p q))).
Proof.
  unfold py_C_contract. cbn [step]. destruct (Nat.eqb (length p) (length q)); [|reflexivity]. rewrite gen_c_replace. cbn [step callM].
  destruct (Collection.find p (gens s)); [destruct (processing true (gens s) (smul p q))|]; reflexivity.
Qed.

Theorem gen_c_sort s : py_C_sort s = (FRet (fst (step true s Sort)), fst (step true s Sort)).
Proof. reflexivity. Qed.

(* the constructor: whatever the object held, it now holds the given strings, the shorter ones padded to the longest *)
Lemma pad_same n p : length p = n -> pad n p = p.
Proof. intros <-. unfold pad. rewrite Nat.sub_diag. cbn. apply app_nil_r. Qed.
Theorem gen_c_init s0 l : py_C_init s0 l = (FNone, mk l).
Proof.
  unfold py_C_init, mk. cbv zeta. unfold set_gens, set_cache. cbn [gens cache]. destruct l as [|a l]; [reflexivity|]. set (L := a :: l).
  cbn [negb seqo]. match goal with |- context [fold_left ?f _ _] => set (F := f) end.
  assert (Hloop : forall t acc g0, (forall g, In g t -> (length g <= maxlen L)%nat) -> exists g1,
     fold_left F t (Next ({| gens := acc; cache := None |}, Z.of_nat (maxlen L), g0)) =
     Next ({| gens := acc ++ map (pad (maxlen L)) t; cache := None |}, Z.of_nat (maxlen L), g1)).
  { induction t as [|x t IH]; intros acc g0 Hle; [exists g0; cbn; rewrite app_nil_r; reflexivity|].
    cbn [fold_left map].
    assert (St : F (Next ({| gens := acc; cache := None |}, Z.of_nat (maxlen L), g0)) x =
                 Next ({| gens := acc ++ [pad (maxlen L) x]; cache := None |}, Z.of_nat (maxlen L), pad (maxlen L) x)).
    { subst F. cbv beta. cbn [seqo uncont]. assert (Hx := Hle x (or_introl eq_refl)).
      destruct (Z.of_nat (length x) <? Z.of_nat (maxlen L)) eqn:E.
      - assert (G : (Z.of_nat (length x) <=? Z.of_nat (maxlen L)) = true) by lia. rewrite G. cbn [seqo uncont gens cache]. rewrite Nat2Z.id. reflexivity.
      - cbn [seqo uncont gens cache]. rewrite (pad_same (maxlen L) x) by lia. reflexivity. }
    rewrite St. destruct (IH (acc ++ [pad (maxlen L) x]) (pad (maxlen L) x) (fun g Hg => Hle g (or_intror Hg))) as [g1 E]. exists g1. rewrite E, <- app_assoc. reflexivity. }
  destruct (Hloop L [] [] (fun g Hg => maxlen_ge L g Hg)) as [g1 E]. rewrite E. reflexivity.
Qed.

(* ---------- histories ---------- *)
(* one public edit or query of the source, as a transition on the state *)
Definition py_step (s : coll) (o : op) : coll :=
  match o with
  | Append p => snd (py_C_append s p) | Insert i p => snd (py_C_insert s i p) | Remove p => snd (py_C_remove s p)
  | DelItem i => snd (py_C_delitem s i) | Replace p q => snd (py_C_replace s p q) | Contract p q => snd (py_C_contract s p q)
  | Expand n => snd (py_C_expand s (Z.of_nat n)) | Query => snd (py_C_get_class s) | Sort => snd (py_C_sort s)
  end.
Theorem gen_step s o : py_step s o = fst (step true s o).
Proof.
  destruct o as [p|i p|p|i|p q|p q|n| |]; unfold py_step.
  - rewrite gen_c_append. reflexivity.
  - rewrite gen_c_insert. reflexivity.
  - rewrite gen_c_remove. reflexivity.
  - rewrite gen_c_delitem. reflexivity.
  - rewrite gen_c_replace. reflexivity.
  - rewrite gen_c_contract. reflexivity.
  - rewrite gen_c_expand by lia. rewrite Nat2Z.id. reflexivity.
  - reflexivity.
  - rewrite gen_c_get_class. reflexivity.
Qed.
Lemma fst_run : forall ops s outs, fst (fold_left (fun acc o => let (s', r) := step true (fst acc) o in (s', snd acc ++ [r])) ops (s, outs)) =
  fold_left (fun s o => fst (step true s o)) ops s.
Proof. induction ops as [|o ops IH]; intros s outs; [reflexivity|]. cbn [fold_left fst snd]. destruct (step true s o) as [s' r] eqn:E. rewrite IH. cbn [fst]. reflexivity. Qed.
(* every finite history of the source's edits and queries, from any constructed collection, is the run of the model *)
Theorem gen_history : forall ops s, fold_left py_step ops s = fst (run true s ops).
Proof.
  intros ops s. unfold run. rewrite fst_run. revert s. induction ops as [|o ops IH]; intros s; [reflexivity|].
  cbn [fold_left]. rewrite (gen_step s o). apply IH.
Qed.
(* C10 read on the source: after any history, all strings have one length, and what get_class answers was computed from
   a permutation of the strings held now *)
(* from the constructor on: PauliStringCollection(l) followed by any history is the model's run from mk l *)
Theorem gen_history_from_constructor ops s0 l : fold_left py_step ops (snd (py_C_init s0 l)) = fst (run true (mk l) ops).
Proof. rewrite gen_c_init. apply gen_history. Qed.
Theorem gen_uniform_after_history ops l : uniform (gens (fold_left py_step ops (mk l))).
Proof.
  assert (H : forall ops s, uniform (gens s) -> uniform (gens (fold_left py_step ops s))).
  { induction ops0 as [|o ops0 IH]; intros s Hu; [exact Hu|]. cbn [fold_left]. apply IH. rewrite (gen_step s o). apply uniform_step. exact Hu. }
  apply H. apply uniform_mk.
Qed.
Theorem gen_answer_fresh ops l c : let s := fold_left py_step ops (mk l) in
  fst (py_C_get_class s) = FRet (Some c) -> Permutation.Permutation c (gens s).
Proof.
  cbv zeta. set (s := fold_left py_step ops (mk l)). intros H.
  assert (HI : forall ops s0, Inv s0 -> Inv (fold_left py_step ops s0)).
  { induction ops0 as [|o ops0 IH]; intros s0 Hi; [exact Hi|]. cbn [fold_left]. rewrite (gen_step s0 o). apply IH. apply inv_step. exact Hi. }
  assert (Hs : Inv s) by (apply HI; apply inv_mk).
  rewrite gen_c_get_class in H. cbn [fst] in H. destruct (snd (step true s Query)) as [| | |c'] eqn:E; try discriminate. injection H as <-.
  apply (answer_step s Query c' Hs E).
Qed.

(* non-vacuity: the translated methods run, including the padding of a shorter string, the expansion of the collection by a longer one,
   the duplicate that is not added, IndexError of del and the cache *)
Example gen_coll_runs :
  gens (fold_left py_step [Append [PX]; Append [PZ; PZ; PI]; Append [PX; PI; PI]; Insert (-1) [PY; PY; PY]; Query; Contract [PX; PI; PI] [PZ; PZ; PI]] (mk [[PX; PY]]))
    = [[PX; PY; PI]; [PY; PZ; PI]; [PY; PY; PY]; [PZ; PZ; PI]] /\
  fst (py_C_delitem (mk [[PX]]) 3) = FRaised EIndex /\ fst (py_C_contract (mk [[PX]]) [PX] [PZ; PZ]) = FRaised verr /\
  fst (py_C_get_class (snd (py_C_get_class (mk [[PX]; [PZ]])))) = FRet (Some [[PX]; [PZ]]).
Proof. repeat split; vm_compute; reflexivity. Qed.

Print Assumptions gen_c_find.
Print Assumptions gen_c_delitem.
Print Assumptions gen_c_expand.
Print Assumptions gen_c_processing.
Print Assumptions gen_c_append.
Print Assumptions gen_c_insert.
Print Assumptions gen_c_remove.
Print Assumptions gen_c_get_class.
Print Assumptions gen_c_replace.
Print Assumptions gen_c_contract.
Print Assumptions gen_c_sort.
Print Assumptions gen_c_init.
Print Assumptions gen_history_from_constructor.
Print Assumptions gen_step.
Print Assumptions gen_history.
Print Assumptions gen_uniform_after_history.
Print Assumptions gen_answer_fresh.
Print Assumptions gen_coll_runs.
