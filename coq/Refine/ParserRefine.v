(* Refine/ParserRefine.v — the text parser that tools/py2coq.py generates from src/paulie/common/pauli_string_parser.py
   (_is_token, _is_number, _to_int, pauli_string_parser — two nested while loops over character indices) is equal to the
   hand-written Model/Parser.v (structural recursion over the remaining text), which the C17 theorems are about. *)
From PauLie Require Import Pauli Parser ParserT.
From PauLieRefine Require Import PySem.
From PauLieGen Require Import ParserGen.
From Coq Require Import Lia ZifyBool.
Open Scope Z_scope.

Definition verr : exn := EUser "ValueError".

(* ---------- characters ---------- *)
Lemma in_digits_char c : in_DIGITS [c] = is_digit c.
Proof. destruct c as [[|] [|] [|] [|] [|] [|] [|] [|]]; vm_compute; reflexivity. Qed.
Theorem gen_is_token c : py_P_is_token [c] = is_token c.
Proof. reflexivity. Qed.
Theorem gen_is_number c : py_P_is_number [c] = match is_number true c with Some b => FRet b | None => FRaised verr end.
Proof.
  unfold py_P_is_number, is_number. rewrite in_digits_char. destruct (is_digit c); [reflexivity|]. cbn [seqo in_TOKENS].
  destruct (is_token c); reflexivity.
Qed.

(* ---------- numbers ---------- *)
Lemma exists_nondigit ds : existsb (fun x => negb (in_DIGITS x)) (chars ds) = negb (forallb is_digit ds).
Proof. induction ds as [|c ds IH]; [reflexivity|]. cbn [chars map existsb forallb]. fold (chars ds). rewrite IH, in_digits_char. destruct (is_digit c); reflexivity. Qed.
Lemma digits_val_some : forall ds acc, forallb is_digit ds = true -> exists n, digits_val acc ds = Some n.
Proof.
  induction ds as [|c ds IH]; intros acc H; [exists acc; reflexivity|]. cbn [forallb] in H. apply andb_true_iff in H. destruct H as [H1 H2].
  cbn [digits_val]. unfold is_digit in H1. destruct (digit_val c) as [d|]; [|discriminate]. apply IH. exact H2.
Qed.
Lemma digits_val_none : forall ds acc, forallb is_digit ds = false -> digits_val acc ds = None.
Proof.
  induction ds as [|c ds IH]; intros acc H; [discriminate|]. cbn [forallb] in H. cbn [digits_val]. unfold is_digit in H.
  destruct (digit_val c) as [d|]; [|reflexivity]. cbn [andb] in H. apply IH. exact H.
Qed.
Theorem gen_to_int ds : py_P_to_int ds = match to_int true ds with Some z => FRet z | None => FRaised verr end.
Proof.
  unfold py_P_to_int, to_int, to_int_fixed. destruct ds as [|c ds]; [reflexivity|]. rewrite exists_nondigit. cbn [orb].
  destruct (forallb is_digit (c :: ds)) eqn:E.
  - cbn [negb seqo]. unfold all_digits. rewrite E. unfold int_of_digits. destruct (digits_val_some (c :: ds) 0%N E) as [n ->]. reflexivity.
  - cbn [negb seqo finish]. rewrite (digits_val_none _ _ E). reflexivity.
Qed.

(* ---------- index facts: the text is pre ++ l and the cursor stands at |pre| ---------- *)
Lemma idx_mid {A} (pre : list A) c t : idx_ok (pre ++ c :: t) (Z.of_nat (length pre)) = true.
Proof.
  unfold idx_ok, py_index. rewrite app_length. cbn [length]. assert (E1 : (Z.of_nat (length pre) <? 0) = false) by lia. rewrite E1.
  assert (E2 : ((0 <=? Z.of_nat (length pre)) && (Z.of_nat (length pre) <? Z.of_nat (length pre + S (length t)))) = true) by lia. rewrite E2. reflexivity.
Qed.
Lemma get_mid {A} (d : A) pre c t : list_get d (pre ++ c :: t) (Z.of_nat (length pre)) = c.
Proof.
  unfold list_get, py_index. rewrite app_length. cbn [length]. assert (E1 : (Z.of_nat (length pre) <? 0) = false) by lia. rewrite E1.
  assert (E2 : ((0 <=? Z.of_nat (length pre)) && (Z.of_nat (length pre) <? Z.of_nat (length pre + S (length t)))) = true) by lia. rewrite E2, Nat2Z.id. apply nth_middle.
Qed.
Lemma is_number_not_false c : is_token c = false -> is_number true c <> Some false.
Proof. unfold is_number. intros H. destruct (is_digit c); [discriminate|]. rewrite H. discriminate. Qed.

Lemma read_number_split : forall l ds r, read_number true l = Some (ds, r) -> l = ds ++ r.
Proof.
  induction l as [|c t IH]; intros ds r H; cbn [read_number] in H; [injection H as <- <-; reflexivity|].
  destruct (is_token c); [injection H as <- <-; reflexivity|]. destruct (is_number true c) as [[|]|]; try discriminate.
  destruct (read_number true t) as [[ds' r']|] eqn:E; [|discriminate]. injection H as <- <-. cbn [app]. f_equal. apply IH. reflexivity.
Qed.

Lemma gate_char c : is_gate c = true -> char_of (gate_of c) = c.
Proof. destruct c as [[|] [|] [|] [|] [|] [|] [|] [|]]; vm_compute; intros H; try reflexivity; discriminate H. Qed.
Lemma to_text_identity k : to_text (identity k) = repeat "I"%char k.
Proof. unfold to_text, identity. induction k as [|k IH]; [reflexivity|]. cbn [repeat map char_of]. rewrite IH. reflexivity. Qed.
Lemma to_text_length p : length (to_text p) = length p.
Proof. apply map_length. Qed.
Lemma get_mid1 {A} (d : A) pre c u t : list_get d (pre ++ c :: u :: t) (Z.of_nat (length pre) + 1) = u.
Proof.
  replace (Z.of_nat (length pre) + 1) with (Z.of_nat (length (pre ++ [c]))) by (rewrite app_length; cbn [length]; lia).
  replace (pre ++ c :: u :: t) with ((pre ++ [c]) ++ u :: t) by (rewrite <- app_assoc; reflexivity). apply get_mid.
Qed.
Lemma idx_mid1 {A} (pre : list A) c u t : idx_ok (pre ++ c :: u :: t) (Z.of_nat (length pre) + 1) = true.
Proof.
  replace (Z.of_nat (length pre) + 1) with (Z.of_nat (length (pre ++ [c]))) by (rewrite app_length; cbn [length]; lia).
  replace (pre ++ c :: u :: t) with ((pre ++ [c]) ++ u :: t) by (rewrite <- app_assoc; reflexivity). apply idx_mid.
Qed.

Lemma find_s_from : forall text k,
  match find_s text with
  | None => str_find_from k text "s"%char = -1
  | Some (a, b) => str_find_from k text "s"%char = k + Z.of_nat (length a) /\ text = a ++ "s"%char :: b
  end.
Proof.
  induction text as [|c t IH]; intros k; cbn [find_s str_find_from]; [reflexivity|].
  change (Ascii.eqb c "s") with (c =? "s")%char. destruct (c =? "s")%char eqn:E.
  - apply Ascii.eqb_eq in E. subst c. cbn [length app]. split; [lia|reflexivity].
  - specialize (IH (k + 1)). destruct (find_s t) as [[a b]|].
    + destruct IH as [I1 I2]. cbn [length app]. split; [lia|rewrite <- I2; reflexivity].
    + exact IH.
Qed.
Lemma clamp_nat {A} (l : list A) k : (k <= length l)%nat -> clamp l (Z.of_nat k) = k.
Proof. intros H. unfold clamp. assert (E : (Z.of_nat k <? 0) = false) by lia. rewrite E, Nat2Z.id. lia. Qed.
Lemma slice_to_app {A} (a : list A) c b : slice_to (a ++ c :: b) (Z.of_nat (length a)) = a.
Proof. unfold slice_to. rewrite clamp_nat by (rewrite app_length; lia). rewrite firstn_app, Nat.sub_diag, firstn_all. cbn. apply app_nil_r. Qed.
Lemma slice_from_app {A} (a : list A) c b : slice_from (a ++ c :: b) (Z.of_nat (length a) + 1) = b.
Proof.
  unfold slice_from. replace (Z.of_nat (length a) + 1) with (Z.of_nat (S (length a))) by lia. rewrite clamp_nat by (rewrite app_length; cbn [length]; lia).
  replace (a ++ c :: b) with ((a ++ [c]) ++ b) by (rewrite <- app_assoc; reflexivity). replace (S (length a)) with (length (a ++ [c])) by (rewrite app_length; cbn [length]; lia).
  rewrite skipn_app, skipn_all, Nat.sub_diag. reflexivity.
Qed.

Theorem gen_parser text fuel : (length text < fuel)%nat ->
  py_P_pauli_string_parser fuel text = match parse_text true text with POk p => FRet (to_text p) | PErr => FRaised verr end.
Proof.
  intros Hf. unfold py_P_pauli_string_parser. cbv zeta.
  match goal with |- context [while_loop fuel ?c ?b] => set (C1 := c); set (B1 := b) end.
  match (eval unfold B1 in B1) with context [while_loop fuel ?c ?b] => set (C2 := c) in (value of B1); set (B2 := b) in (value of B1) end.
  (* the inner loop: digits up to the next token *)
  assert (Inner : forall l pre f nw sz idx ss tok m p pos pad, (length l < f)%nat ->
    while_loop f C2 B2 (nw, Z.of_nat (length pre), sz, idx, ss, pre ++ l, tok, m, p, pos, pad) =
    match read_number true l with
    | Some (ds, r) => Next (nw, Z.of_nat (length pre + length ds), sz, idx, ss, pre ++ l, tok, m, p ++ ds, pos, pad)
    | None => Raised verr
    end).
  { clear. induction l as [|c t IH]; intros pre f nw sz idx ss tok m p pos pad Hlt.
    - destruct f as [|f]; [cbn in Hlt; lia|]. cbn [while_loop read_number]. unfold C2 at 1. cbv beta iota. rewrite app_nil_r.
      assert (E : (Z.of_nat (length pre) <? Z.of_nat (length pre)) = false) by lia. rewrite E, Nat.add_0_r, app_nil_r. reflexivity.
    - destruct f as [|f]; [cbn in Hlt; lia|]. cbn [while_loop read_number]. unfold C2 at 1. cbv beta iota.
      assert (E : (Z.of_nat (length pre) <? Z.of_nat (length (pre ++ c :: t))) = true) by (rewrite app_length; cbn [length]; lia). rewrite E.
      unfold B2 at 1. cbv beta iota. rewrite idx_mid, get_mid. cbn [seqo]. rewrite gen_is_token.
      destruct (is_token c) eqn:Et.
      + cbn [seqo uncont]. rewrite Nat.add_0_r, app_nil_r. reflexivity.
      + cbn [seqo]. cbv beta iota. rewrite idx_mid, get_mid, gen_is_number. destruct (is_number true c) as [[|]|] eqn:En.
        * cbn [bindr seqo uncont]. cbv beta iota.
          replace (Z.of_nat (length pre) + 1) with (Z.of_nat (length (pre ++ [c]))) by (rewrite app_length; cbn [length]; lia).
          replace (pre ++ c :: t) with ((pre ++ [c]) ++ t) by (rewrite <- app_assoc; reflexivity).
          rewrite (IH (pre ++ [c]) f) by (cbn [length] in Hlt; lia).
          destruct (read_number true t) as [[ds r]|]; [|reflexivity]. rewrite app_length. cbn [length]. rewrite <- !app_assoc. cbn [app].
          replace (length pre + 1 + length ds)%nat with (length pre + S (length ds))%nat by lia. reflexivity.
        * exfalso. exact (is_number_not_false c Et En).
        * reflexivity. }
  (* the outer loop: one operator, or one positioned operator, per iteration *)
  assert (Outer : forall f l pre acc f' sz idx ss tok m p pos pad, (length l <= f)%nat -> (length l < f')%nat -> (length (pre ++ l) < fuel)%nat ->
    exists tok' m' p' pos',
    while_loop f' C1 B1 (to_text acc, Z.of_nat (length pre), sz, idx, ss, pre ++ l, tok, m, p, pos, pad) =
    match parse_ops true f l acc with
    | POk r => Next (to_text r, Z.of_nat (length pre + length l), sz, idx, ss, pre ++ l, tok', m', p', pos', pad)
    | PErr => Raised verr
    end).
  { clear - Inner. induction f as [|f IH]; intros l pre acc f' sz idx ss tok m p pos pad Hl Hf' Hfuel.
    - destruct l as [|c rest]; [|cbn in Hl; lia]. destruct f' as [|f']; [cbn in Hf'; lia|]. exists tok, m, p, pos. cbn [while_loop parse_ops]. unfold C1 at 1. cbv beta iota.
      rewrite app_nil_r. assert (E : (Z.of_nat (length pre) <? Z.of_nat (length pre)) = false) by lia. rewrite E. cbn [length]. rewrite Nat.add_0_r. reflexivity.
    - destruct f' as [|f']; [cbn in Hf'; lia|]. destruct l as [|c rest].
      + exists tok, m, p, pos. cbn [while_loop parse_ops]. unfold C1 at 1. cbv beta iota.
        rewrite app_nil_r. assert (E : (Z.of_nat (length pre) <? Z.of_nat (length pre)) = false) by lia. rewrite E. cbn [length]. rewrite Nat.add_0_r. reflexivity.
      + cbn [while_loop parse_ops]. unfold C1 at 1. cbv beta iota.
        assert (E : (Z.of_nat (length pre) <? Z.of_nat (length (pre ++ c :: rest))) = true) by (rewrite app_length; cbn [length]; lia). rewrite E.
        unfold B1 at 1. cbv beta iota. rewrite idx_mid, get_mid. cbn [in_GATES]. destruct (is_gate c) eqn:Eg; [|exists tok, m, p, pos; reflexivity].
        cbn [negb seqo]. cbv beta iota. rewrite idx_mid, get_mid.
        assert (Plain : exists tok' m' p' pos',
           while_loop f' C1 B1 (to_text acc ++ [c], Z.of_nat (length pre) + 1, sz, idx, ss, pre ++ c :: rest, [c], m, p, pos, pad) =
           match parse_ops true f rest (acc ++ [gate_of c]) with
           | POk r => Next (to_text r, Z.of_nat (length pre + length (c :: rest)), sz, idx, ss, pre ++ c :: rest, tok', m', p', pos', pad)
           | PErr => Raised verr end).
        { replace (to_text acc ++ [c]) with (to_text (acc ++ [gate_of c])) by (unfold to_text; rewrite map_app; cbn [map]; rewrite (gate_char c Eg); reflexivity).
          replace (Z.of_nat (length pre) + 1) with (Z.of_nat (length (pre ++ [c]))) by (rewrite app_length; cbn [length]; lia).
          replace (pre ++ c :: rest) with ((pre ++ [c]) ++ rest) by (rewrite <- app_assoc; reflexivity).
          destruct (IH rest (pre ++ [c]) (acc ++ [gate_of c]) f' sz idx ss [c] m p pos pad) as [tok' [m' [p' [pos' E']]]];
            [cbn [length] in Hl; lia|cbn [length] in Hf'; lia|rewrite <- app_assoc; exact Hfuel|].
          exists tok', m', p', pos'. rewrite E'. rewrite app_length. cbn [length]. replace (length pre + 1 + length rest)%nat with (length pre + S (length rest))%nat by lia. reflexivity. }
        destruct rest as [|u [|x r]]; rewrite app_length; cbn [length].
        * assert (E2 : (Z.of_nat (length pre) <? Z.of_nat (length pre + 1) - 2) = false) by lia. rewrite E2. cbn [negb orb andb seqo uncont]. cbv beta iota. exact Plain.
        * assert (E2 : (Z.of_nat (length pre) <? Z.of_nat (length pre + 2) - 2) = false) by lia. rewrite E2. cbn [negb orb andb seqo uncont]. cbv beta iota. exact Plain.
        * assert (E2 : (Z.of_nat (length pre) <? Z.of_nat (length pre + S (S (S (length r)))) - 2) = true) by lia. rewrite E2.
          rewrite idx_mid1, get_mid1. cbn [negb orb andb str_eqb]. rewrite andb_true_r.
          change (Ascii.eqb u "_") with (u =? "_")%char. destruct (u =? "_")%char eqn:Eu; [|cbn [seqo uncont]; cbv beta iota; exact Plain].
          apply Ascii.eqb_eq in Eu. subst u. clear Plain.
          replace (Z.of_nat (length pre) + 2) with (Z.of_nat (length (pre ++ ["X"; "_"]%char))) by (rewrite app_length; cbn [length]; lia).
          assert (Etxt : pre ++ c :: "_"%char :: x :: r = (pre ++ [c; "_"%char]) ++ x :: r) by (rewrite <- app_assoc; reflexivity).
          replace (length (pre ++ ["X"; "_"]%char)) with (length (pre ++ [c; "_"%char])) by (rewrite !app_length; reflexivity).
          rewrite Etxt. rewrite (Inner (x :: r) (pre ++ [c; "_"%char]) fuel) by (rewrite Etxt in Hfuel; rewrite app_length in Hfuel; lia).
          change ("_" =? "_")%char with true. cbv iota.
          destruct (read_number true (x :: r)) as [[ds r3]|] eqn:ER; [|exists tok, m, p, pos; reflexivity].
          cbn [seqo app]. cbv beta iota. rewrite gen_to_int. destruct (to_int true ds) as [pv|]; [|exists tok, m, p, pos; reflexivity].
          cbn [bindr]. rewrite to_text_length. destruct (pv - Z.of_nat (length acc) - 1 <? 0) eqn:Ep; [exists tok, m, p, pos; reflexivity|].
          cbn [seqo]. cbv beta iota. rewrite <- Etxt. rewrite idx_mid, get_mid. cbn [seqo uncont]. cbv beta iota.
          assert (Hsplit := read_number_split _ _ _ ER). rewrite ?to_text_length.
          set (k := Z.to_nat (pv - Z.of_nat (length acc) - 1)).
          replace (to_text acc ++ repeat "I"%char k ++ [c]) with (to_text (acc ++ identity k ++ [gate_of c]))
            by (unfold to_text; rewrite !map_app; fold (to_text (identity k)); rewrite to_text_identity; cbn [map]; rewrite (gate_char c Eg); reflexivity).
          assert (Etxt2 : pre ++ c :: "_"%char :: x :: r = (pre ++ [c; "_"%char] ++ ds) ++ r3) by (rewrite Hsplit, <- !app_assoc; reflexivity).
          replace (Z.of_nat (length (pre ++ [c; "_"%char]) + length ds)) with (Z.of_nat (length (pre ++ [c; "_"%char] ++ ds))) by (rewrite !app_length; lia).
          rewrite Etxt2.
          assert (Hr3 : (length r3 <= S (length r))%nat) by (assert (HL := f_equal (@length ascii) Hsplit); rewrite app_length in HL; cbn [length] in HL; lia).
          destruct (IH r3 (pre ++ [c; "_"%char] ++ ds) (acc ++ identity k ++ [gate_of c]) f' sz idx ss (repeat "I"%char k ++ [c]) (Z.of_nat (length pre)) ds pv pad)
            as [tok' [m' [p' [pos' E']]]]; [cbn [length] in Hl; lia|cbn [length] in Hf'; lia|rewrite <- Etxt2; exact Hfuel|].
          exists tok', m', p', pos'. rewrite E'. destruct (parse_ops true f r3 (acc ++ identity k ++ [gate_of c])); [|reflexivity].
          assert (HL : (length (pre ++ [c; "_"%char] ++ ds) + length r3 = length pre + S (S (S (length r))))%nat).
          { assert (H2 := f_equal (@length ascii) Etxt2). rewrite !app_length in H2. cbn [length] in H2. rewrite !app_length. cbn [length]. lia. }
          rewrite HL. reflexivity. }
  match goal with |- context [while_loop fuel C1 ?b] => change b with B1 end.
  unfold parse_text. unfold str_find. assert (Hfs := find_s_from text 0). destruct (find_s text) as [[a b]|] eqn:Efs.
  - destruct Hfs as [Hidx Htxt]. rewrite Hidx. rewrite Z.add_0_l. clear Hidx Efs. subst text. set (text := a ++ "s"%char :: b) in *.
    assert (E1 : negb (Z.of_nat (length a) =? -1) = true) by lia. rewrite E1.
    assert (Hlen : length text = (length a + S (length b))%nat) by (unfold text; rewrite app_length; reflexivity).
    destruct b as [|c b'].
    + assert (E2 : (Z.of_nat (length a) =? Z.of_nat (length text) - 1) = true) by (rewrite Hlen; cbn [length]; lia). rewrite E2. reflexivity.
    + assert (E2 : (Z.of_nat (length a) =? Z.of_nat (length text) - 1) = false) by (rewrite Hlen; cbn [length]; lia). rewrite E2.
      cbn [seqo]. cbv beta iota. unfold text at 1 2. rewrite slice_from_app, gen_to_int.
      destruct (to_int true (c :: b')) as [z|]; [|reflexivity]. cbn [bindr seqo]. cbv beta iota. unfold text at 1. rewrite slice_to_app.
      assert (Ha : (length a < fuel)%nat) by (rewrite Hlen in Hf; lia).
      destruct (Outer (length a) a [] [] fuel (Some z) (Z.of_nat (length a)) (c :: b') [] 0 [] 0 0 (le_n _) Ha Ha) as [tok' [m' [p' [pos' E]]]].
      cbn [app length to_text map] in E. change (Z.of_nat 0) with 0 in E. rewrite E. clear E.
      destruct (parse_ops true (length a) a []) as [r|]; [|reflexivity]. cbn [seqo]. cbv beta iota. rewrite to_text_length.
      cbn [negb seqo unopt_z]. destruct (z <? Z.of_nat (length r)) eqn:Ez; [reflexivity|]. cbn [seqo finish]. cbv beta iota. cbn [finish].
      f_equal. unfold to_text. rewrite map_app. fold (to_text (identity (Z.to_nat z - length r))). rewrite to_text_identity. f_equal. f_equal. cbn [unopt_z]. rewrite map_length. lia.
  - rewrite Hfs. assert (E1 : negb (-1 =? -1) = false) by reflexivity. rewrite E1. cbn [seqo]. cbv beta iota.
    destruct (Outer (length text) text [] [] fuel None (-1) [] [] 0 [] 0 0 (le_n _) Hf Hf) as [tok' [m' [p' [pos' E]]]].
    cbn [app length to_text map] in E. change (Z.of_nat 0) with 0 in E. rewrite E. clear E.
    destruct (parse_ops true (length text) text []) as [r|]; reflexivity.
Qed.

(* non-vacuity and the corners: sparse notation with a size, a wrong position order, a missing number, a digit-less size *)
Example gen_parser_runs :
  py_P_pauli_string_parser 20 ["X"; "_"; "3"; "Z"; "s"; "5"]%char = FRet ["I"; "I"; "X"; "Z"; "I"]%char /\
  py_P_pauli_string_parser 20 ["X"; "_"; "3"; "Z"; "_"; "2"]%char = FRaised verr /\
  py_P_pauli_string_parser 20 ["X"; "_"]%char = FRaised verr /\ py_P_pauli_string_parser 20 ["X"; "s"]%char = FRaised verr /\
  py_P_pauli_string_parser 3 ["X"; "Y"; "Z"; "I"]%char = FOutOfFuel.
Proof. repeat split; vm_compute; reflexivity. Qed.
(* C17 read on the source: text written by str() parses back to the same string *)
Theorem gen_roundtrip p fuel : (length p < fuel)%nat -> py_P_pauli_string_parser fuel (to_text p) = FRet (to_text p).
Proof. intros H. rewrite gen_parser by (rewrite to_text_length; exact H). rewrite (roundtrip true). reflexivity. Qed.

Print Assumptions gen_is_number.
Print Assumptions gen_to_int.
Print Assumptions gen_parser.
Print Assumptions gen_parser_runs.
Print Assumptions gen_roundtrip.
